//! C07 correspondence harness: nothing bound to a fabric outlives that fabric.
//!
//! usage: c07 gen <quick|thorough> <seed> <outdir>   -> cases.txt
//!        c07 run <cases-file>                        -> one canonical line per case from the REAL code
//!
//! A case drives a real device (`Matter` + `InteractionModel` + the root-endpoint cluster handlers)
//! with real Interaction Model invokes / writes / subscribe requests and real CASE handshakes and
//! resumptions sent by a second `Matter` over an in-memory datagram network (technique of c08.rs).
//! The key-value store is `e2e::MemKv`; a restart builds a new device from the store contents.
//!
//! Case line:   S <id> <k><p> <op>,<op>,...
//!     k = which fabrics are commissioned (1: {1}, 2: {1,2}, 3: {1,254}, 4: {2,253}; roots 0,1)
//!     p = a PASE session is present (0/1)
//!   sessions are named in creation order (the PASE session is 1, the administrator's CASE
//!   sessions on the commissioned fabrics are 2, 3, new ones get the next number).
//! ops (s = session name):
//!     A<s>        ArmFailSafe(60)                     Z<s>   ArmFailSafe(0)
//!     N<s>:<r>    CSRRequest, AddTrustedRootCertificate(root r), AddNOC
//!     U<s>        CSRRequest(update), UpdateNOC
//!     K<s>        CommissioningComplete               V<s>   RevokeCommissioning (timed)
//!     R<s>:<i>    RemoveFabric(i)                     T      fail-safe timer expiry
//!     E<r>        real CASE handshake by the administrator with its credentials under root r
//!     H<f>:<n>    node n completed a CASE handshake on fabric index f (the atomic step of Sigma3:
//!                 session + resumption record; installed through the public API, no handshake)
//!     G<f>        a group session on fabric index f
//!     S<k>        real Sigma1 with the resumption id / shared secret of the record named k
//!     F           the debounced background task stores the resumption cache
//!     X           restart                              O      the reporter's purge phase
//!     Q<s>:<k>    write ACL := [admin, view(subject k)] on session s
//!     B<s>        SubscribeRequest on session s        P      new PASE session
//!     e<r> / s<k> like E / S, but the handshake is CAUGHT IN ITS LAST STEP: the network holds back
//!                 the peer's last message (the acknowledgement of the device's final status report /
//!                 SigmaFinished), so the device's handshake handler keeps waiting with its reserved
//!                 slot already switched to `Case { fab_idx }` (one such handshake at a time; while it
//!                 is pending E / S / e / s answer `busy`)
//!     D           the held-back message is delivered: the pending handshake runs to completion
//!     b<s>        a SubscribeRequest (wildcard events) arrives on CASE session s when the fail-safe timer
//!                 is due (the timeout check runs first), then the reporter's purge phase runs
//!     r<s>:<i>    RemoveFabric(i) is invoked on CASE session s while a subscription is being primed on s
//!                 (the administrator holds back its StatusResponse to the priming report), then the
//!                 priming completes, then the reporter's purge phase runs
//! Output line: S <id> <status>@<snapshot>;...   (one per op; see `snapshot`)
//! Other case kinds: H <id> (capacity constants), W <id> <k><p> <ops> (wire probe: like S, but
//! requests are SENT even if the device has no usable session for them; short MRP intervals).
//!
//! The snapshots carry the harness's own incarnation bookkeeping: a fabric's incarnation is
//! named by its operational key (a key first seen after AddNOC starts a new incarnation, a key
//! first seen after UpdateNOC belongs to the incarnation it replaced); a session / record /
//! subscription gets the incarnation of the fabric (or of the record / session) it was created
//! from, at the moment it is first seen.
use core::num::NonZeroU8;
use std::cell::RefCell;
use std::collections::{BTreeMap, HashMap};
use std::fmt::Write as _;
use std::io::Write as _;

use embassy_futures::select::{select, select4, Either};

use rs_matter::cert::gen::VALID_FOREVER;
use rs_matter::cert::{CertRef, MAX_CERT_TLV_AND_ASN1_LEN};
use rs_matter::crypto::{
    test_only_crypto, CanonAeadKey, CanonPkcSecretKey, CanonPkcSharedSecret, Crypto, CryptoSensitive,
    SecretKey, SigningSecretKey,
};
use rs_matter::dm::clusters::net_comm::NetworkType;
use rs_matter::dm::endpoints;
use rs_matter::dm::networks::wireless::{NoopWirelessNetCtl, WifiNetworks};
use rs_matter::dm::Node;
use rs_matter::error::Error;
use rs_matter::fabric::{Fabric, FabricPersist, Fabrics};
use rs_matter::im::client::{ImClient, SubscribeOutcome, TxOutcome};
use rs_matter::im::client::SubscribePrimingChunk;
use rs_matter::im::{AttrPath, CmdResp, EventPath, GenericPath, IMStatusCode, InteractionModel, InteractionModelState};
use rs_matter::onboard::cac::RcacGenerator;
use rs_matter::onboard::noc::NocGenerator;
use rs_matter::persist::{CASE_RESUMPTION_KEY, PERSISTENT_SUBSCRIPTIONS_START};
use rs_matter::respond::Responder;
use rs_matter::sc::case::{CaseInitiator, ResumableSession, ResumableSessions, MAX_RESUMPTION_RECORDS};
use rs_matter::tlv::{FromTLV, OctetStr, TLVElement, TLVTag, TLVWrite};
use rs_matter::transport::exchange::{Exchange, MatterBuffers};
use rs_matter::transport::network::NoNetwork;
use rs_matter::transport::session::{ReservedSession, SessionMode, MAX_SESSIONS};
use rs_matter::utils::select::Coalesce;
use rs_matter::utils::storage::WriteBuf;
use rs_matter::{root_endpoint, Matter};

use rsm_harness::e2e::{self, MemKv, Net};
use rsm_harness::Rng;

const DEV: u16 = 1;
const CTL: u16 = 2;
const CTL2: u16 = 3;
const ADMIN: u64 = 0x1111;
const DEV_NODE: u64 = 0x2222;
const VENDOR: u16 = 0xFFF1;
const IPK: [u8; 16] = [7; 16];
const NROOTS: usize = 5;
/// the root of the credentials used for resumption attempts: never commissioned on the device
const RESUME_ROOT: usize = 5;

const CL_GENCOMM: u32 = 0x30;
const CL_ADMCOMM: u32 = 0x3C;
const CL_NOC: u32 = 0x3E;
const CL_ACL: u32 = 0x1F;
const CL_BASIC: u32 = 0x28;

type Nets = WifiNetworks<3>;
type DevState = InteractionModelState<Nets>;

// ------------------------------------------------------------------ certificate material (once per process)

struct Root {
    privkey: CanonPkcSecretKey,
    cert: Vec<u8>,
    /// the administrator's operational key and NOC under this root
    ctl_key: CanonPkcSecretKey,
    ctl_noc: Vec<u8>,
}

struct Base {
    roots: Vec<Root>,
    /// identities of the resuming peer under RESUME_ROOT: (node id, key, NOC); controller-2 fabric index = position + 1
    resume_ids: Vec<(u64, CanonPkcSecretKey, Vec<u8>)>,
    /// per init kind: the persisted fabrics (key = fabric index) and their operational public keys
    init: BTreeMap<u8, (BTreeMap<u16, Vec<u8>>, Vec<Vec<u8>>)>,
}

fn pubkey_of<C: Crypto>(crypto: &C, sk: &CanonPkcSecretKey) -> Vec<u8> {
    let mut pk = rs_matter::crypto::CanonPkcPublicKey::new();
    use rs_matter::crypto::PublicKey;
    crypto.secret_key(sk.reference()).unwrap().pub_key().unwrap().write_canon(&mut pk).unwrap();
    pk.access().to_vec()
}

fn ipk() -> CanonAeadKey {
    let mut k = CanonAeadKey::new();
    k.access_mut().copy_from_slice(&IPK);
    k
}

fn mint_noc<C: Crypto>(crypto: &C, root: &Root, csr: &[u8], node: u64) -> Vec<u8> {
    let mut noc_buf = vec![0u8; MAX_CERT_TLV_AND_ASN1_LEN];
    let mut ng = NocGenerator::create(root.privkey.reference(), &root.cert, &[], &mut noc_buf).unwrap();
    ng.generate(crypto, csr, node, &[], VALID_FOREVER).unwrap().to_vec()
}

fn fresh_key_and_noc<C: Crypto>(crypto: &C, privkey: &CanonPkcSecretKey, cert: &[u8], node: u64) -> (CanonPkcSecretKey, Vec<u8>) {
    let sk = crypto.generate_secret_key().unwrap();
    let mut csr_buf = [0u8; 256];
    let csr = sk.csr(&mut csr_buf).unwrap();
    let mut sk_canon = CanonPkcSecretKey::new();
    sk.write_canon(&mut sk_canon).unwrap();
    let mut noc_buf = vec![0u8; MAX_CERT_TLV_AND_ASN1_LEN];
    let mut ng = NocGenerator::create(privkey.reference(), cert, &[], &mut noc_buf).unwrap();
    let noc = ng.generate(crypto, csr, node, &[], VALID_FOREVER).unwrap().to_vec();
    (sk_canon, noc)
}

/// the fabric indices of an init kind, in order of their roots 0, 1
fn init_indices(kind: u8) -> Vec<u8> {
    match kind {
        1 => vec![1],
        3 => vec![1, 254],
        4 => vec![2, 253],
        _ => vec![1, 2],
    }
}

fn make_base() -> Base {
    let crypto = test_only_crypto();
    let mut roots = Vec::new();
    for r in 0..NROOTS as u64 + 1 {
        let mut buf = vec![0u8; MAX_CERT_TLV_AND_ASN1_LEN];
        let mut g = RcacGenerator::new(&mut buf);
        let (privkey, cert) = g.generate(&crypto, 10 + r, VALID_FOREVER).unwrap();
        let cert = cert.to_vec();
        let (ctl_key, ctl_noc) = fresh_key_and_noc(&crypto, &privkey, &cert, ADMIN);
        roots.push(Root { privkey, cert, ctl_key, ctl_noc });
    }
    // the commissioned fabrics of every init kind, as a commissioned device would hold them.
    // An index above the table size is reached the way a device reaches it: by adding and
    // removing fabrics (the allocation is max + 1).
    let mut init = BTreeMap::new();
    for kind in [1u8, 2, 3, 4] {
        let want = init_indices(kind);
        let matter = e2e::new_matter(e2e::dev_det(None, None), false);
        let kv = MemKv::new();
        let access = matter.kv(kv.clone());
        let mut pubkeys = Vec::new();
        let (dkey, dnoc) = fresh_key_and_noc(&crypto, &roots[4].privkey, &roots[4].cert, 1);
        let mut reached = true;
        matter.with_state(|state| {
            let mut last_dummy: Option<NonZeroU8> = None;
            let mut next = 1u8;
            'outer: for (r, idx) in want.iter().enumerate() {
                // dummies up to idx - 1
                while next < *idx {
                    let d = state
                        .fabrics
                        .add(&crypto, dkey.reference(), &roots[4].cert, &dnoc, &[], Some(ipk().reference()), VENDOR, ADMIN)
                        .unwrap()
                        .fab_idx();
                    if d.get() != next {
                        // the index allocation is not max + 1: this initial state cannot be built
                        reached = false;
                        break 'outer;
                    }
                    if let Some(p) = last_dummy {
                        state.fabrics.remove(p).unwrap();
                    }
                    last_dummy = Some(d);
                    next += 1;
                }
                let (sk, noc) = fresh_key_and_noc(&crypto, &roots[r].privkey, &roots[r].cert, DEV_NODE + r as u64);
                let f = state
                    .fabrics
                    .add(&crypto, sk.reference(), &roots[r].cert, &noc, &[], Some(ipk().reference()), VENDOR, ADMIN)
                    .unwrap();
                if f.fab_idx().get() != *idx {
                    reached = false;
                    break 'outer;
                }
                let mut p = FabricPersist::new(&access);
                p.store(f).unwrap();
                p.run().unwrap();
                pubkeys.push(pubkey_of(&crypto, &sk));
                if let Some(p) = last_dummy.take() {
                    state.fabrics.remove(p).unwrap();
                }
                next = *idx + 1;
            }
        });
        if reached {
            init.insert(kind, (kv.blobs(), pubkeys));
        }
    }
    let mut resume_ids = Vec::new();
    for node in [ADMIN, 9, 10] {
        let (k, noc) = fresh_key_and_noc(&crypto, &roots[RESUME_ROOT].privkey, &roots[RESUME_ROOT].cert, node);
        resume_ids.push((node, k, noc));
    }
    Base { roots, resume_ids, init }
}

// ------------------------------------------------------------------ case description

#[derive(Clone, Debug)]
enum Op {
    Arm(u64),
    AddNoc(u64, usize),
    UpdNoc(u64),
    Complete(u64),
    Remove(u64, u8),
    Timeout,
    Arm0(u64),
    Revoke(u64),
    Establish(usize),
    Peer(u8, u64),
    Group(u8),
    Resume(u64),
    Persist,
    Restart,
    Report,
    Request(u64, u64),
    Subscribe(u64),
    NewPase,
    EstablishBegin(usize),
    ResumeBegin(u64),
    Finish,
    SubscribeDue(u64),
    SubscribeRemove(u64, u8),
}

fn parse_op(t: &str) -> Op {
    let kind = t.chars().next().unwrap();
    let rest: Vec<u64> = if t.len() > 1 { t[1..].split(':').map(|x| x.parse().unwrap()).collect() } else { vec![] };
    let n = |i: usize| -> u64 { rest[i] };
    match kind {
        'A' => Op::Arm(n(0)),
        'N' => Op::AddNoc(n(0), n(1) as usize),
        'U' => Op::UpdNoc(n(0)),
        'K' => Op::Complete(n(0)),
        'R' => Op::Remove(n(0), n(1) as u8),
        'T' => Op::Timeout,
        'Z' => Op::Arm0(n(0)),
        'V' => Op::Revoke(n(0)),
        'E' => Op::Establish(n(0) as usize),
        'H' => Op::Peer(n(0) as u8, n(1)),
        'G' => Op::Group(n(0) as u8),
        'S' => Op::Resume(n(0)),
        'F' => Op::Persist,
        'X' => Op::Restart,
        'O' => Op::Report,
        'Q' => Op::Request(n(0), n(1)),
        'B' => Op::Subscribe(n(0)),
        'P' => Op::NewPase,
        'e' => Op::EstablishBegin(n(0) as usize),
        's' => Op::ResumeBegin(n(0)),
        'D' => Op::Finish,
        'b' => Op::SubscribeDue(n(0)),
        'r' => Op::SubscribeRemove(n(0), n(1) as u8),
        _ => panic!("bad op {}", t),
    }
}

// ------------------------------------------------------------------ the harness's own bookkeeping (survives restarts)

#[derive(Clone)]
struct RecGhost {
    name: u64,
    inc: u64,
    rid: [u8; 16],
    secret: Vec<u8>,
}

struct Ghost {
    /// operational public key -> incarnation
    inc_of_key: HashMap<Vec<u8>, u64>,
    next_inc: u64,
    /// device session unique id -> (name, incarnation, fabric index when the incarnation was assigned)
    sess: HashMap<u32, (u64, u64, u8)>,
    /// session name -> (which controller, controller session unique id)
    twin: HashMap<u64, (u8, u32)>,
    next_sid: u64,
    /// resumption id -> record bookkeeping
    recs: Vec<RecGhost>,
    next_rid: u64,
    /// subscription tag (= min interval) -> incarnation
    subs: HashMap<u16, u64>,
    next_sub: u16,
    /// DER CSRs returned by the device
    csrs: Vec<Vec<u8>>,
    last_root: usize,
    next_local: u16,
    resume_attempts: u64,
}

impl Ghost {
    fn rec_by_rid(&self, rid: &[u8]) -> Option<&RecGhost> {
        self.recs.iter().find(|r| r.rid[..] == *rid)
    }
    fn rec_by_name(&self, k: u64) -> Option<&RecGhost> {
        self.recs.iter().find(|r| r.name == k)
    }
}

// ------------------------------------------------------------------ one device incarnation

const NODE: Node<'static> = Node { endpoints: &[root_endpoint!(wifi)] };

fn remove_plaintext(m: &Matter<'_>) {
    // the unsecured sessions a handshake leaves behind would be evicted by the transport when
    // the table fills up; the harness removes them at once so that eviction never interferes
    m.with_state(|state| {
        let ids: Vec<u32> = state
            .verif_sessions()
            .iter()
            .filter(|s| matches!(s.get_session_mode(), SessionMode::PlainText))
            .map(|s| s.id())
            .collect();
        for id in ids {
            state.verif_sessions().remove(id);
        }
    });
}

fn session_ids(m: &Matter<'_>) -> Vec<u32> {
    m.with_state(|state| {
        state
            .verif_sessions()
            .iter()
            .filter(|s| !matches!(s.get_session_mode(), SessionMode::PlainText))
            .map(|s| s.id())
            .collect()
    })
}

/// install one side of a session without a handshake; returns its unique id
fn preset(m: &Matter<'_>, local_node: u64, peer_node: u64, local_id: u16, peer_id: u16, peer: u16, mode: SessionMode) -> Result<u32, Error> {
    let crypto = test_only_crypto();
    let before = session_ids(m);
    let mut session = ReservedSession::reserve_now(m, &crypto)?;
    session.update(local_node, peer_node, peer_id, local_id, e2e::node_addr(peer), mode, None, None, None, None)?;
    session.complete();
    drop(session);
    let after = session_ids(m);
    Ok(*after.iter().find(|i| !before.contains(i)).unwrap())
}

fn root_index(base: &Base, root: &[u8]) -> String {
    match base.roots.iter().position(|r| r.cert == root) {
        Some(i) => i.to_string(),
        None => "?".to_string(),
    }
}

fn fabric_pubkey(f: &Fabric) -> Vec<u8> {
    CertRef::new(TLVElement::new(f.noc())).pubkey().map(|p| p.to_vec()).unwrap_or_default()
}

/// "idx:inc:root:acl"
fn fabric_str(base: &Base, g: &Ghost, f: &Fabric) -> String {
    let inc = g.inc_of_key.get(&fabric_pubkey(f)).map(|i| i.to_string()).unwrap_or_else(|| "?".into());
    // the subject of the second entry (0: the administrator's entry only)
    let acl = f
        .acl_iter()
        .nth(1)
        .and_then(|e| e.subjects().as_opt_ref().and_then(|s| s.iter().next().copied()))
        .unwrap_or(0);
    format!("{}:{}:{}:{}", f.fab_idx().get(), inc, root_index(base, f.root_ca()), acl)
}

fn fabrics_str(base: &Base, g: &Ghost, fabrics: &Fabrics) -> String {
    let mut v: Vec<(u8, String)> = fabrics.iter().map(|f| (f.fab_idx().get(), fabric_str(base, g, f))).collect();
    v.sort();
    v.into_iter().map(|x| x.1).collect::<Vec<_>>().join(" ")
}

fn recs_str(g: &Ghost, recs: &ResumableSessions) -> String {
    recs.iter()
        .map(|r| {
            let rid = r.resumption_id.reference().access().to_vec();
            match g.rec_by_rid(&rid) {
                Some(x) => format!("{}:{}:{}:{}", x.name, r.fab_idx.get(), r.peer_nodeid, x.inc),
                None => format!("?:{}:{}:?", r.fab_idx.get(), r.peer_nodeid),
            }
        })
        .collect::<Vec<_>>()
        .join(" ")
}

#[derive(FromTLV)]
#[tlvargs(lifetime = "'a")]
struct PersistedSub<'a> {
    fab_idx: u8,
    peer_node_id: u64,
    min_int_secs: u16,
    #[allow(dead_code)]
    max_int_secs: u16,
    #[allow(dead_code)]
    subscribe_req: OctetStr<'a>,
}

fn subs_fmt(g: &Ghost, mut v: Vec<(u16, u8, u64)>) -> String {
    v.sort();
    v.into_iter()
        .map(|(tag, fab, node)| {
            let inc = g.subs.get(&tag).map(|i| i.to_string()).unwrap_or_else(|| "?".into());
            format!("{}:{}:{}:{}", tag, fab, node, inc)
        })
        .collect::<Vec<_>>()
        .join(" ")
}

fn kv_subs(blobs: &BTreeMap<u16, Vec<u8>>) -> Vec<(u16, u8, u64)> {
    let mut v = Vec::new();
    let mut slot = 0u16;
    // the range is contiguous: the first empty slot ends the set (as `load_persist` reads it)
    while let Some(b) = blobs.get(&(PERSISTENT_SUBSCRIPTIONS_START + slot)) {
        if let Ok(p) = PersistedSub::from_tlv(&TLVElement::new(b)) {
            v.push((p.min_int_secs, p.fab_idx, p.peer_node_id));
        }
        slot += 1;
    }
    v
}

struct Dev<'a> {
    dev: &'a Matter<'a>,
    /// the subscription table: (id, fabric index, peer node, min interval)
    subs: &'a dyn Fn() -> Vec<(u32, u8, u64, u16)>,
    kv: &'a MemKv,
}

fn mode_str(m: &SessionMode) -> (&'static str, u8) {
    match m {
        SessionMode::Pase { fab_idx } => ("P", *fab_idx),
        SessionMode::Case { fab_idx, .. } => ("C", fab_idx.get()),
        SessionMode::Group { fab_idx, .. } => ("G", fab_idx.get()),
        SessionMode::PlainText => ("T", 0),
    }
}

/// incarnation of the fabric at index `i` in the device's RAM table, by its key
fn inc_at(dev: &Matter<'_>, g: &Ghost, i: u8) -> u64 {
    dev.with_state(|state| {
        NonZeroU8::new(i)
            .and_then(|i| state.fabrics.get(i))
            .and_then(|f| g.inc_of_key.get(&fabric_pubkey(f)).copied())
            .unwrap_or(0)
    })
}

/// Update the bookkeeping from what is observable after an operation, then print the state.
/// `created_inc`: the incarnation a session / record that appears now was created under, if the
/// operation says so (a resumption: the record's); otherwise the fabric's at this moment.
#[allow(clippy::too_many_arguments)]
fn observe(base: &Base, g: &mut Ghost, d: &Dev<'_>, op: &Op, ok: bool, prev_fab_incs: &BTreeMap<u8, u64>, created_inc: Option<u64>, sub_inc: Option<u64>) -> String {
    // 1. fabrics: name the incarnations of keys seen for the first time
    let fabs: Vec<(u8, Vec<u8>)> = d.dev.with_state(|state| state.fabrics.iter().map(|f| (f.fab_idx().get(), fabric_pubkey(f))).collect());
    for (idx, key) in &fabs {
        if !g.inc_of_key.contains_key(key) {
            let inherited = if matches!(op, Op::UpdNoc(_)) && ok { prev_fab_incs.get(idx).copied() } else { None };
            let inc = match inherited {
                Some(i) => i,
                None => {
                    let i = g.next_inc;
                    g.next_inc += 1;
                    i
                }
            };
            g.inc_of_key.insert(key.clone(), inc);
        }
    }
    // 2. sessions
    let sess: Vec<(u32, SessionMode, Option<u64>, bool, bool)> = d.dev.with_state(|state| {
        state
            .verif_sessions()
            .iter()
            .map(|s| {
                let snap = s.verif_snapshot();
                (snap.id, snap.mode, snap.peer_nodeid, snap.expired, snap.reserved)
            })
            .filter(|x| !matches!(x.1, SessionMode::PlainText))
            .collect()
    });
    let live: Vec<u32> = sess.iter().map(|x| x.0).collect();
    g.sess.retain(|id, _| live.contains(id));
    let mut srows: Vec<(u64, String)> = Vec::new();
    for (id, mode, node, expired, reserved) in &sess {
        let (m, fab) = mode_str(mode);
        if !g.sess.contains_key(id) {
            let inc = if fab == 0 { 0 } else { created_inc.unwrap_or_else(|| inc_at(d.dev, g, fab)) };
            let name = g.next_sid;
            g.next_sid += 1;
            g.sess.insert(*id, (name, inc, fab));
        }
        if g.sess[id].2 == 0 && fab != 0 {
            // a PASE session upgraded by AddNOC: bound to the fabric it was upgraded to, now
            let inc = inc_at(d.dev, g, fab);
            let e = g.sess.get_mut(id).unwrap();
            e.1 = inc;
            e.2 = fab;
        }
        let (name, inc, _) = g.sess[id];
        srows.push((name, format!("{}:{}:{}:{}:{}:{}:{}", name, m, fab, node.unwrap_or(0), *expired as u8, *reserved as u8, inc)));
    }
    srows.sort();
    // 3. resumption records: name the ids seen for the first time
    let recs: Vec<([u8; 16], Vec<u8>, u8)> = d.dev.with_state(|state| {
        state
            .resumption
            .iter()
            .map(|r| (*r.resumption_id.reference().access(), r.shared_secret.reference().access().to_vec(), r.fab_idx.get()))
            .collect()
    });
    for (rid, secret, fab) in &recs {
        if g.rec_by_rid(rid).is_none() {
            let inc = created_inc.unwrap_or_else(|| inc_at(d.dev, g, *fab));
            let name = g.next_rid;
            g.next_rid += 1;
            g.recs.push(RecGhost { name, inc, rid: *rid, secret: secret.clone() });
        }
    }
    // 4. subscriptions
    let subs: Vec<(u16, u8, u64)> = (d.subs)().into_iter().map(|(_, fab, node, min)| (min, fab, node)).collect();
    for (tag, _, _) in &subs {
        if !g.subs.contains_key(tag) {
            g.subs.insert(*tag, sub_inc.unwrap_or(0));
        }
    }
    // print
    let (fs, fstr, rstr) = d.dev.with_state(|state| {
        let fs = match state.verif_failsafe().verif_snapshot() {
            None => "idle".to_string(),
            Some((fab, flags, _t)) => format!("a{}/{}", fab, flags),
        };
        (fs, fabrics_str(base, g, &state.fabrics), recs_str(g, &state.resumption))
    });
    let blobs = d.kv.blobs();
    let kf = {
        let mut fabrics = Fabrics::new();
        let mut buf = vec![0u8; 8192];
        match fabrics.load_persist(MemKv::from_blobs(blobs.clone()), &mut buf) {
            Ok(()) => fabrics_str(base, g, &fabrics),
            Err(_) => "undecodable".to_string(),
        }
    };
    let kr = match blobs.get(&CASE_RESUMPTION_KEY) {
        None => String::new(),
        Some(_) => {
            let mut r = ResumableSessions::new();
            let mut buf = vec![0u8; 8192];
            match r.load_persist(MemKv::from_blobs(blobs.clone()), &mut buf) {
                Ok(()) => recs_str(g, &r),
                Err(_) => "undecodable".to_string(),
            }
        }
    };
    format!(
        "fs={} F[{}] KF[{}] S[{}] R[{}] KR[{}] U[{}] KU[{}]",
        fs,
        fstr,
        kf,
        srows.into_iter().map(|x| x.1).collect::<Vec<_>>().join(" "),
        rstr,
        kr,
        subs_fmt(g, subs),
        subs_fmt(g, kv_subs(&blobs))
    )
}

// ------------------------------------------------------------------ commands

fn im_class(code: IMStatusCode) -> String {
    match code {
        IMStatusCode::Success => "ok".into(),
        IMStatusCode::UnsupportedAccess => "access".into(),
        IMStatusCode::FailSafeRequired => "fsreq".into(),
        IMStatusCode::ConstraintError => "constraint".into(),
        IMStatusCode::InvalidCommand => "invcmd".into(),
        IMStatusCode::NotFound => "notfound".into(),
        IMStatusCode::Failure => "fail".into(),
        other => format!("im{}", other as u16),
    }
}

fn gencomm_class(code: u64) -> String {
    match code {
        0 => "ok".into(),
        2 => "fail".into(),  // InvalidAuthentication
        3 => "fsreq".into(), // NoFailSafe
        4 => "busy".into(),  // BusyWithOtherAdmin
        n => format!("gc{}", n),
    }
}

fn noc_class(code: u64) -> String {
    match code {
        0 => "ok".into(),
        4 => "missingcsr".into(),
        5 => "tablefull".into(),
        9 => "conflict".into(),
        11 => "notfound".into(), // InvalidFabricIndex
        n => format!("noc{}", n),
    }
}

fn tlv(f: impl FnOnce(&mut WriteBuf<'_>) -> Result<(), Error>) -> Vec<u8> {
    let mut buf = vec![0u8; 2048];
    let n = {
        let mut wb = WriteBuf::new(&mut buf);
        f(&mut wb).unwrap();
        wb.get_tail()
    };
    buf.truncate(n);
    buf
}

enum Reply {
    Data(u64, Option<Vec<u8>>),
    Status(IMStatusCode),
    Err(String),
}

async fn invoke(ctl: &Matter<'_>, sid: u32, cluster: u32, cmd: u32, timed: bool, payload: &[u8], want_octets: bool) -> Reply {
    let crypto = test_only_crypto();
    let exchange = match Exchange::initiate_for_session(ctl, &crypto, sid) {
        Ok(e) => e,
        Err(e) => return Reply::Err(format!("initiate:{:?}", e.code())),
    };
    let res = exchange
        .invoke_with(if timed { Some(5000) } else { None }, |b| {
            let b = if timed { b.timed_request(true)?.invoke_requests()? } else { b.invoke_requests()? };
            b.push()?
                .path(0, cluster, cmd)?
                .data(|w| {
                    w.start_struct(&TLVTag::Context(1))?;
                    w.write_raw_data(payload.iter().copied())?;
                    w.end_container()
                })?
                .end()?
                .end()?
                .end()
        })
        .await;
    let chunk = match res {
        Ok(c) => c,
        Err(e) => return Reply::Err(format!("{:?}", e.code())),
    };
    let reply = (|| -> Result<Reply, Error> {
        let resp = match chunk.response()? {
            Some(r) => r,
            None => return Ok(Reply::Status(IMStatusCode::Success)),
        };
        let arr = match resp.invoke_responses {
            Some(a) => a,
            None => return Ok(Reply::Err("empty".into())),
        };
        for r in arr.iter() {
            match r? {
                CmdResp::Cmd(data) => {
                    let s = data.data.structure()?;
                    if want_octets {
                        let o = OctetStr::from_tlv(&s.ctx(0)?)?;
                        return Ok(Reply::Data(0, Some(o.0.to_vec())));
                    }
                    let v = s.ctx(0)?.u64()?;
                    return Ok(Reply::Data(v, None));
                }
                CmdResp::Status(st) => return Ok(Reply::Status(st.status.status)),
            }
        }
        Ok(Reply::Err("empty".into()))
    })();
    let _ = chunk.complete().await;
    reply.unwrap_or_else(|e| Reply::Err(format!("decode:{:?}", e.code())))
}

fn reply_class(r: Reply, data: fn(u64) -> String) -> String {
    match r {
        Reply::Data(c, _) => data(c),
        Reply::Status(s) => im_class(s),
        Reply::Err(e) => {
            if std::env::var("C07_DEBUG").is_ok() {
                eprintln!("invoke error: {}", e);
            }
            "fail".into()
        }
    }
}

async fn write_acl(ctl: &Matter<'_>, sid: u32, k: u64) -> String {
    let crypto = test_only_crypto();
    let exchange = match Exchange::initiate_for_session(ctl, &crypto, sid) {
        Ok(e) => e,
        Err(e) => return format!("err:initiate:{:?}", e.code()),
    };
    let entry = |w: &mut WriteBuf<'_>, privilege: u8, subject: u64| -> Result<(), Error> {
        w.start_struct(&TLVTag::Anonymous)?;
        w.u8(&TLVTag::Context(1), privilege)?;
        w.u8(&TLVTag::Context(2), 2)?; // CASE
        w.start_array(&TLVTag::Context(3))?;
        w.u64(&TLVTag::Anonymous, subject)?;
        w.end_container()?;
        w.null(&TLVTag::Context(4))?;
        w.end_container()
    };
    let entries = tlv(|w| {
        entry(w, 5, ADMIN)?;
        entry(w, 1, k)
    });
    let res = exchange
        .write_with(None, |b| {
            b.write_requests()?
                .push()?
                .path(0, CL_ACL, 0)?
                .data(|w| {
                    w.start_array(&TLVTag::Context(2))?;
                    w.write_raw_data(entries.iter().copied())?;
                    w.end_container()
                })?
                .end()?
                .end()?
                .end()
        })
        .await;
    match res {
        Err(e) => format!("err:{:?}", e.code()),
        Ok(handle) => {
            let r = (|| -> Result<String, Error> {
                let resp = handle.response()?;
                for st in resp.write_responses.iter() {
                    let st = st?;
                    return Ok(im_class(st.status.status));
                }
                Ok("empty".into())
            })();
            r.unwrap_or_else(|e| format!("err:decode:{:?}", e.code()))
        }
    }
}

async fn subscribe(ctl: &Matter<'_>, sid: u32, tag: u16) -> Result<(), Error> {
    let crypto = test_only_crypto();
    let exchange = Exchange::initiate_for_session(ctl, &crypto, sid)?;
    let path = AttrPath::from_gp(&GenericPath::new(Some(0), Some(CL_BASIC), Some(1)));
    let paths = [path];
    let mut sender = exchange.subscribe_sender().await?;
    let mut chunk = loop {
        match sender.tx().await? {
            TxOutcome::BuildRequest(builder) => {
                sender = builder
                    .keep_subs(true)?
                    .min_int_floor(tag)?
                    .max_int_ceil(3600)?
                    .attr_requests_from(&paths)?
                    .fabric_filtered(false)?
                    .end()?;
            }
            TxOutcome::GotResponse(c) => break c,
        }
    };
    loop {
        let _ = chunk.response()?;
        match chunk.complete().await? {
            SubscribeOutcome::NextChunk(next) => chunk = next,
            SubscribeOutcome::Established(_) => break,
        }
    }
    Ok(())
}

/// the first half of `subscribe`: up to the first priming report (not yet answered);
/// `events`: wildcard event paths instead of the attribute path
async fn subscribe_start<'a>(ctl: &'a Matter<'a>, sid: u32, tag: u16, events: bool) -> Result<SubscribePrimingChunk<'a>, Error> {
    let crypto = test_only_crypto();
    let exchange = Exchange::initiate_for_session(ctl, &crypto, sid)?;
    let path = AttrPath::from_gp(&GenericPath::new(Some(0), Some(CL_BASIC), Some(1)));
    let paths = [path];
    let epaths = [EventPath::from_gp(&GenericPath::new(None, None, None))];
    let mut sender = exchange.subscribe_sender().await?;
    loop {
        match sender.tx().await? {
            TxOutcome::BuildRequest(builder) => {
                let b = builder.keep_subs(true)?.min_int_floor(tag)?.max_int_ceil(3600)?;
                sender = if events {
                    b.event_requests_from(&epaths)?.fabric_filtered(false)?.end()?
                } else {
                    b.attr_requests_from(&paths)?.fabric_filtered(false)?.end()?
                };
            }
            TxOutcome::GotResponse(c) => return Ok(c),
        }
    }
}

/// the second half: answer the priming reports until the subscription is established
async fn subscribe_finish(mut chunk: SubscribePrimingChunk<'_>) -> Result<(), Error> {
    loop {
        let _ = chunk.response()?;
        match chunk.complete().await? {
            SubscribeOutcome::NextChunk(next) => chunk = next,
            SubscribeOutcome::Established(_) => return Ok(()),
        }
    }
}

async fn case_handshake(ctl: &Matter<'_>, fab: NonZeroU8, peer_node: u64, seed: u64) -> Result<(), Error> {
    // every handshake draws its own ephemeral material (initiator random, ephemeral node id,
    // first message counter): the test-only generator would repeat them
    use rand::SeedableRng;
    let crypto = rs_matter::crypto::default_crypto(rand::rngs::StdRng::seed_from_u64(0xC07_C000 + seed), rs_matter::dm::devices::test::DAC_PRIVKEY);
    let exchange = Exchange::initiate_plaintext(ctl, &crypto, e2e::node_addr(DEV)).await?;
    CaseInitiator::perform(exchange, &crypto, fab, peer_node).await
}

/// wait until no handshake is in flight any more (the responder finishes after the initiator).
/// `pending`: a handshake is being held in its last step on purpose - its reserved slot and the
/// unsecured session carrying it on the device are not waited for.
async fn settle(dev: &Matter<'_>, ctl: &Matter<'_>, pending: bool) {
    for _ in 0..4000 {
        let busy = |m: &Matter<'_>, skip: bool| {
            m.with_state(|state| {
                state.verif_sessions().iter().any(|s| {
                    let snap = s.verif_snapshot();
                    if skip && (snap.reserved || matches!(snap.mode, SessionMode::PlainText)) {
                        return false;
                    }
                    snap.reserved || !snap.exchanges.is_empty()
                })
            })
        };
        if !busy(dev, pending) && !busy(ctl, false) {
            return;
        }
        embassy_time::Timer::after(embassy_time::Duration::from_millis(1)).await;
    }
}

/// What the network does to the handshake being caught: once the device has sent the message
/// with secure channel opcode `need` to `peer` (its final status report / Sigma2_Resume), everything
/// `peer` sends to the device on the unsecured session is held back.
#[derive(Default)]
struct Hold {
    armed: bool,
    peer: u16,
    need: u32,
    seen: u32,
    holding: bool,
    held: Vec<Vec<u8>>,
}

/// Holding back one message on a secured session: the peer's `skip + 1`-th datagram on the session
/// whose (device-local) id is `sess`, and every retransmission of it (identical bytes).
#[derive(Default)]
struct EncHold {
    armed: bool,
    peer: u16,
    sess: u16,
    skip: u32,
    captured: Option<Vec<u8>>,
}

type HandshakeFut<'f> = core::pin::Pin<Box<dyn core::future::Future<Output = Option<Result<(), Error>>> + 'f>>;

/// the handshake caught in its last step
struct Pending<'f> {
    resume: bool,
    /// name of the device's reserved slot
    name: u64,
    /// the initiator's side, if it has not finished yet
    fut: Option<HandshakeFut<'f>>,
    rec_inc: u64,
    ctl_before: Vec<u32>,
    ctl_rec: Option<(NonZeroU8, u64)>,
}

enum Next {
    Done,
    Boot(usize, BTreeMap<u16, Vec<u8>>),
}

struct Init {
    kind: u8,
    pase: bool,
}

/// Run ops[start..] on one device incarnation booted from `blobs`.
#[allow(clippy::too_many_arguments)]
fn run_incarnation(base: &Base, g: &mut Ghost, blobs: &BTreeMap<u16, Vec<u8>>, ops: &[Op], start: usize, first_boot: Option<&Init>, boot_no: u64, wire: bool, outs: &mut Vec<String>) -> Next {
    let det = if wire { e2e::dev_det(Some(30), Some(30)) } else { e2e::dev_det(None, None) };
    let kv = MemKv::from_blobs(blobs.clone());
    let dev = e2e::new_matter(det, false);
    let ctl = e2e::new_matter(det, false);
    // a second controller: the peer that attempts resumptions
    let ctl2 = e2e::new_matter(det, false);
    let buffers: MatterBuffers = MatterBuffers::new();
    let st = DevState::new(Nets::new());
    use rand::SeedableRng;
    let crypto = rs_matter::crypto::default_crypto(rand::rngs::StdRng::seed_from_u64(0xC07_0000 + boot_no), rs_matter::dm::devices::test::DAC_PRIVKEY);
    let access = dev.kv(kv.clone());
    dev.startup(&access).unwrap();
    let net_ctl = NoopWirelessNetCtl::new(NetworkType::Wifi);
    let handler = (NODE, endpoints::WifiSysHandlerBuilder::new(net_ctl, &()).build(crypto.rand().unwrap()));
    let dm = InteractionModel::new(&dev, &crypto, &buffers, handler, &access, &st);
    st.suppress_start_up_event();
    e2e::block_on(dm.startup()).unwrap();

    let subs_fn = || dm.verif_subscriptions();
    let purge_fn = || dm.verif_reporter_purge();
    let timeouts_fn = || dm.verif_check_timeouts();

    // the administrator's credentials under every root: controller fabric index r + 1
    for r in 0..NROOTS {
        ctl.with_state(|state| {
            state
                .fabrics
                .add(&crypto, base.roots[r].ctl_key.reference(), &base.roots[r].cert, &base.roots[r].ctl_noc, &[], Some(ipk().reference()), VENDOR, ADMIN)
                .unwrap();
        });
    }

    ctl2.with_state(|state| {
        let r = &base.roots[RESUME_ROOT];
        for (node, key, noc) in &base.resume_ids {
            state.fabrics.add(&crypto, key.reference(), &r.cert, noc, &[], Some(ipk().reference()), VENDOR, *node).unwrap();
        }
    });

    let d = Dev { dev: &dev, subs: &subs_fn, kv: &kv };

    // install a session on both sides; returns nothing, the bookkeeping is updated by `observe`
    let install = |g: &mut Ghost, mode_dev: SessionMode, mode_ctl: SessionMode, peer_node: u64, with_twin: bool| -> Result<(), Error> {
        let l = g.next_local;
        g.next_local += 1;
        let before = session_ids(&dev);
        preset(&dev, DEV_NODE, peer_node, 100 + l, 1100 + l, CTL, mode_dev)?;
        if with_twin {
            let cid = preset(&ctl, peer_node, DEV_NODE, 1100 + l, 100 + l, DEV, mode_ctl)?;
            // the name the device session is about to get
            let _ = before;
            g.twin.insert(g.next_sid, (0, cid));
        }
        Ok(())
    };

    if let Some(init) = first_boot {
        // names: PASE = 1, CASE on the commissioned fabrics = 2, 3
        if init.pase {
            install(g, SessionMode::Pase { fab_idx: 0 }, SessionMode::Pase { fab_idx: 0 }, ADMIN, true).unwrap();
        } else {
            g.next_sid = 2;
        }
        let prev = BTreeMap::new();
        let _ = observe(base, g, &d, &Op::NewPase, true, &prev, None, None);
        for idx in init_indices(init.kind) {
            let m = || SessionMode::Case { fab_idx: NonZeroU8::new(idx).unwrap(), cat_ids: Default::default() };
            install(g, m(), m(), ADMIN, true).unwrap();
            let _ = observe(base, g, &d, &Op::NewPase, true, &prev, None, None);
        }
    }

    let hold: std::rc::Rc<RefCell<Hold>> = Default::default();
    let enc_hold: std::rc::Rc<RefCell<EncHold>> = Default::default();
    let net = {
        let hold = hold.clone();
        let enc_hold = enc_hold.clone();
        Net::new(move |src, dst, _idx, bytes| {
            {
                let mut e = enc_hold.borrow_mut();
                // (datagrams of up to 36 bytes on a secured session are stand-alone acknowledgements -
                // 8 header, 10 protocol header with the acknowledged counter, 16 tag -: they always pass)
                if e.armed && src == e.peer && dst == DEV && bytes.len() > 36 && u16::from_le_bytes([bytes[1], bytes[2]]) == e.sess {
                    match &e.captured {
                        Some(c) => {
                            if c.as_slice() == bytes {
                                return e2e::Action::Drop;
                            }
                        }
                        None => {
                            if e.skip > 0 {
                                e.skip -= 1;
                            } else {
                                e.captured = Some(bytes.to_vec());
                                return e2e::Action::Drop;
                            }
                        }
                    }
                }
            }
            let mut h = hold.borrow_mut();
            if h.armed {
                if src == DEV && dst == h.peer {
                    // the device's message that ends its part: the final status report (0x40) of a
                    // full handshake / Sigma2_Resume (0x33), on the unsecured session
                    if bytes.len() > 3 && bytes[1] == 0 && bytes[2] == 0 {
                        let off = 8 + if bytes[0] & 0x04 != 0 { 8 } else { 0 } + match bytes[0] & 0x03 { 1 => 8, 2 => 2, _ => 0 };
                        if bytes.len() > off + 1 {
                            let opcode = bytes[off + 1] as u32;
                            if opcode == 0x31 {
                                h.seen += 1; // Sigma2 of this handshake
                            }
                            if opcode == h.need && (h.need != 0x40 || h.seen > 0) {
                                h.holding = true;
                            }
                        }
                    }
                } else if src == h.peer && dst == DEV && h.holding && bytes.len() > 3 && bytes[1] == 0 && bytes[2] == 0 {
                    // (only the unsecured session the handshake runs on: session id 0)
                    h.held.push(bytes.to_vec());
                    return e2e::Action::Drop;
                }
            }
            e2e::Action::Deliver
        })
    };
    let (d_tx, d_rx) = net.attach(DEV);
    let (c_tx, c_rx) = net.attach(CTL);
    let (c2_tx, c2_rx) = net.attach(CTL2);
    let responder = Responder::new_default(&dm);
    let g = RefCell::new(g);
    let outs = RefCell::new(outs);

    e2e::block_on(async {
        let device = select4(
            dev.run(&crypto, d_tx, d_rx, NoNetwork),
            responder.run::<4>(),
            ctl.run(&crypto, c_tx, c_rx, NoNetwork),
            ctl2.run(&crypto, c2_tx, c2_rx, NoNetwork),
        )
        .coalesce();

        let flow = async {
            let mut i = start;
            let mut pending: Option<Pending<'_>> = None;
            if first_boot.is_none() {
                // the state right after the boot completes the observation of the restart step
                let prev = BTreeMap::new();
                let snap = observe(base, &mut g.borrow_mut(), &d, &Op::Restart, true, &prev, None, None);
                if let Some(last) = outs.borrow_mut().last_mut() {
                    last.push_str(&snap);
                }
            }
            while i < ops.len() {
                let op = ops[i].clone();
                i += 1;
                // incarnations of the fabrics before the operation (for UpdateNOC's new key)
                let prev_fab_incs: BTreeMap<u8, u64> = dev.with_state(|state| {
                    state
                        .fabrics
                        .iter()
                        .map(|f| (f.fab_idx().get(), g.borrow().inc_of_key.get(&fabric_pubkey(f)).copied().unwrap_or(0)))
                        .collect()
                });
                // the session a command travels on
                let sess_name = match &op {
                    Op::Arm(s) | Op::AddNoc(s, _) | Op::UpdNoc(s) | Op::Complete(s) | Op::Remove(s, _) | Op::Arm0(s) | Op::Revoke(s) | Op::Request(s, _) | Op::Subscribe(s) | Op::SubscribeDue(s) | Op::SubscribeRemove(s, _) => Some(*s),
                    _ => None,
                };
                let mut sid = 0u32;
                let mut which = 0u8;
                let mut mode = SessionMode::PlainText;
                let mut sess_inc = 0u64;
                let mut gone = false;
                if let Some(name) = sess_name {
                    // device side: present, not expired, not reserved, unicast
                    let found = {
                        let gb = g.borrow();
                        gb.sess.iter().find(|(_, v)| v.0 == name).map(|(id, v)| (*id, v.1))
                    };
                    let usable = found.and_then(|(id, inc)| {
                        dev.with_state(|state| {
                            state.verif_sessions().iter().find(|x| x.id() == id).map(|x| {
                                let s = x.verif_snapshot();
                                (!s.expired && !s.reserved && !matches!(s.mode, SessionMode::Group { .. }), s.mode, inc)
                            })
                        })
                    });
                    match usable {
                        Some((true, m, inc)) => {
                            mode = m;
                            sess_inc = inc;
                        }
                        _ => gone = true,
                    }
                    match g.borrow().twin.get(&name) {
                        Some((w, id)) => {
                            sid = *id;
                            which = *w;
                        }
                        None => {
                            if !gone {
                                gone = true;
                            }
                        }
                    }
                    if wire && g.borrow().twin.contains_key(&name) {
                        // wire probe: send whatever the device thinks of the session
                        gone = false;
                    }
                }
                let mut created_inc: Option<u64> = None;
                let mut sub_inc: Option<u64> = None;
                // the controller that holds the other end of the session
                let cx: &Matter<'_> = if which == 1 { &ctl2 } else { &ctl };
                let status: String = if gone {
                    "gone".into()
                } else {
                    match &op {
                        Op::Arm(_) | Op::Arm0(_) => {
                            let t: u16 = if matches!(op, Op::Arm(_)) { 60 } else { 0 };
                            let r = invoke(cx, sid, CL_GENCOMM, 0, false, &tlv(|w| {
                                w.u16(&TLVTag::Context(0), t)?;
                                w.u64(&TLVTag::Context(1), 0)
                            }), false)
                            .await;
                            reply_class(r, gencomm_class)
                        }
                        Op::AddNoc(_, root) => {
                            let root = *root;
                            // CSRRequest
                            let nonce = [0x5au8; 32];
                            let r = invoke(cx, sid, CL_NOC, 4, false, &tlv(|w| {
                                w.str(&TLVTag::Context(0), &nonce)?;
                                w.bool(&TLVTag::Context(1), false)
                            }), true)
                            .await;
                            if let Reply::Data(_, Some(nocsr)) = r {
                                if let Ok(csr) = (|| -> Result<Vec<u8>, Error> {
                                    let root = TLVElement::new(&nocsr).structure()?;
                                    Ok(OctetStr::from_tlv(&root.ctx(1)?)?.0.to_vec())
                                })() {
                                    g.borrow_mut().csrs.push(csr);
                                }
                            }
                            // AddTrustedRootCertificate
                            let cert = &base.roots[root].cert;
                            let rep = invoke(cx, sid, CL_NOC, 11, false, &tlv(|w| w.str(&TLVTag::Context(0), cert)), false).await;
                            if matches!(rep, Reply::Status(IMStatusCode::Success)) {
                                g.borrow_mut().last_root = root;
                            }
                            // AddNOC: chain of the last accepted root, key of the last CSR
                            let r = g.borrow().last_root;
                            let csr: Vec<u8> = match g.borrow().csrs.last() {
                                Some(c) => c.clone(),
                                None => {
                                    let sk = crypto.generate_secret_key().unwrap();
                                    let mut b = [0u8; 256];
                                    sk.csr(&mut b).unwrap().to_vec()
                                }
                            };
                            let noc = mint_noc(&crypto, &base.roots[r], &csr, DEV_NODE + r as u64);
                            let rep = invoke(cx, sid, CL_NOC, 6, false, &tlv(|w| {
                                w.str(&TLVTag::Context(0), &noc)?;
                                w.str(&TLVTag::Context(2), &IPK)?;
                                w.u64(&TLVTag::Context(3), ADMIN)?;
                                w.u16(&TLVTag::Context(4), VENDOR)
                            }), false)
                            .await;
                            reply_class(rep, noc_class)
                        }
                        Op::UpdNoc(_) => {
                            let nonce = [0x5au8; 32];
                            let r = invoke(cx, sid, CL_NOC, 4, false, &tlv(|w| {
                                w.str(&TLVTag::Context(0), &nonce)?;
                                w.bool(&TLVTag::Context(1), true)
                            }), true)
                            .await;
                            if let Reply::Data(_, Some(nocsr)) = r {
                                if let Ok(csr) = (|| -> Result<Vec<u8>, Error> {
                                    let root = TLVElement::new(&nocsr).structure()?;
                                    Ok(OctetStr::from_tlv(&root.ctx(1)?)?.0.to_vec())
                                })() {
                                    g.borrow_mut().csrs.push(csr);
                                }
                            }
                            // the root of the session's fabric signs
                            let fab = mode.fab_idx();
                            let r = dev
                                .with_state(|state| {
                                    NonZeroU8::new(fab)
                                        .and_then(|f| state.fabrics.get(f))
                                        .and_then(|f| base.roots.iter().position(|r| r.cert == f.root_ca()))
                                })
                                .unwrap_or(0);
                            let csr: Vec<u8> = match g.borrow().csrs.last() {
                                Some(c) => c.clone(),
                                None => {
                                    let sk = crypto.generate_secret_key().unwrap();
                                    let mut b = [0u8; 256];
                                    sk.csr(&mut b).unwrap().to_vec()
                                }
                            };
                            let noc = mint_noc(&crypto, &base.roots[r], &csr, DEV_NODE + r as u64);
                            let rep = invoke(cx, sid, CL_NOC, 7, false, &tlv(|w| w.str(&TLVTag::Context(0), &noc)), false).await;
                            reply_class(rep, noc_class)
                        }
                        Op::Complete(_) => {
                            let rep = invoke(cx, sid, CL_GENCOMM, 4, false, &[], false).await;
                            reply_class(rep, gencomm_class)
                        }
                        Op::Remove(_, idx) => {
                            let idx = *idx;
                            let rep = invoke(cx, sid, CL_NOC, 10, false, &tlv(|w| w.u8(&TLVTag::Context(0), idx)), false).await;
                            reply_class(rep, noc_class)
                        }
                        Op::Revoke(_) => {
                            let rep = invoke(cx, sid, CL_ADMCOMM, 2, true, &[], false).await;
                            match rep {
                                Reply::Data(..) => "data?".into(),
                                Reply::Status(s) => im_class(s),
                                Reply::Err(_) => "fail".into(),
                            }
                        }
                        Op::Request(_, k) => {
                            let r = if wire {
                                // the device may have dropped or expired the session: no answer comes
                                let r = e2e::with_timeout(2500, write_acl(cx, sid, *k)).await.unwrap_or_else(|| "err:timeout".to_string());
                                settle(&dev, &ctl, pending.is_some()).await;
                                r
                            } else {
                                write_acl(cx, sid, *k).await
                            };
                            if r.starts_with("err:") {
                                if wire {
                                    "gone".into()
                                } else {
                                    "fail".into()
                                }
                            } else {
                                r
                            }
                        }
                        Op::Subscribe(_) if mode.fab_idx() == 0 => {
                            // a subscribe request on a session without fabric makes the handler fail
                            // without an answer (the peer runs into its receive timeout): not sent
                            "fail".into()
                        }
                        Op::Subscribe(_) => {
                            let tag = g.borrow().next_sub;
                            let r = subscribe(cx, sid, tag).await;
                            if r.is_ok() {
                                // the device commits (and persists) the subscription after it has sent
                                // the SubscribeResponse
                                for _ in 0..2000 {
                                    if subs_fn().iter().any(|x| x.3 == tag) {
                                        break;
                                    }
                                    embassy_time::Timer::after(embassy_time::Duration::from_millis(1)).await;
                                }
                                settle(&dev, &ctl, pending.is_some()).await;
                            }
                            match r {
                                Ok(()) => {
                                    g.borrow_mut().next_sub += 1;
                                    sub_inc = Some(sess_inc);
                                    "ok".into()
                                }
                                Err(_) => "fail".into(),
                            }
                        }
                        Op::SubscribeDue(_) | Op::SubscribeRemove(..) if !matches!(mode, SessionMode::Case { .. }) => "fail".into(),
                        Op::SubscribeDue(_) => {
                            // the fail-safe timer is due when the request arrives: `handle` runs the
                            // timeout check first, on behalf of this exchange
                            dev.with_state(|state| state.verif_failsafe().verif_make_due());
                            let tag = g.borrow().next_sub;
                            let r = match e2e::with_timeout(5000, subscribe_start(cx, sid, tag, true)).await {
                                Some(Ok(chunk)) => e2e::with_timeout(5000, subscribe_finish(chunk)).await.unwrap_or(Err(rs_matter::error::ErrorCode::RxTimeout.into())),
                                Some(Err(e)) => Err(e),
                                None => Err(rs_matter::error::ErrorCode::RxTimeout.into()),
                            };
                            if r.is_ok() {
                                for _ in 0..2000 {
                                    if subs_fn().iter().any(|x| x.3 == tag) {
                                        break;
                                    }
                                    embassy_time::Timer::after(embassy_time::Duration::from_millis(1)).await;
                                }
                                g.borrow_mut().next_sub += 1;
                                sub_inc = Some(sess_inc);
                            }
                            settle(&dev, cx, pending.is_some()).await;
                            // the acceptance of a subscription wakes the reporter: its purge phase
                            purge_fn();
                            if std::env::var("C07_DEBUG").is_ok() {
                                eprintln!("subscribe-due: {:?}", r.as_ref().map_err(|e| e.code()));
                            }
                            "ok".into()
                        }
                        Op::SubscribeRemove(_, idx) => {
                            let tag = g.borrow().next_sub;
                            // the device-local id of the session (what the administrator's datagrams carry)
                            let dev_sess = {
                                let gb = g.borrow();
                                let id = gb.sess.iter().find(|(_, v)| Some(v.0) == sess_name).map(|(id, _)| *id);
                                id.and_then(|id| dev.with_state(|state| state.verif_sessions().iter().find(|x| x.id() == id).map(|x| x.verif_snapshot().local_sess_id)))
                            };
                            match dev_sess {
                                None => "fail".into(),
                                Some(dev_sess) => {
                                    // the SubscribeRequest passes, the StatusResponse to the priming report is held back
                                    *enc_hold.borrow_mut() = EncHold { armed: true, peer: if which == 1 { CTL2 } else { CTL }, sess: dev_sess, skip: 1, captured: None };
                                    let mut fut: HandshakeFut<'_> = Box::pin(e2e::with_timeout(10_000, async move {
                                        let c = subscribe_start(cx, sid, tag, false).await?;
                                        subscribe_finish(c).await
                                    }));
                                    let window = async {
                                        for _ in 0..3000 {
                                            if enc_hold.borrow().captured.is_some() {
                                                return true;
                                            }
                                            embassy_time::Timer::after(embassy_time::Duration::from_millis(1)).await;
                                        }
                                        false
                                    };
                                    let mut outcome = select(fut.as_mut(), core::pin::pin!(window)).await;
                                    if matches!(outcome, Either::Second(true)) {
                                        // a request that was refused outright ends here, too (what was held back is
                                        // then only an acknowledgement): the subscription is being primed only if the
                                        // administrator is still waiting
                                        if let Either::First(r) = select(fut.as_mut(), embassy_time::Timer::after(embassy_time::Duration::from_millis(30))).await {
                                            let held = enc_hold.borrow_mut().captured.take();
                                            if let Some(bytes) = held {
                                                net.inject(if which == 1 { CTL2 } else { CTL }, DEV, &bytes);
                                            }
                                            outcome = Either::First(r);
                                        }
                                    }
                                    match outcome {
                                        Either::Second(true) => {
                                            // the device's subscribe handler waits for the answer to its priming
                                            // report: RemoveFabric on the same session
                                            let idx = *idx;
                                            let rep = invoke(cx, sid, CL_NOC, 10, false, &tlv(|w| w.u8(&TLVTag::Context(0), idx)), false).await;
                                            let st = reply_class(rep, noc_class);
                                            let held = {
                                                let mut e = enc_hold.borrow_mut();
                                                let c = e.captured.take();
                                                let peer = e.peer;
                                                *e = EncHold::default();
                                                c.map(|c| (peer, c))
                                            };
                                            if let Some((peer, bytes)) = held {
                                                net.inject(peer, DEV, &bytes);
                                            }
                                            let r = fut.await.unwrap_or(Err(rs_matter::error::ErrorCode::RxTimeout.into()));
                                            if r.is_ok() {
                                                for _ in 0..2000 {
                                                    if subs_fn().iter().any(|x| x.3 == tag) {
                                                        break;
                                                    }
                                                    embassy_time::Timer::after(embassy_time::Duration::from_millis(1)).await;
                                                }
                                                g.borrow_mut().next_sub += 1;
                                                sub_inc = Some(sess_inc);
                                            }
                                            settle(&dev, cx, pending.is_some()).await;
                                            purge_fn();
                                            if std::env::var("C07_DEBUG").is_ok() {
                                                eprintln!("subscribe-remove: {} then {:?}", st, r.as_ref().map_err(|e| e.code()));
                                            }
                                            st
                                        }
                                        other => {
                                            if std::env::var("C07_DEBUG").is_ok() {
                                                eprintln!("subscribe-remove: not primed: {}", match &other { Either::First(r) => format!("{:?}", r.as_ref().map(|x| x.as_ref().map_err(|e| e.code()))), Either::Second(b) => format!("window {}", b) });
                                            }
                                            *enc_hold.borrow_mut() = EncHold::default();
                                            drop(fut);
                                            settle(&dev, cx, pending.is_some()).await;
                                            "fail".into()
                                        }
                                    }
                                }
                            }
                        }
                        _ => String::new(),
                    }
                };
                let status = match &op {
                    Op::Timeout => {
                        dev.with_state(|state| state.verif_failsafe().verif_make_due());
                        match timeouts_fn() {
                            Ok(()) => "ok".to_string(),
                            Err(e) => match e.code() {
                                rs_matter::error::ErrorCode::NotFound => "notfound".to_string(),
                                c => format!("err:{:?}", c),
                            },
                        }
                    }
                    Op::NewPase => {
                        let r = install(&mut g.borrow_mut(), SessionMode::Pase { fab_idx: 0 }, SessionMode::Pase { fab_idx: 0 }, ADMIN, true);
                        if r.is_ok() {
                            "ok".to_string()
                        } else {
                            "nospace".to_string()
                        }
                    }
                    Op::Peer(f, node) => {
                        // what the responder does when it accepts Sigma3 for fabric index f
                        // (the fabric is looked up by index): session + resumption record
                        let exists = dev.with_state(|state| NonZeroU8::new(*f).and_then(|i| state.fabrics.get(i)).is_some());
                        if !exists {
                            "nofabric".to_string()
                        } else {
                            let m = || SessionMode::Case { fab_idx: NonZeroU8::new(*f).unwrap(), cat_ids: Default::default() };
                            let inst = install(&mut g.borrow_mut(), m(), m(), *node, true);
                            match inst {
                                Err(_) => "nospace".to_string(),
                                Ok(()) => {
                                    let mut gb = g.borrow_mut();
                                    gb.resume_attempts += 1;
                                    let mut rng = Rng::new(0xC07_5EED ^ (gb.resume_attempts << 20) ^ boot_no);
                                    let mut rid = CryptoSensitive::<16>::new();
                                    for b in rid.access_mut().iter_mut() {
                                        *b = rng.below(256) as u8;
                                    }
                                    let mut secret = CanonPkcSharedSecret::new();
                                    for b in secret.access_mut().iter_mut() {
                                        *b = rng.below(256) as u8;
                                    }
                                    dev.with_state(|state| {
                                        state.resumption.insert_or_update(ResumableSession {
                                            fab_idx: NonZeroU8::new(*f).unwrap(),
                                            peer_nodeid: *node,
                                            peer_cat_ids: Default::default(),
                                            resumption_id: rid,
                                            shared_secret: secret,
                                        });
                                    });
                                    "ok".to_string()
                                }
                            }
                        }
                    }
                    Op::Group(f) => {
                        let exists = dev.with_state(|state| NonZeroU8::new(*f).and_then(|i| state.fabrics.get(i)).is_some());
                        if !exists {
                            "nofabric".to_string()
                        } else {
                            let m = SessionMode::Group { fab_idx: NonZeroU8::new(*f).unwrap(), group_id: 1 };
                            let inst = install(&mut g.borrow_mut(), m.clone(), m, 0, false);
                            match inst {
                                Err(_) => "nospace".to_string(),
                                Ok(()) => "ok".to_string(),
                            }
                        }
                    }
                    Op::Establish(_) | Op::Resume(_) | Op::EstablishBegin(_) | Op::ResumeBegin(_) if pending.is_some() => {
                        // one handshake at a time (a second Sigma1 is not answered while a handler
                        // of the device is waiting for the first one's peer)
                        "busy".to_string()
                    }
                    Op::Establish(r) => {
                        let full = session_ids(&dev).len() >= MAX_SESSIONS;
                        // A Sigma1 that the device refuses keeps its responder waiting for a Sigma3 on
                        // that exchange until the receive timeout (~40 s), and no other handshake is
                        // answered meanwhile (see design.d/C07.md): outside the wire probes a handshake
                        // is only sent when the device has a fabric under that root.
                        let known = dev.with_state(|state| state.fabrics.iter().any(|f| f.root_ca() == base.roots[*r].cert.as_slice()));
                        if full {
                            "nospace".to_string()
                        } else if !known && !wire {
                            "nofabric".to_string()
                        } else {
                            let before = session_ids(&ctl);
                            let attempt = {
                                let mut gb = g.borrow_mut();
                                gb.resume_attempts += 1;
                                gb.resume_attempts
                            };
                            // (the administrator does a FULL handshake: it forgets its own resumption records)
                            ctl.with_state(|state| state.resumption.reset());
                            let res = case_handshake(&ctl, NonZeroU8::new(*r as u8 + 1).unwrap(), DEV_NODE + *r as u64, attempt).await;
                            if std::env::var("C07_DEBUG").is_ok() {
                                eprintln!("establish {}: {:?} at {} ms", r, res.as_ref().map_err(|e| e.code()), net.elapsed_ms());
                                for t in net.tap().iter().rev().take(12).rev() {
                                    eprintln!("   {} -> {} len {} at {} ms hdr {:?}", t.src, t.dst, t.bytes.len(), t.t_ms, &t.bytes[..t.bytes.len().min(24)]);
                                }
                            }
                            settle(&dev, &ctl, pending.is_some()).await;
                            if std::env::var("C07_DEBUG").is_ok() {
                                eprintln!("settled at {} ms", net.elapsed_ms());
                            }
                            remove_plaintext(&dev);
                            remove_plaintext(&ctl);
                            match res {
                                Ok(()) => {
                                    let after = session_ids(&ctl);
                                    if let Some(cid) = after.iter().find(|i| !before.contains(i)) {
                                        let name = g.borrow().next_sid;
                                        g.borrow_mut().twin.insert(name, (0, *cid));
                                    }
                                    "ok".to_string()
                                }
                                Err(_) => "nofabric".to_string(),
                            }
                        }
                    }
                    Op::Resume(k) => {
                        let rec = g.borrow().rec_by_name(*k).cloned();
                        let full = session_ids(&dev).len() >= MAX_SESSIONS;
                        // (same remark as for `E`: outside the wire probes a resumption is only sent when
                        // the device holds the record and the record's fabric index is in the table)
                        let acceptable = rec.as_ref().map(|rec| {
                            dev.with_state(|state| {
                                state
                                    .resumption
                                    .iter()
                                    .find(|r| r.resumption_id.reference().access()[..] == rec.rid[..])
                                    .map(|r| state.fabrics.get(r.fab_idx).is_some())
                                    .unwrap_or(false)
                            })
                        });
                        match rec {
                            None => "refused".to_string(),
                            Some(_) if acceptable != Some(true) && !wire => "refused".to_string(),
                            Some(_) if full => "nospace".to_string(),
                            Some(rec) => {
                                // the peer that holds this record: its copy of the resumption state.
                                // It names the device by the node id the device has on the record's
                                // fabric index now (the session nonces carry the node ids), and uses
                                // credentials under a root that is never commissioned on the device:
                                // the destination id names no fabric of the device, so if the device
                                // declines the resumption, the full handshake it falls back to fails.
                                let attempt = {
                                    let mut gb = g.borrow_mut();
                                    gb.resume_attempts += 1;
                                    gb.resume_attempts
                                };
                                let dev_node = dev.with_state(|state| {
                                    state
                                        .resumption
                                        .iter()
                                        .find(|r| r.resumption_id.reference().access()[..] == rec.rid[..])
                                        .and_then(|r| state.fabrics.get(r.fab_idx))
                                        .map(|f| f.node_id())
                                        .unwrap_or(DEV_NODE)
                                });
                                let bogus = dev_node;
                                // the resuming peer's own node id is the one in the record (it is part of
                                // the session nonces); unknown node ids get the administrator's identity
                                let rec_node = dev.with_state(|state| {
                                    state
                                        .resumption
                                        .iter()
                                        .find(|r| r.resumption_id.reference().access()[..] == rec.rid[..])
                                        .map(|r| r.peer_nodeid)
                                        .unwrap_or(ADMIN)
                                });
                                let cfab_no = base.resume_ids.iter().position(|x| x.0 == rec_node).unwrap_or(0) as u8 + 1;
                                let mut rid = CryptoSensitive::<16>::new();
                                rid.load_from_array(&rec.rid);
                                let mut secret = CanonPkcSharedSecret::new();
                                secret.try_load_from_slice(&rec.secret).unwrap();
                                let cfab = NonZeroU8::new(cfab_no).unwrap();
                                ctl2.with_state(|state| {
                                    state.resumption.insert_or_update(ResumableSession {
                                        fab_idx: cfab,
                                        peer_nodeid: bogus,
                                        peer_cat_ids: Default::default(),
                                        resumption_id: rid,
                                        shared_secret: secret,
                                    });
                                });
                                let before = session_ids(&ctl2);
                                let before_dev = session_ids(&dev);
                                let res = e2e::with_timeout(if wire { 3000 } else { 15000 }, case_handshake(&ctl2, cfab, bogus, attempt)).await;
                                settle(&dev, &ctl2, pending.is_some()).await;
                                remove_plaintext(&dev);
                                remove_plaintext(&ctl2);
                                ctl2.with_state(|state| state.resumption.remove_by_peer(cfab, bogus));
                                let dev_new = session_ids(&dev).iter().any(|i| !before_dev.contains(i));
                                if std::env::var("C07_DEBUG").is_ok() {
                                    eprintln!("resume {}: {:?} dev_new={}", k, res.as_ref().map(|r| r.as_ref().map_err(|e| e.code())), dev_new);
                                }
                                match res {
                                    Some(Ok(())) if dev_new => {
                                        let after = session_ids(&ctl2);
                                        if let Some(cid) = after.iter().find(|i| !before.contains(i)) {
                                            let name = g.borrow().next_sid;
                                            g.borrow_mut().twin.insert(name, (1, *cid));
                                        }
                                        created_inc = Some(rec.inc);
                                        "ok".to_string()
                                    }
                                    _ => "refused".to_string(),
                                }
                            }
                        }
                    }
                    Op::EstablishBegin(r) => {
                        let full = session_ids(&dev).len() >= MAX_SESSIONS;
                        let known = dev.with_state(|state| state.fabrics.iter().any(|f| f.root_ca() == base.roots[*r].cert.as_slice()));
                        if full {
                            "nospace".to_string()
                        } else if !known {
                            "nofabric".to_string()
                        } else {
                            let before = session_ids(&ctl);
                            let attempt = {
                                let mut gb = g.borrow_mut();
                                gb.resume_attempts += 1;
                                gb.resume_attempts
                            };
                            // Sigma2 and the final status report go out, then the administrator's
                            // acknowledgement of the latter is held back
                            *hold.borrow_mut() = Hold { armed: true, peer: CTL, need: 0x40, ..Default::default() };
                            ctl.with_state(|state| state.resumption.reset());
                            let res = e2e::with_timeout(5000, case_handshake(&ctl, NonZeroU8::new(*r as u8 + 1).unwrap(), DEV_NODE + *r as u64, attempt)).await;
                            // the device: slot reserved, already `Case { fab_idx }`, handler waiting
                            let mut caught = false;
                            for _ in 0..1000 {
                                caught = dev.with_state(|state| {
                                    state.verif_sessions().iter().any(|s| {
                                        let snap = s.verif_snapshot();
                                        snap.reserved && matches!(snap.mode, SessionMode::Case { .. })
                                    })
                                });
                                if caught {
                                    break;
                                }
                                embassy_time::Timer::after(embassy_time::Duration::from_millis(1)).await;
                            }
                            if std::env::var("C07_DEBUG").is_ok() {
                                let h = hold.borrow();
                                eprintln!("establish-begin {}: {:?} caught={} seen={} holding={} held={}", r, res.as_ref().map(|x| x.as_ref().map_err(|e| e.code())), caught, h.seen, h.holding, h.held.len());
                                for t in net.tap().iter().rev().take(8).rev() {
                                    eprintln!("   {} -> {} len {} at {} ms hdr {:?}", t.src, t.dst, t.bytes.len(), t.t_ms, &t.bytes[..t.bytes.len().min(24)]);
                                }
                            }
                            match res {
                                Some(Ok(())) if caught => {
                                    let after = session_ids(&ctl);
                                    let name = g.borrow().next_sid;
                                    if let Some(cid) = after.iter().find(|i| !before.contains(i)) {
                                        g.borrow_mut().twin.insert(name, (0, *cid));
                                    }
                                    pending = Some(Pending { resume: false, name, fut: None, rec_inc: 0, ctl_before: before, ctl_rec: None });
                                    "ok".to_string()
                                }
                                Some(Ok(())) => {
                                    // the window was missed: the handshake simply completed
                                    *hold.borrow_mut() = Hold::default();
                                    settle(&dev, &ctl, false).await;
                                    remove_plaintext(&dev);
                                    remove_plaintext(&ctl);
                                    "missed".to_string()
                                }
                                _ => {
                                    *hold.borrow_mut() = Hold::default();
                                    settle(&dev, &ctl, false).await;
                                    remove_plaintext(&dev);
                                    remove_plaintext(&ctl);
                                    "nofabric".to_string()
                                }
                            }
                        }
                    }
                    Op::ResumeBegin(k) => {
                        let rec = g.borrow().rec_by_name(*k).cloned();
                        let full = session_ids(&dev).len() >= MAX_SESSIONS;
                        let found = rec.as_ref().and_then(|rec| {
                            dev.with_state(|state| {
                                state
                                    .resumption
                                    .iter()
                                    .find(|r| r.resumption_id.reference().access()[..] == rec.rid[..])
                                    .and_then(|r| state.fabrics.get(r.fab_idx).map(|f| (f.node_id(), r.peer_nodeid)))
                            })
                        });
                        match (rec, found) {
                            (None, _) | (Some(_), None) => "refused".to_string(),
                            (Some(_), Some(_)) if full => "nospace".to_string(),
                            (Some(rec), Some((dev_node, rec_node))) => {
                                let attempt = {
                                    let mut gb = g.borrow_mut();
                                    gb.resume_attempts += 1;
                                    gb.resume_attempts
                                };
                                let cfab_no = base.resume_ids.iter().position(|x| x.0 == rec_node).unwrap_or(0) as u8 + 1;
                                let mut rid = CryptoSensitive::<16>::new();
                                rid.load_from_array(&rec.rid);
                                let mut secret = CanonPkcSharedSecret::new();
                                secret.try_load_from_slice(&rec.secret).unwrap();
                                let cfab = NonZeroU8::new(cfab_no).unwrap();
                                ctl2.with_state(|state| {
                                    state.resumption.insert_or_update(ResumableSession {
                                        fab_idx: cfab,
                                        peer_nodeid: dev_node,
                                        peer_cat_ids: Default::default(),
                                        resumption_id: rid,
                                        shared_secret: secret,
                                    });
                                });
                                let before = session_ids(&ctl2);
                                // Sigma2_Resume goes out, then the peer's SigmaFinished is held back
                                *hold.borrow_mut() = Hold { armed: true, peer: CTL2, need: 0x33, ..Default::default() };
                                let ctl2_ref = &ctl2;
                                let mut fut: HandshakeFut<'_> = Box::pin(e2e::with_timeout(20_000, case_handshake(ctl2_ref, cfab, dev_node, attempt)));
                                // The device sends Sigma2_Resume reliably and goes on only when it is
                                // acknowledged. The peer acknowledges it on its own (a stand-alone
                                // acknowledgement, as a peer that is slow to answer does) and delivers
                                // its SigmaFinished later: the stand-alone acknowledgement is made from
                                // the held-back SigmaFinished (same exchange, same acknowledged counter,
                                // next message counter, no payload).
                                let mut acked = false;
                                let window = async {
                                    for _ in 0..3000 {
                                        if !acked {
                                            let first = hold.borrow().held.first().cloned();
                                            if let Some(m) = first {
                                                // plain header: flags, session id (2), security flags, counter (4),
                                                // source node id (8) if flag 0x04; then the protocol header
                                                let off = 8 + if m[0] & 0x04 != 0 { 8 } else { 0 } + match m[0] & 0x03 { 1 => 8, 2 => 2, _ => 0 };
                                                if m.len() >= off + 10 && m[off] & 0x02 != 0 {
                                                    let mut ack = m[..off + 10].to_vec();
                                                    let ctr = u32::from_le_bytes([m[4], m[5], m[6], m[7]]).wrapping_add(1);
                                                    ack[4..8].copy_from_slice(&ctr.to_le_bytes());
                                                    ack[off] = (m[off] & 0x01) | 0x02; // initiator flag kept, A set, R cleared
                                                    ack[off + 1] = 0x10; // MRP stand-alone acknowledgement
                                                    net.inject(CTL2, DEV, &ack);
                                                }
                                                acked = true;
                                            }
                                        }
                                        let slot = dev.with_state(|state| {
                                            state.verif_sessions().iter().any(|s| {
                                                let snap = s.verif_snapshot();
                                                snap.reserved && matches!(snap.mode, SessionMode::Case { .. })
                                            })
                                        });
                                        if slot && !hold.borrow().held.is_empty() {
                                            return true;
                                        }
                                        embassy_time::Timer::after(embassy_time::Duration::from_millis(1)).await;
                                    }
                                    false
                                };
                                let outcome = select(fut.as_mut(), core::pin::pin!(window)).await;
                                match outcome {
                                    Either::Second(true) => {
                                        let name = g.borrow().next_sid;
                                        created_inc = Some(rec.inc);
                                        pending = Some(Pending { resume: true, name, fut: Some(fut), rec_inc: rec.inc, ctl_before: before, ctl_rec: Some((cfab, dev_node)) });
                                        "ok".to_string()
                                    }
                                    other => {
                                        if std::env::var("C07_DEBUG").is_ok() {
                                            let h = hold.borrow();
                                            eprintln!("resume-begin {}: {:?} seen={} holding={} held={}", k, match &other { Either::First(r) => format!("{:?}", r.as_ref().map(|x| x.as_ref().map_err(|e| e.code()))), Either::Second(b) => format!("window {}", b) }, h.seen, h.holding, h.held.len());
                                        }
                                        drop(fut);
                                        *hold.borrow_mut() = Hold::default();
                                        settle(&dev, &ctl2, false).await;
                                        remove_plaintext(&dev);
                                        remove_plaintext(&ctl2);
                                        ctl2.with_state(|state| state.resumption.remove_by_peer(cfab, dev_node));
                                        "refused".to_string()
                                    }
                                }
                            }
                        }
                    }
                    Op::Finish => match pending.take() {
                        None => "nopending".to_string(),
                        Some(mut p) => {
                            // the held-back message (one copy of it) reaches the device
                            let (peer, first) = {
                                let mut h = hold.borrow_mut();
                                let first = h.held.first().cloned();
                                let peer = h.peer;
                                *h = Hold::default();
                                (peer, first)
                            };
                            if let Some(bytes) = first {
                                net.inject(peer, DEV, &bytes);
                            }
                            if let Some(fut) = p.fut.take() {
                                let _ = e2e::with_timeout(5000, fut).await;
                            }
                            let cx2: &Matter<'_> = if p.resume { &ctl2 } else { &ctl };
                            settle(&dev, cx2, false).await;
                            remove_plaintext(&dev);
                            remove_plaintext(cx2);
                            if let Some((cfab, node)) = p.ctl_rec {
                                ctl2.with_state(|state| state.resumption.remove_by_peer(cfab, node));
                            }
                            // did the slot become a live session?
                            let dev_id = g.borrow().sess.iter().find(|(_, v)| v.0 == p.name).map(|(id, _)| *id);
                            let live = dev_id
                                .map(|id| dev.with_state(|state| state.verif_sessions().iter().any(|x| x.id() == id && !x.verif_snapshot().reserved)))
                                .unwrap_or(false);
                            if p.resume {
                                let after = session_ids(&ctl2);
                                if let Some(cid) = after.iter().find(|i| !p.ctl_before.contains(i)) {
                                    g.borrow_mut().twin.insert(p.name, (1, *cid));
                                }
                                created_inc = Some(p.rec_inc);
                            }
                            if live {
                                "ok".to_string()
                            } else {
                                "gone".to_string()
                            }
                        }
                    },
                    Op::Persist => {
                        // the body of the loop of `Matter::run_persist_resumption`
                        let r = dev.with_state(|state| {
                            use rs_matter::persist::KvBlobStoreAccess;
                            access.access(|store, buf| state.resumption.store_persist(store, buf))
                        });
                        if r.is_ok() {
                            "ok".to_string()
                        } else {
                            "fail".to_string()
                        }
                    }
                    Op::Report => {
                        purge_fn();
                        "ok".to_string()
                    }
                    Op::Restart => {
                        outs.borrow_mut().push("ok@".to_string());
                        let mut gb = g.borrow_mut();
                        gb.sess.clear();
                        gb.twin.clear();
                        return Next::Boot(i, kv.blobs());
                    }
                    _ => status,
                };
                let ok = status == "ok";
                let snap = observe(base, &mut g.borrow_mut(), &d, &op, ok, &prev_fab_incs, created_inc, sub_inc);
                outs.borrow_mut().push(format!("{}@{}", status, snap));
            }
            Next::Done
        };

        match select(core::pin::pin!(device), core::pin::pin!(e2e::with_timeout(if wire { 90_000 } else { 30_000 }, flow))).await {
            Either::First(r) => {
                outs.borrow_mut().push(format!("transport-exit:{:?}", r.map_err(|e| e.code())));
                Next::Done
            }
            Either::Second(Some(n)) => n,
            Either::Second(None) => {
                outs.borrow_mut().push("hang".to_string());
                Next::Done
            }
        }
    })
}

fn run_s(base: &Base, f: &[&str], wire: bool) -> String {
    let b = f[2].as_bytes();
    let init = Init { kind: b[0] - b'0', pase: b[1] == b'1' };
    let ops: Vec<Op> = f.get(3).map(|s| s.split(',').filter(|x| !x.is_empty()).map(parse_op).collect()).unwrap_or_default();
    let (blobs0, keys) = match base.init.get(&init.kind) {
        Some(x) => x.clone(),
        None => return "initial-state-unreachable".to_string(),
    };
    let mut g = Ghost {
        inc_of_key: HashMap::new(),
        next_inc: 1,
        sess: HashMap::new(),
        twin: HashMap::new(),
        next_sid: 1,
        recs: Vec::new(),
        next_rid: 1,
        subs: HashMap::new(),
        next_sub: 1,
        csrs: vec![],
        last_root: 0,
        next_local: 0,
        resume_attempts: 0,
    };
    for k in keys {
        let i = g.next_inc;
        g.inc_of_key.insert(k, i);
        g.next_inc += 1;
    }
    let mut blobs = blobs0;
    let mut outs: Vec<String> = Vec::new();
    let mut start = 0usize;
    let mut first = true;
    let mut boot_no = 0u64;
    loop {
        let n = run_incarnation(base, &mut g, &blobs, &ops, start, if first { Some(&init) } else { None }, boot_no, wire, &mut outs);
        first = false;
        boot_no += 1;
        match n {
            Next::Done => break,
            Next::Boot(i, b) => {
                start = i;
                blobs = b;
                if start >= ops.len() {
                    // boot once more just to observe
                    let _ = run_incarnation(base, &mut g, &blobs, &[], 0, None, boot_no, wire, &mut outs);
                    break;
                }
            }
        }
    }
    outs.join(";")
}

fn run_line(base: &Base, line: &str, out: &mut String) {
    let f: Vec<&str> = line.split(' ').collect();
    match f[0] {
        "S" => {
            writeln!(out, "S {} {}", f[1], run_s(base, &f, false)).unwrap();
        }
        "W" => {
            writeln!(out, "W {} {}", f[1], run_s(base, &f, true)).unwrap();
        }
        "H" => {
            writeln!(
                out,
                "H {} maxfab={} maxsess={} maxrec={} maxsub={}",
                f[1],
                rs_matter::fabric::MAX_FABRICS,
                MAX_SESSIONS,
                MAX_RESUMPTION_RECORDS,
                rs_matter::fabric::MAX_FABRICS * 3
            )
            .unwrap();
        }
        _ => {}
    }
}

/// Branch stream: hand-made cases, one or more per arm of the model.
fn branch_cases() -> Vec<(&'static str, &'static str)> {
    vec![
        // F3: commissioning rolled back, old CASE session / record / subscription, index reused
        ("21", "A1,N1:2,E2,H3:4369,Q4:5,B4,T,P,A6,N6:3,Q4:6,S1,S2,O,E3,Q7:7"),
        ("21", "A1,N1:2,E2,B4,F,Z1,P,A5,N5:3,E3,K6,X,S1,Q4:6"),
        ("21", "A1,N1:2,E2,V4,Q4:5,P,A5,N5:3,Q4:6"),
        // RemoveFabric by the fabric's own session / by another administrator; index reuse
        ("21", "E1,H2:9,B3,F,R3:2,Q3:5,S1,S2,A1,N1:2,Q3:6,E2,Q7:8,S1,X,S1,S2"),
        ("21", "E1,H2:9,B3,R2:2,Q3:5,Q5:5,S1,S2,O,A1,N1:2,K2,E2,K7,Q3:6,Q5:6"),
        ("21", "H2:4369,H1:7,G2,G1,R2:2,Q4:5,R3:1,Q2:5,Q3:5"),
        // F4: restart before the flush / after a flush taken while the fabric was there
        ("21", "E1,F,R2:2,X,S1,P,A5,N5:2,S1"),
        ("21", "A1,N1:2,E2,F,X,S1,P,A5,N5:3,S1,E3"),
        ("21", "A1,N1:2,E2,F,T,P,A5,N5:3,E3,K6,X,S1,S2"),
        // persisted subscriptions of a rolled back fabric
        ("21", "A1,N1:2,E2,B4,X,O,P,A5,N5:3,O"),
        // UpdateNOC rolled back: the fabric is resurrected, its sessions stay
        ("20", "A2,U2,E0,B2,T,Q2:5,Q4:6,S1"),
        ("20", "A2,U2,K2,E0,Q4:6,X,E0"),
        // fail-safe armed over CASE, nothing added: expiry keeps everything
        ("21", "A3,H2:9,B3,Z3,Q3:5,S1,T,V2"),
        // wrong context, no fail-safe, busy
        ("21", "N1:2,K2,A1,A2,N2:2,U1,K1,K3,Z2"),
        // conflict, table full
        ("21", "A1,N1:0,N1:2,Z1"),
        ("21", "A1,N1:2,E2,K4,P,A5,N5:3,E3,K6,P,A7,N7:4,E4,K8,P,A9,N9:2,Z9"),
        // the fabric of the fail-safe context removed by another administrator: expiry fails
        ("21", "A1,N1:2,R2:3,T,Z2,V2,X,T"),
        ("20", "A3,R2:2,T,Z2"),
        // index allocation: max + 1 up to 254, then the first free index
        ("31", "A1,N1:2,E2,K4,R2:254,P,A5,N5:3,Q3:5"),
        ("41", "A1,N1:2,E2,K4,P,A5,N5:3,E3,K6,R2:1,P,A7,N7:4"),
        ("11", "A1,N1:1,E1,K3,R2:2,P,A4,N4:2,Q3:5"),
        // resumption: rotation, LRU, a record that is gone, wrong fabric
        ("21", "E0,S1,S2,S1,H1:5,H1:6,H1:5,S3,S9"),
        ("21", "H1:1,H1:2,H1:3,H1:4,H1:5,H1:6,H1:7,H1:8,H2:1,H2:2,F,H2:3,H2:4,H2:5,H2:6,H2:7,H2:8,S1,S17"),
        // sessions: table full
        ("21", "P,P,P,P,P,P,P,P,P,P,P,P,P,P,H1:5,G1,E0"),
        // expiry over PASE / CASE of another fabric; PASE sessions all go
        ("21", "P,A1,N1:2,P,Z2,Q1:5,Q4:5,Q5:5"),
        ("21", "P,A1,N1:2,E2,V5,Q5:5,Q1:5"),
        // group sessions and non-administrators
        ("21", "G1,G2,H2:9,Q4:5,Q6:5,B6,R2:2,R2:1"),
        // subscriptions survive a restart, the reporter finds nothing to purge
        ("21", "B2,B3,X,O,E0,R4:2,O,X"),
        // a fabric disappears while one of its CASE handshakes is caught in its last step (reserved
        // slot already `Case { fab_idx }`), then the handshake runs to completion
        ("21", "e1,R2:2,D,Q4:5,A1,N1:2,Q4:6,S1"),
        ("21", "E1,s1,R2:2,D,Q5:5,S2,A1,N1:2,Q5:6,S2"),
        ("21", "A1,N1:2,e2,T,D,Q4:5,P,A5,N5:3,Q4:6,S1"),
        ("21", "A1,N1:2,E2,s1,Z1,D,Q5:5,P,A6,N6:3,Q5:6,S2"),
        ("21", "A1,N1:2,E2,s1,V2,D,Q5:5,S2"),
        // ... and the same handshakes left alone, completed before the removal, refused while pending
        ("21", "e1,D,Q4:5,E1,s2,D,Q6:5,R2:2"),
        ("21", "e1,E0,S1,e0,D,D,s9,D,X,e0,X,D"),
        // what a restart reloads: removal, the index commissioned again and committed, restart without /
        // with the background flush
        ("21", "E1,F,R2:2,A1,N1:3,E3,K5,X,S1,S2,E3"),
        ("21", "E1,F,R2:2,F,A1,N1:3,E3,K5,F,X,S1,S2"),
        ("21", "H2:9,E1,R3:2,A1,N1:3,E3,K6,X,S1,S2,S3"),
        // a committed fabric removed while the fail-safe is armed for it over its own CASE session
        ("21", "A3,R3:2,T,E1,Q3:5,X,E1"),
        ("21", "E1,F,A3,U3,R2:2,Z2,E1,S1,X,E1,S1"),
        ("20", "A2,R3:1,X,E0,A3,R3:2,V3,E1"),
        // a subscription that gets into the table after the removal broadcast of its fabric
        ("21", "A1,N1:2,E2,b4,P,A5,N5:3,E3,O,X,O"),
        ("21", "A1,N1:2,E2,b2,b3,b1,P,A5,N5:3,O"),
        ("21", "r3:2,A1,N1:2,O,X,O"),
        ("21", "E1,r4:2,r2:2,r3:1,r1:1,b9,r9:1"),
        // nothing to do
        ("20", "T,X,T,O,F,S1,E3,H3:5,G0,Z2,V3"),
    ]
}

fn generate(tier: &str, seed: u64) -> Vec<String> {
    let thorough = tier == "thorough";
    let mut rng = Rng::new(seed);
    let mut cases: Vec<String> = Vec::new();
    let mut id = 0u64;
    let mut nid = || {
        id += 1;
        id
    };
    cases.push(format!("H {}", nid()));
    for (init, ops) in branch_cases() {
        cases.push(format!("S {} {} {}", nid(), init, ops));
    }
    // wire probes: the old session / record is really used on the wire after the fabric is gone
    for ops in [
        "A1,N1:2,E2,Q4:5,T,Q4:6,P,A5,N5:3,Q4:7,S1",
        "E1,Q4:5,R2:2,Q4:6,A1,N1:2,Q4:7,S1",
        "E1,Q4:5,R4:2,Q4:6,A1,N1:2,Q4:7,S1",
        "A1,N1:2,E2,F,Z4,Q4:6,X,S1",
    ] {
        cases.push(format!("W {} 21 {}", nid(), ops));
    }
    // in-flight stream: a fabric is removed / rolled back while a full handshake or a resumption for
    // it is caught in its last step; then the handshake completes, the old session / record is
    // probed and the index is reused. Names are tracked exactly (2 fabrics, PASE session 1,
    // administrator sessions 2 and 3).
    let n_flight = if thorough { 4000 } else { 400 };
    for _ in 0..n_flight {
        let mut v: Vec<String> = Vec::new();
        let mut next = 4u64; // next session name
        let filler = |rng: &mut Rng, v: &mut Vec<String>, next: &mut u64| {
            for _ in 0..rng.below(3) {
                match rng.below(5) {
                    0 => v.push("F".into()),
                    1 => v.push("O".into()),
                    2 => {
                        v.push(format!("H1:{}", rng.pick(&[9u64, 10])));
                        *next += 1;
                    }
                    3 => v.push(format!("Q2:{}", 1 + rng.below(9))),
                    _ => v.push("G1".into()),
                }
                if v.last().map(|x| x == "G1").unwrap_or(false) {
                    *next += 1;
                }
            }
        };
        let resume = rng.chance(1, 2);
        let rollback = rng.chance(1, 2);
        let complete_first = rng.chance(1, 5);
        let slot; // name of the handshake's slot
        if rollback {
            // fabric 3 is being commissioned over PASE session 1
            v.push("A1".into());
            v.push(format!("N1:{}", 2 + rng.below(2)));
            let root = v[1][3..].to_string();
            filler(&mut rng, &mut v, &mut next);
            if resume {
                v.push(format!("E{}", root));
                next += 1;
                filler(&mut rng, &mut v, &mut next);
                v.push("s1".into());
            } else {
                v.push(format!("e{}", root));
            }
            slot = next;
            next += 1;
            let removal = rng.pick(&["T", "Z1", "V1", "Z2", "V3", "R2:3", "R3:3"]).to_string();
            if complete_first {
                v.push("D".into());
                filler(&mut rng, &mut v, &mut next);
                v.push(removal);
            } else {
                filler(&mut rng, &mut v, &mut next);
                v.push(removal);
                filler(&mut rng, &mut v, &mut next);
                v.push("D".into());
            }
            v.push(format!("Q{}:{}", slot, 1 + rng.below(9)));
            v.push(format!("S{}", 1 + rng.below(2)));
            // the index is handed out again
            v.push("P".into());
            let p = next;
            next += 1;
            v.push(format!("A{}", p));
            v.push(format!("N{}:{}", p, 3));
            v.push(format!("Q{}:{}", slot, 1 + rng.below(9)));
            v.push(format!("S{}", 1 + rng.below(3)));
            if rng.chance(1, 2) {
                v.push("O".into());
            }
        } else {
            // fabric 2 is removed by the administrator of fabric 1 (session 2) or by its own (3)
            filler(&mut rng, &mut v, &mut next);
            if resume {
                v.push("E1".into());
                next += 1;
                filler(&mut rng, &mut v, &mut next);
                v.push("s1".into());
            } else {
                v.push("e1".into());
            }
            slot = next;
            next += 1;
            let removal = rng.pick(&["R2:2", "R2:2", "R3:2", "R1:2"]).to_string();
            if complete_first {
                v.push("D".into());
                filler(&mut rng, &mut v, &mut next);
                v.push(removal);
            } else {
                filler(&mut rng, &mut v, &mut next);
                v.push(removal);
                filler(&mut rng, &mut v, &mut next);
                v.push("D".into());
            }
            v.push(format!("Q{}:{}", slot, 1 + rng.below(9)));
            v.push(format!("S{}", 1 + rng.below(2)));
            v.push("A1".into());
            v.push(format!("N1:{}", 2 + rng.below(2)));
            v.push(format!("Q{}:{}", slot, 1 + rng.below(9)));
            v.push(format!("S{}", 1 + rng.below(3)));
            if rng.chance(1, 2) {
                v.push("X".into());
                v.push(format!("S{}", 1 + rng.below(3)));
            }
        }
        let _ = next;
        cases.push(format!("S {} 21 {}", nid(), v.join(",")));
    }
    // store stream: what a restart reloads after a removal. Records of fabric 2 exist (and may have been
    // flushed), the fabric is removed (or a commissioning with flushed records is rolled back), the index
    // is commissioned again and COMMITTED, then the node restarts - with and without the background
    // flush having run in between - and the old records / sessions are probed.
    let n_store = if thorough { 3000 } else { 300 };
    for _ in 0..n_store {
        let mut v: Vec<String> = Vec::new();
        let mut next = 4u64;
        let mut nrec = 0u64;
        let flush = |rng: &mut Rng, v: &mut Vec<String>, num: u64, den: u64| {
            if rng.chance(num, den) {
                v.push("F".into());
            }
        };
        let idx; // the index that is removed and handed out again
        if rng.chance(2, 3) {
            // committed fabric 2, removed by an administrator
            idx = 2u8;
            for _ in 0..1 + rng.below(2) {
                if rng.chance(2, 3) {
                    v.push("E1".into());
                } else {
                    v.push(format!("H2:{}", rng.pick(&[ADMIN, 9, 10])));
                }
                next += 1;
                nrec += 1;
            }
            flush(&mut rng, &mut v, 2, 3);
            v.push(rng.pick(&["R2:2", "R3:2", "R1:2"]).to_string());
            flush(&mut rng, &mut v, 1, 3);
            v.push("A1".into());
        } else {
            // fabric 3 of a commissioning that is rolled back after its records were flushed
            idx = 3u8;
            v.push("A1".into());
            v.push("N1:2".into());
            v.push("E2".into());
            next += 1;
            nrec += 1;
            flush(&mut rng, &mut v, 2, 3);
            v.push(rng.pick(&["T", "Z1", "V1", "Z2"]).to_string());
            flush(&mut rng, &mut v, 1, 3);
            v.push("P".into());
            v.push(format!("A{}", next));
            next += 1;
        }
        // the index is commissioned again ...
        let p = if idx == 2 { 1 } else { next - 1 };
        let root = 3;
        v.push(format!("N{}:{}", p, root));
        v.push(format!("E{}", root));
        let admin = next;
        next += 1;
        nrec += 1;
        // ... and committed (mostly)
        if rng.chance(5, 6) {
            v.push(format!("K{}", admin));
        }
        if rng.chance(1, 3) {
            v.push(format!("Q{}:{}", admin, 1 + rng.below(9)));
        }
        flush(&mut rng, &mut v, 1, 3);
        v.push("X".into());
        for _ in 0..2 + rng.below(3) {
            match rng.below(4) {
                0 | 1 => v.push(format!("S{}", 1 + rng.below(nrec + 1))),
                2 => {
                    v.push(format!("E{}", root));
                    next += 1;
                }
                _ => v.push("F".into()),
            }
        }
        if rng.chance(1, 2) {
            v.push("X".into());
            v.push(format!("S{}", 1 + rng.below(nrec + 2)));
        }
        let _ = next;
        cases.push(format!("S {} 21 {}", nid(), v.join(",")));
    }
    // armed-removal stream: a COMMITTED fabric is removed while the fail-safe is armed for it over one of
    // its CASE sessions; then the fail-safe expires (timer, ArmFailSafe(0), RevokeCommissioning) or the node
    // restarts: nothing of the removed fabric may come back from the store.
    let n_armed = if thorough { 3000 } else { 300 };
    for _ in 0..n_armed {
        let mut v: Vec<String> = Vec::new();
        // fabric f (1 or 2), its administrator's session a, the other administrator's session b
        let (f, a, b, root) = if rng.chance(2, 3) { (2u8, 3u64, 2u64, 1usize) } else { (1u8, 2u64, 3u64, 0usize) };
        let pase = rng.chance(1, 2);
        let mut nrec = 0u64;
        if rng.chance(1, 2) {
            v.push(format!("E{}", root));
            nrec += 1;
            if rng.chance(1, 2) {
                v.push("F".into());
            }
        }
        v.push(format!("A{}", a));
        if rng.chance(1, 3) {
            v.push(format!("U{}", a));
        }
        if rng.chance(1, 3) {
            v.push(format!("Q{}:{}", a, 1 + rng.below(9)));
        }
        if rng.chance(1, 3) {
            v.push(format!("B{}", a));
        }
        v.push(format!("R{}:{}", rng.pick(&[a, b]), f));
        if rng.chance(1, 3) {
            v.push("F".into());
        }
        let other = b;
        v.push(match rng.below(5) {
            0 | 1 => "T".to_string(),
            2 => format!("Z{}", other),
            3 => format!("V{}", other),
            _ => "X".to_string(),
        });
        // probes: the removed fabric's credentials, records and sessions
        v.push(format!("E{}", root));
        v.push(format!("Q{}:{}", a, 1 + rng.below(9)));
        if nrec > 0 {
            v.push("S1".into());
        }
        if rng.chance(1, 2) {
            v.push("X".into());
            v.push(format!("E{}", root));
        }
        if rng.chance(1, 2) {
            v.push("O".into());
        }
        cases.push(format!("S {} 2{} {}", nid(), pase as u8, v.join(",")));
    }
    // late-subscription stream: a subscription gets into the table AFTER the removal broadcast of its
    // fabric - the request arrives when the fail-safe timer is due (b), or RemoveFabric of the session's own
    // fabric is invoked while the subscription is being primed on that session (r) - and the reporter's
    // purge phase is what drops it; then the index is handed out again.
    let n_late = if thorough { 3000 } else { 300 };
    for _ in 0..n_late {
        let mut v: Vec<String> = Vec::new();
        let extra = |rng: &mut Rng, v: &mut Vec<String>| {
            for _ in 0..rng.below(3) {
                match rng.below(4) {
                    0 => v.push("F".into()),
                    1 => v.push("O".into()),
                    2 => v.push(format!("Q2:{}", 1 + rng.below(9))),
                    _ => v.push("B2".into()),
                }
            }
        };
        if rng.chance(1, 2) {
            // (b) fabric 3 is being commissioned, the administrator has a CASE session (4) on it
            let root = 2 + rng.below(2);
            v.push("A1".into());
            v.push(format!("N1:{}", root));
            v.push(format!("E{}", root));
            extra(&mut rng, &mut v);
            v.push(format!("b{}", rng.pick(&[4u64, 4, 4, 2, 3])));
            extra(&mut rng, &mut v);
            // the index is handed out again
            v.push("P".into());
            v.push("A5".into());
            v.push("N5:3".into());
            v.push("E3".into());
            if rng.chance(1, 2) {
                v.push("K6".into());
            }
            v.push("O".into());
            if rng.chance(1, 2) {
                v.push("X".into());
                v.push("O".into());
            }
        } else {
            // (r) RemoveFabric on the session the subscription is being primed on
            let own = rng.chance(2, 3);
            let (s, i) = *rng.pick(&[(3u64, 2u8), (3, 2), (2, 1)]);
            let mut sess = s;
            if rng.chance(1, 3) {
                // a session from a real handshake instead of the preset one
                v.push(format!("E{}", i - 1));
                sess = 4;
            }
            extra(&mut rng, &mut v);
            v.push(format!("r{}:{}", sess, if own { i } else { 3 - i }));
            extra(&mut rng, &mut v);
            // the index is handed out again (when it was the highest one)
            v.push("A1".into());
            v.push(format!("N1:{}", 2 + rng.below(2)));
            v.push("O".into());
            if rng.chance(1, 2) {
                v.push("X".into());
                v.push("O".into());
            }
        }
        cases.push(format!("S {} 21 {}", nid(), v.join(",")));
    }
    // random sequences of <= 25 operations; a light-weight picture of the node steers them
    // towards meaningful sessions and indices (the model decides what really happens)
    let n_rand = if thorough { 30000 } else { 3000 };
    for _ in 0..n_rand {
        let kind = *rng.pick(&[2u8, 2, 2, 1, 3, 4]);
        let pase = rng.chance(4, 5);
        let len = rng.range(6, 25);
        let mut nsess: u64 = 1 + init_indices(kind).len() as u64; // names handed out so far (approx.)
        let mut created: u64 = 0;
        let mut nrec: u64 = 0;
        let mut nsubs: u64 = 0;
        let mut last_pase: u64 = 1;
        let mut v: Vec<String> = Vec::new();
        let idxs: Vec<u8> = {
            let mut x = init_indices(kind);
            let m = *x.iter().max().unwrap();
            if m < 254 {
                x.push(m + 1);
            } else {
                x.push(*[1u8, 2, 3].iter().find(|i| !x.contains(i)).unwrap());
            }
            x.push(*[3u8, 1, 2].iter().find(|i| !x.contains(i)).unwrap_or(&4));
            x
        };
        // most sequences start with a commissioning in progress
        if pase && rng.chance(3, 5) {
            v.push("A1".into());
            v.push(format!("N1:{}", 2 + rng.below(2)));
            if rng.chance(4, 5) {
                v.push(format!("E{}", 2 + rng.below(2)));
                nsess += 1;
                created += 1;
                nrec += 1;
            }
        }
        while (v.len() as u64) < len {
            let s = if rng.chance(1, 6) { 1 + rng.below(nsess + 1) } else if rng.chance(1, 3) { last_pase } else { 2 + rng.below(nsess.max(2) - 1) };
            let can_create = created < 9;
            let t = match rng.below(56) {
                48 if can_create => {
                    nsess += 1;
                    created += 1;
                    nrec += 1;
                    format!("e{}", rng.below(5))
                }
                49 | 50 if can_create && nrec > 0 => {
                    nsess += 1;
                    created += 1;
                    nrec += 1;
                    format!("s{}", 1 + rng.below(nrec))
                }
                51 | 52 => "D".to_string(),
                53 | 54 if nsubs < 4 => {
                    nsubs += 1;
                    format!("b{}", s)
                }
                55 if nsubs < 4 => {
                    nsubs += 1;
                    format!("r{}:{}", s, rng.pick(&idxs))
                }
                0..=3 => format!("A{}", s),
                4..=7 => format!("N{}:{}", s, rng.below(4)),
                8 => format!("U{}", s),
                9..=11 => format!("K{}", s),
                12..=15 => format!("R{}:{}", s, rng.pick(&idxs)),
                16..=18 => "T".to_string(),
                19..=20 => format!("Z{}", s),
                21 => format!("V{}", s),
                22..=25 if can_create => {
                    nsess += 1;
                    created += 1;
                    nrec += 1;
                    format!("E{}", rng.below(5))
                }
                26..=28 if can_create => {
                    nsess += 1;
                    created += 1;
                    nrec += 1;
                    format!("H{}:{}", rng.pick(&idxs), rng.pick(&[ADMIN, 9, 10]))
                }
                29 if can_create => {
                    nsess += 1;
                    created += 1;
                    format!("G{}", rng.pick(&idxs))
                }
                30..=33 if can_create && nrec > 0 => {
                    nsess += 1;
                    created += 1;
                    nrec += 1;
                    format!("S{}", 1 + rng.below(nrec))
                }
                34..=35 => "F".to_string(),
                36..=37 => "X".to_string(),
                38 => "O".to_string(),
                39..=43 => format!("Q{}:{}", s, 1 + rng.below(9)),
                44..=45 if nsubs < 4 => {
                    nsubs += 1;
                    format!("B{}", s)
                }
                46 if can_create => {
                    nsess += 1;
                    created += 1;
                    last_pase = nsess;
                    "P".to_string()
                }
                _ => format!("Q{}:{}", s, 1 + rng.below(9)),
            };
            v.push(t);
        }
        cases.push(format!("S {} {}{} {}", nid(), kind, pase as u8, v.join(",")));
    }
    cases
}

fn main() {
    let args: Vec<String> = std::env::args().collect();
    match args.get(1).map(|s| s.as_str()) {
        Some("gen") => {
            let outdir = std::path::PathBuf::from(&args[4]);
            std::fs::create_dir_all(&outdir).unwrap();
            let cases = generate(&args[2], args[3].parse().unwrap());
            let mut cf = std::io::BufWriter::new(std::fs::File::create(outdir.join("cases.txt")).unwrap());
            for c in &cases {
                writeln!(cf, "{}", c).unwrap();
            }
        }
        Some("run") => {
            let text = std::fs::read_to_string(&args[2]).unwrap();
            let handle = std::thread::Builder::new()
                .stack_size(256 * 1024 * 1024)
                .spawn(move || {
                    if std::env::var("C07_DEBUG").is_err() {
                        rsm_harness::silence_panics();
                    }
                    let base = make_base();
                    let mut out = String::new();
                    for line in text.lines() {
                        let r = std::panic::catch_unwind(std::panic::AssertUnwindSafe(|| {
                            let mut o = String::new();
                            run_line(&base, line, &mut o);
                            o
                        }));
                        match r {
                            Ok(o) => out.push_str(&o),
                            Err(_) => {
                                let f: Vec<&str> = line.split(' ').collect();
                                let _ = writeln!(out, "{} {} panic", f[0], f.get(1).unwrap_or(&"?"));
                            }
                        }
                    }
                    out
                })
                .unwrap();
            print!("{}", handle.join().unwrap());
        }
        _ => {
            eprintln!("usage: c07 gen <tier> <seed> <outdir> | c07 run <cases>");
            std::process::exit(2);
        }
    }
}
