//! C05 correspondence harness: builds real `Fabrics` / ACL entries / group
//! tables / accessors through the crate's API and prints the decisions of
//! `AccessReq::allow` and `Accessor::is_endpoint_accessible`.
//!
//! usage: c05 gen <quick|thorough> <seed> <outdir>   writes cases.txt + stats.json
//!        c05 run <cases-file>                       prints one line per case
//!
//! case line (same grammar as ocaml/c05/driver.ml):
//!   A <id> <mode> <fabrics> <accessors> <requests>
//!     mode      N: entries installed with `Fabric::acl_add`
//!               L: fabrics serialised to TLV, the ACL array spliced in with the entries
//!                  exactly as given (raw fabric index, PASE mode), reloaded with
//!                  `Fabrics::load_persist`
//!     fabrics   - | fabric('|'fabric)*   fabric = idx:entries:groups   (idx ascending)
//!     entry     priv,auth,efab,subjects,targets      group = gid,aux,eps
//!     accessor  S<kind>,fab,peer,c1/c2/c3,gid,aux  (through a `Session` and `Accessor::for_session`)
//!               R,fab,auth,subj0,cats,aux          (`Accessor::new` + `AccessorSubjects`)
//!     request   ep.cl,dts,op,perms
//! output:  A <id> <acl_add flags per fabric> <2 chars per accessor x request: allow, endpoint accessible>
use std::collections::BTreeMap;
use std::collections::HashMap;
use std::fmt::Write as _;
use std::io::Write as _;
use std::num::NonZeroU8;

use rs_matter::acl::{AccessReq, Accessor, AccessorSubjects, AclEntry, AuthMode, Target};
use rs_matter::dm::devices::test::{TEST_DEV_ATT, TEST_DEV_COMM, TEST_DEV_DET};
use rs_matter::dm::{Access, DeviceType, Privilege};
use rs_matter::error::Error;
use rs_matter::im::GenericPath;
use rs_matter::persist::KvBlobStore;
use rs_matter::tlv::{TLVTag, ToTLV};
use rs_matter::transport::network::Address;
use rs_matter::transport::session::{Session, SessionMode};
use rs_matter::utils::storage::WriteBuf;
use rs_matter::Matter;
use rsm_harness::Rng;

// ------------------------------------------------------------------ parsing

fn opt_num<T: std::str::FromStr>(s: &str) -> Option<T>
where
    T::Err: std::fmt::Debug,
{
    if s == "x" || s == "n" {
        None
    } else {
        Some(s.parse::<T>().unwrap())
    }
}

fn nlist<T: std::str::FromStr>(s: &str) -> Vec<T>
where
    T::Err: std::fmt::Debug,
{
    if s == "e" || s == "n" || s.is_empty() {
        Vec::new()
    } else {
        s.split('/').map(|x| x.parse::<T>().unwrap()).collect()
    }
}

fn plist(s: &str, sep: char) -> Vec<&str> {
    if s == "-" || s.is_empty() {
        Vec::new()
    } else {
        s.split(sep).collect()
    }
}

fn parse_auth(s: &str) -> AuthMode {
    match s {
        "P" => AuthMode::Pase,
        "C" => AuthMode::Case,
        "G" => AuthMode::Group,
        _ => panic!("bad auth {s}"),
    }
}

/// An `AclEntry` built with the public constructors.
fn build_entry(s: &str) -> AclEntry {
    let f: Vec<&str> = s.split(',').collect();
    let (p, a, ef, subj, targ) = (f[0], f[1], f[2], f[3], f[4]);
    let efab: Option<u8> = opt_num(ef);
    let mut e = AclEntry::new(
        efab.map(|x| NonZeroU8::new(x).expect("entry fabric index 0 is not representable")),
        Privilege::from_bits_retain(p.parse::<u8>().unwrap()),
        parse_auth(a),
    );
    if subj != "n" {
        for s in nlist::<u64>(subj) {
            e.add_subject(s).unwrap();
        }
        if subj == "e" {
            // non-null but empty list
            e.add_subject(1).unwrap();
            e = strip_subjects(e);
        }
    }
    if targ != "n" {
        if targ == "e" {
            e.add_target(Target::new(Some(1), None, None)).unwrap();
            e = strip_targets(e);
        } else {
            for t in targ.split('/') {
                let p: Vec<&str> = t.split('.').collect();
                e.add_target(Target::new(opt_num(p[0]), opt_num(p[1]), opt_num(p[2]))).unwrap();
            }
        }
    }
    e
}

/// `Some([])` subjects / targets cannot be made with `add_subject`; they are made by a TLV
/// round trip of the entry with the list emptied (the derive keeps empty-but-present lists).
fn strip_subjects(e: AclEntry) -> AclEntry {
    retlv(e, 3)
}

fn strip_targets(e: AclEntry) -> AclEntry {
    retlv(e, 4)
}

/// Serialise the entry, empty the array at context tag `tag` (3 = subjects, 4 = targets;
/// `AclEntry` is `#[tlvargs(start = 1)]`), parse it back.
fn retlv(e: AclEntry, tag: u8) -> AclEntry {
    use rs_matter::tlv::{FromTLV, TLVElement};
    let mut buf = [0u8; 512];
    let mut wb = WriteBuf::new(&mut buf);
    e.to_tlv(&TLVTag::Anonymous, &mut wb).unwrap();
    let len = wb.get_tail();
    let bytes = &buf[..len];
    // find `36 <tag>` (array, context tag) and drop everything up to its end-of-container
    let mut out = Vec::new();
    let mut i = 0;
    let mut done = false;
    while i < bytes.len() {
        if !done && i + 1 < bytes.len() && bytes[i] == 0x36 && bytes[i + 1] == tag {
            // the element after the one-element list we put there ends at the first 0x18 that
            // closes the array: subjects hold one u64 (no nested container), targets one struct
            let mut depth = 0i32;
            let mut j = i + 2;
            loop {
                let c = bytes[j];
                if c == 0x18 {
                    if depth == 0 {
                        break;
                    }
                    depth -= 1;
                    j += 1;
                } else if c & 0x1f == 0x15 || c & 0x1f == 0x16 || c & 0x1f == 0x17 {
                    depth += 1;
                    j += 1 + tag_len(c);
                } else {
                    j += 1 + tag_len(c) + val_len(c);
                }
            }
            out.extend_from_slice(&[0x36, tag, 0x18]);
            i = j + 1;
            done = true;
        } else {
            out.push(bytes[i]);
            i += 1;
        }
    }
    assert!(done, "array tag {tag} not found");
    AclEntry::from_tlv(&TLVElement::new(&out)).unwrap()
}

fn tag_len(ctrl: u8) -> usize {
    match ctrl >> 5 {
        0 => 0,
        1 => 1,
        _ => panic!("unexpected tag form"),
    }
}

fn val_len(ctrl: u8) -> usize {
    match ctrl & 0x1f {
        0x00 | 0x04 => 1,
        0x01 | 0x05 => 2,
        0x02 | 0x06 => 4,
        0x03 | 0x07 => 8,
        0x08 | 0x09 | 0x14 => 0,
        t => panic!("unexpected element type {t:#x}"),
    }
}

struct MemStore(HashMap<u16, Vec<u8>>);

impl KvBlobStore for MemStore {
    fn load<'a>(&mut self, key: u16, buf: &'a mut [u8]) -> Result<Option<&'a [u8]>, Error> {
        match self.0.get(&key) {
            Some(v) => {
                buf[..v.len()].copy_from_slice(v);
                Ok(Some(&buf[..v.len()]))
            }
            None => Ok(None),
        }
    }
    fn store(&mut self, key: u16, data: &[u8], _buf: &mut [u8]) -> Result<(), Error> {
        self.0.insert(key, data.to_vec());
        Ok(())
    }
    fn remove(&mut self, key: u16, _buf: &mut [u8]) -> Result<(), Error> {
        self.0.remove(&key);
        Ok(())
    }
}

/// Build the fabric table of a case inside `matter`; returns the acl_add flags.
fn build_fabrics(matter: &Matter<'_>, native: bool, fabs: &str) -> String {
    let descs: Vec<Vec<&str>> = plist(fabs, '|').into_iter().map(|f| f.split(':').collect()).collect();
    let mut flags: Vec<String> = Vec::new();
    matter.with_state(|state| {
        state.fabrics.reset();
        let want: Vec<u8> = descs.iter().map(|d| d[0].parse::<u8>().unwrap()).collect();
        let max = want.iter().copied().max().unwrap_or(0);
        // `add_with_post_init` hands out (highest index in use) + 1: an unwanted index is
        // removed only after its successor exists, so gaps survive and at most
        // (wanted + 1) fabrics are alive at any time
        for i in 1..=max {
            let f = state.fabrics.add_with_post_init(|_| Ok(())).unwrap();
            assert_eq!(f.fab_idx().get(), i);
            if i > 1 && !want.contains(&(i - 1)) {
                state.fabrics.remove(NonZeroU8::new(i - 1).unwrap()).unwrap();
            }
        }
        for d in &descs {
            let idx = NonZeroU8::new(d[0].parse::<u8>().unwrap()).unwrap();
            let fabric = state.fabrics.get_mut(idx).unwrap();
            for g in plist(d[2], '+') {
                let p: Vec<&str> = g.split(',').collect();
                let gid: u16 = p[0].parse().unwrap();
                let eps: Vec<u16> = nlist(p[2]);
                fabric.groups_mut().groupcast_join(gid, &eps, false, None).unwrap();
                let m = fabric.groups_mut().get_mut(gid).unwrap();
                m.has_aux_acl = match p[1] {
                    "n" => None,
                    "1" => Some(true),
                    _ => Some(false),
                };
            }
            if native {
                let mut fl = String::new();
                for e in plist(d[1], '+') {
                    fl.push(if fabric.acl_add(build_entry(e)).is_ok() { '1' } else { '0' });
                }
                flags.push(fl);
            }
        }
        if !native {
            // serialise every fabric, splice the entries into the (empty) ACL array, reload
            let mut store = MemStore(HashMap::new());
            for d in &descs {
                let idx = NonZeroU8::new(d[0].parse::<u8>().unwrap()).unwrap();
                let fabric = state.fabrics.get(idx).unwrap();
                let mut buf = vec![0u8; 8192];
                let mut wb = WriteBuf::new(&mut buf);
                fabric.to_tlv(&TLVTag::Anonymous, &mut wb).unwrap();
                let len = wb.get_tail();
                let blob = &buf[..len];
                let marker = [0x36u8, 12, 0x18];
                let pos: Vec<usize> = (0..blob.len().saturating_sub(2)).filter(|&i| blob[i..i + 3] == marker).collect();
                assert_eq!(pos.len(), 1, "empty ACL array not found exactly once");
                let mut out = blob[..pos[0] + 2].to_vec();
                for e in plist(d[1], '+') {
                    let entry = build_entry(e);
                    let mut eb = [0u8; 512];
                    let mut ewb = WriteBuf::new(&mut eb);
                    entry.to_tlv(&TLVTag::Anonymous, &mut ewb).unwrap();
                    let l = ewb.get_tail();
                    out.extend_from_slice(&eb[..l]);
                }
                out.extend_from_slice(&blob[pos[0] + 2..]);
                store.0.insert(rs_matter::persist::FABRIC_KEYS_START + idx.get() as u16, out);
            }
            let mut buf = vec![0u8; 8192];
            state.fabrics.load_persist(&mut store, &mut buf).unwrap();
            assert_eq!(state.fabrics.iter().count(), descs.len());
        }
    });
    let joined = flags.join("|");
    if joined.is_empty() {
        "-".to_string()
    } else {
        joined
    }
}

enum Acc {
    Session(Session, bool),
    Raw(u8, Option<AuthMode>, u64, Vec<u32>, bool),
}

fn parse_accessor(s: &str) -> Acc {
    let f: Vec<&str> = s.split(',').collect();
    if f[0] == "R" {
        let auth = if f[2] == "N" { None } else { Some(parse_auth(f[2])) };
        Acc::Raw(f[1].parse().unwrap(), auth, f[3].parse().unwrap(), nlist(f[4]), f[5] == "1")
    } else {
        let fab: u8 = f[1].parse().unwrap();
        let peer: Option<u64> = opt_num(f[2]);
        let mut sess = Session::new(1, 0, false, Address::new(), peer, 300, 300, 4000);
        let mode = match &f[0][1..] {
            "C" => {
                let c: Vec<u32> = nlist(f[3]);
                SessionMode::Case {
                    fab_idx: NonZeroU8::new(fab).unwrap(),
                    cat_ids: [c[0], c[1], c[2]],
                }
            }
            "P" => SessionMode::Pase { fab_idx: fab },
            "G" => SessionMode::Group {
                fab_idx: NonZeroU8::new(fab).unwrap(),
                group_id: f[4].parse().unwrap(),
            },
            "T" => SessionMode::PlainText,
            k => panic!("bad session kind {k}"),
        };
        sess.verif_set_session_mode(mode);
        Acc::Session(sess, f[5] == "1")
    }
}

struct Req {
    ep: Option<u16>,
    cl: Option<u32>,
    dts: Vec<DeviceType>,
    op: u16,
    perms: Option<u16>,
}

fn parse_request(s: &str) -> Req {
    let f: Vec<&str> = s.split(',').collect();
    let p: Vec<&str> = f[0].split('.').collect();
    Req {
        ep: opt_num(p[0]),
        cl: opt_num(p[1]),
        dts: nlist::<u16>(f[1]).into_iter().map(|d| DeviceType { dtype: d, drev: 1 }).collect(),
        op: f[2].parse().unwrap(),
        perms: opt_num(f[3]),
    }
}

fn run_line(matter: &Matter<'_>, line: &str, out: &mut String) {
    let f: Vec<&str> = line.split(' ').collect();
    if f.len() != 6 || f[0] != "A" {
        return;
    }
    let flags = build_fabrics(matter, f[2] == "N", f[3]);
    let reqs: Vec<Req> = f[5].split(';').map(parse_request).collect();
    write!(out, "A {} {} ", f[1], flags).unwrap();
    for a in f[4].split(';') {
        let accessor = match parse_accessor(a) {
            Acc::Session(sess, aux) => Accessor::for_session(&sess, matter, aux),
            Acc::Raw(fab, auth, s0, cats, aux) => {
                let mut subj = AccessorSubjects::new(s0);
                for c in cats {
                    let _ = subj.add_catid(c);
                }
                Accessor::new(fab, aux, subj, auth, matter)
            }
        };
        for r in &reqs {
            let mut req = AccessReq::new(
                &accessor,
                GenericPath::new(r.ep, r.cl, None),
                Access::from_bits_retain(r.op),
                &r.dts,
            );
            if let Some(p) = r.perms {
                req.set_target_perms(Access::from_bits_retain(p));
            }
            out.push(if req.allow() { '1' } else { '0' });
            match r.ep {
                Some(ep) => out.push(if accessor.is_endpoint_accessible(ep) { '1' } else { '0' }),
                None => out.push('-'),
            }
        }
    }
    out.push('\n');
}

// --------------------------------------------------------------- generation

const PREFIX: u64 = 0xFFFF_FFFD_0000_0000;
const N1: u64 = 112233;
const N2: u64 = 112232;
const N3: u64 = 0x0000_0001_0000_0001;
const CAT_A: u32 = 0xABCD;
const CAT_B: u32 = 0xCAFE;
const G1: u64 = 0x12AB;
const G2: u64 = 7;
const C1: u32 = 6;
const C2: u32 = 0x1234;
const D1: u32 = 0x0100;
const D2: u32 = 22;

fn cat(id: u32, ver: u32) -> u32 {
    (id << 16) | ver
}

fn cat_subject(id: u32, ver: u32) -> u64 {
    PREFIX | cat(id, ver) as u64
}

fn join<T: ToString>(v: &[T]) -> String {
    if v.is_empty() {
        "e".to_string()
    } else {
        v.iter().map(|x| x.to_string()).collect::<Vec<_>>().join("/")
    }
}

/// the declarations used by the exhaustive product (Access bits)
const DECLS: [&str; 12] = [
    "17", // RV
    "24", // R, Administer
    "30", // R, Operate (O|M|A)
    "61", // RW VM
    "57", // RW VA
    "63", // RW VO
    "46", // W Operate (WO)
    "44", // W Manage (WM)
    "40", // W Administer (WA)
    "48", // RW without any level
    "121", // RW VA + fabric scoped
    "n",  // no declaration known
];

fn product_accessors() -> Vec<String> {
    let mut v = Vec::new();
    v.push("SP,0,n,0/0/0,0,0".to_string());
    v.push("SP,1,n,0/0/0,0,1".to_string());
    v.push(format!("SC,1,{N1},0/0/0,0,0"));
    for ver in [1u32, 2, 3] {
        v.push(format!("SC,1,{N3},{}/0/0,0,0", cat(CAT_A, ver)));
    }
    v.push(format!("SC,1,{N3},{}/{}/0,0,1", cat(CAT_B, 2), cat(CAT_B, 9)));
    v.push(format!("SC,1,n,0/0/{},0,0", cat(CAT_A, 3)));
    v.push(format!("SC,2,{N1},{}/0/0,0,0", cat(CAT_A, 3)));
    v.push(format!("SC,9,{N1},{}/0/0,0,0", cat(CAT_A, 3)));
    v.push(format!("SG,1,n,0/0/0,{G1},0"));
    v.push(format!("SG,1,n,0/0/0,{G1},1"));
    v.push(format!("SG,1,n,0/0/0,{G2},1"));
    v.push(format!("SG,2,n,0/0/0,{G1},1"));
    v.push(format!("SG,9,n,0/0/0,{G1},1"));
    v.push("ST,0,n,0/0/0,0,0".to_string());
    v.push(format!("R,0,C,{N1},e,0"));
    v.push(format!("R,1,N,{N1},e,0"));
    v
}

fn product_requests(thorough: bool) -> Vec<String> {
    let paths = [
        format!("1.{C1},{D1}"),
        format!("2.{C1},{D2}/{D1}"),
        format!("0.{C2},e"),
        format!("x.{C1},e"),
    ];
    let mut v = Vec::new();
    for p in &paths {
        for op in ["16", "32"] {
            for (i, d) in DECLS.iter().enumerate() {
                if !thorough && (i == 10) {
                    continue;
                }
                v.push(format!("{p},{op},{d}"));
            }
        }
    }
    v
}

fn subject_variants(auth: &str) -> Vec<String> {
    if auth == "G" {
        vec![
            "n".into(),
            "e".into(),
            format!("{G1}"),
            format!("{G2}"),
            format!("{G2}/{G1}"),
        ]
    } else {
        vec![
            "n".into(),
            "e".into(),
            format!("{N1}"),
            format!("{N2}"),
            format!("{}", cat_subject(CAT_A, 2)),
            format!("{}", cat_subject(CAT_B, 2)),
            format!("{N2}/{}", cat_subject(CAT_A, 2)),
            format!("{N2}/{N3}/{N1}"),
            format!("{}", cat_subject(CAT_A, 0)),
        ]
    }
}

fn target_variants() -> Vec<String> {
    vec![
        "n".into(),
        "e".into(),
        "1.x.x".into(),
        "2.x.x".into(),
        "0.x.x".into(),
        format!("x.{C1}.x"),
        format!("x.{C2}.x"),
        format!("x.x.{D1}"),
        format!("x.x.{D2}"),
        format!("1.{C1}.x"),
        format!("1.{C2}.x"),
        format!("x.{C1}.{D1}"),
        format!("x.x.{}", 0x10000 + D1),
        format!("2.x.x/x.{C2}.x"),
    ]
}

struct Pools {
    nodes: Vec<u64>,
    groups: Vec<u64>,
    eps: Vec<u16>,
    cls: Vec<u32>,
    dts: Vec<u32>,
}

fn pools() -> Pools {
    Pools {
        nodes: vec![N1, N2, N3, 1, 0xFFFF_FFEF_FFFF_FFFF],
        groups: vec![G1, G2, 1, 0xFFFF],
        eps: vec![0, 1, 2, 3],
        cls: vec![C1, C2, 0x1F],
        dts: vec![D1, D2, 0x10000 + D1],
    }
}

fn rand_subject(rng: &mut Rng, p: &Pools, auth: &str) -> u64 {
    if auth == "G" {
        *rng.pick(&p.groups)
    } else if rng.chance(1, 2) {
        *rng.pick(&p.nodes)
    } else {
        cat_subject(*rng.pick(&[CAT_A, CAT_B, 0]), rng.below(4) as u32)
    }
}

fn rand_entry(rng: &mut Rng, p: &Pools, kind: char, own: u8, all: &[u8], hist: &mut BTreeMap<String, u64>) -> String {
    let privs: &[u8] = if kind == 'X' { &[0, 1, 2, 4, 5, 8, 9, 15, 16, 17, 31, 3, 7] } else { &[1, 3, 7, 15, 16] };
    let pr = *rng.pick(privs);
    let auth = if kind != 'N' && rng.chance(1, 8) {
        "P"
    } else if kind == 'N' && rng.chance(1, 20) {
        "P"
    } else if rng.chance(2, 3) {
        "C"
    } else {
        "G"
    };
    let efab = if kind == 'L' {
        match rng.below(6) {
            0 => "n".to_string(),
            1 => all[rng.below(all.len() as u64) as usize].to_string(),
            2 => "9".to_string(),
            _ => own.to_string(),
        }
    } else if rng.chance(1, 2) {
        "n".to_string()
    } else {
        // acl_add overwrites whatever index the entry carries
        rng.range(1, 9).to_string()
    };
    // a present-but-empty list can only be made by a TLV round trip of the entry, which maps
    // the privilege through the five-valued enum: not used with raw privilege bits (kind X)
    let empty = if kind == 'X' { "n" } else { "e" };
    let subj = match rng.below(6) {
        0 => "n".to_string(),
        1 => empty.to_string(),
        _ => {
            let n = rng.range(1, 4);
            join(&(0..n).map(|_| rand_subject(rng, p, auth)).collect::<Vec<_>>())
        }
    };
    let targ = match rng.below(6) {
        0 => "n".to_string(),
        1 => empty.to_string(),
        _ => {
            let n = rng.range(1, 3);
            (0..n)
                .map(|_| loop {
                    let ep = if rng.chance(1, 2) { Some(*rng.pick(&p.eps)) } else { None };
                    let cl = if rng.chance(1, 2) { Some(*rng.pick(&p.cls)) } else { None };
                    let dt = if rng.chance(1, 3) { Some(*rng.pick(&p.dts)) } else { None };
                    if ep.is_none() && cl.is_none() && dt.is_none() && rng.chance(3, 4) {
                        continue;
                    }
                    let s = |o: Option<u64>| o.map(|x| x.to_string()).unwrap_or("x".into());
                    break format!("{}.{}.{}", s(ep.map(|x| x as u64)), s(cl.map(|x| x as u64)), s(dt.map(|x| x as u64)));
                })
                .collect::<Vec<_>>()
                .join("/")
        }
    };
    *hist.entry(format!("entry_auth_{auth}")).or_insert(0) += 1;
    *hist.entry(format!("entry_subjects_{}", if subj == "n" { "null" } else if subj == "e" { "empty" } else { "some" })).or_insert(0) += 1;
    *hist.entry(format!("entry_targets_{}", if targ == "n" { "null" } else if targ == "e" { "empty" } else { "some" })).or_insert(0) += 1;
    format!("{pr},{auth},{efab},{subj},{targ}")
}

fn rand_fabrics(rng: &mut Rng, p: &Pools, kind: char, hist: &mut BTreeMap<String, u64>) -> (String, Vec<u8>) {
    let nf = rng.range(0, 5);
    let mut idxs: Vec<u8> = Vec::new();
    let mut next = 1u8;
    for _ in 0..nf {
        if nf <= 4 && rng.chance(1, 4) {
            next += 1;
        }
        idxs.push(next);
        next += 1;
    }
    if idxs.is_empty() {
        return ("-".to_string(), idxs);
    }
    let mut fs = Vec::new();
    for &i in &idxs {
        let ne = rng.range(0, if kind == 'N' { 5 } else { 4 });
        let es: Vec<String> = (0..ne).map(|_| rand_entry(rng, p, kind, i, &idxs, hist)).collect();
        let ng = rng.range(0, 4);
        let mut gids: Vec<u64> = Vec::new();
        let mut gs = Vec::new();
        for _ in 0..ng {
            let gid = *rng.pick(&p.groups);
            if gids.contains(&gid) {
                continue;
            }
            gids.push(gid);
            let mut eps: Vec<u16> = Vec::new();
            for _ in 0..rng.range(0, 3) {
                let e = *rng.pick(&p.eps);
                if !eps.contains(&e) {
                    eps.push(e);
                }
            }
            let aux = *rng.pick(&["n", "0", "1", "1"]);
            gs.push(format!("{gid},{aux},{}", join(&eps)));
        }
        fs.push(format!(
            "{i}:{}:{}",
            if es.is_empty() { "-".to_string() } else { es.join("+") },
            if gs.is_empty() { "-".to_string() } else { gs.join("+") }
        ));
    }
    (fs.join("|"), idxs)
}

fn rand_accessor(rng: &mut Rng, p: &Pools, idxs: &[u8], hist: &mut BTreeMap<String, u64>) -> String {
    let fab = |rng: &mut Rng, zero_ok: bool| -> u8 {
        let k = rng.below(10);
        if k < 6 && !idxs.is_empty() {
            idxs[rng.below(idxs.len() as u64) as usize]
        } else if k < 7 && zero_ok {
            0
        } else if k < 8 {
            255
        } else {
            rng.range(1, 8) as u8
        }
    };
    let aux = rng.below(2);
    let k = rng.below(20);
    let (name, s) = if k < 9 {
        let peer = if rng.chance(1, 10) { "n".to_string() } else { rng.pick(&p.nodes).to_string() };
        let cats: Vec<u32> = (0..3)
            .map(|_| if rng.chance(1, 2) { 0 } else { cat(*rng.pick(&[CAT_A, CAT_B, 0]), rng.below(4) as u32) })
            .collect();
        ("case", format!("SC,{},{peer},{},0,{aux}", fab(rng, false), join(&cats)))
    } else if k < 14 {
        ("group", format!("SG,{},n,0/0/0,{},{aux}", fab(rng, false), rng.pick(&p.groups)))
    } else if k < 15 {
        ("pase", format!("SP,{},n,0/0/0,0,{aux}", fab(rng, true)))
    } else if k < 16 {
        ("plain", format!("ST,0,n,0/0/0,0,{aux}"))
    } else {
        // raw accessor: odd slot contents
        let auth = *rng.pick(&["C", "C", "G", "N", "P"]);
        let s0 = match rng.below(5) {
            0 => 0,
            1 => cat_subject(CAT_A, rng.below(4) as u32),
            2 => 0x1_0000 + G1, // truncates to G1 as a group id
            _ => if auth == "G" { *rng.pick(&p.groups) } else { *rng.pick(&p.nodes) },
        };
        let nc = rng.range(0, 5);
        let cats: Vec<u32> = (0..nc).map(|_| cat(*rng.pick(&[CAT_A, CAT_B, 0]), rng.below(4) as u32)).collect();
        ("raw", format!("R,{},{auth},{s0},{},{aux}", fab(rng, true), join(&cats)))
    };
    *hist.entry(format!("accessor_{name}")).or_insert(0) += 1;
    s
}

fn rand_request(rng: &mut Rng, p: &Pools, kind: char) -> String {
    let ep = if rng.chance(1, 12) { "x".to_string() } else { rng.pick(&p.eps).to_string() };
    let cl = if rng.chance(1, 12) { "x".to_string() } else { rng.pick(&p.cls).to_string() };
    let mut dts: Vec<u32> = Vec::new();
    for _ in 0..rng.below(3) {
        dts.push(*rng.pick(&[D1, D2, 9]));
    }
    let op = if kind == 'X' { *rng.pick(&["16", "32", "48", "0", "80", "33", "288"]) } else { *rng.pick(&["16", "32"]) };
    let perms = if rng.chance(1, 15) {
        "n".to_string()
    } else if rng.chance(1, 2) {
        rng.pick(&DECLS[..11]).to_string()
    } else {
        rng.below(512).to_string()
    };
    format!("{ep}.{cl},{},{op},{perms}", join(&dts))
}

fn generate(tier: &str, seed: u64) -> (Vec<String>, BTreeMap<String, u64>) {
    let thorough = tier == "thorough";
    let mut rng = Rng::new(seed);
    let mut hist: BTreeMap<String, u64> = BTreeMap::new();
    let mut cases = Vec::new();
    let mut id = 0u64;
    let mut next_id = || {
        id += 1;
        id
    };
    let p = pools();

    // --- exhaustive small product: one entry under test in fabric 1 (plus a fixed second
    //     fabric that would grant everything to the same subjects), every accessor x request
    let accs = product_accessors().join(";");
    let reqs = product_requests(thorough).join(";");
    let fab2 = format!("2:15,C,n,n,n+3,G,n,n,n:{G1},1,1/2");
    let groups1 = format!("{G1},1,1+{G2},0,2");
    for pr in [1u8, 3, 7, 15, 16] {
        for auth in ["C", "G"] {
            for s in subject_variants(auth) {
                for t in target_variants() {
                    let e = format!("{pr},{auth},n,{s},{t}");
                    cases.push(format!("A {} N 1:{e}:{groups1}|{fab2} {accs} {reqs}", next_id()));
                    *hist.entry("product_lines".into()).or_insert(0) += 1;
                }
            }
        }
    }
    // the same entry stored with a foreign / missing fabric index (loaded tables)
    for efab in ["n", "2", "9", "1"] {
        for auth in ["C", "G", "P"] {
            for s in ["n", "e"] {
                let e = format!("15,{auth},{efab},{s},n");
                cases.push(format!("A {} L 1:{e}:{groups1}|{fab2} {accs} {reqs}", next_id()));
                *hist.entry("product_loaded_lines".into()).or_insert(0) += 1;
            }
        }
    }
    // no fabric at all / only another fabric
    cases.push(format!("A {} N - {accs} {reqs}", next_id()));
    cases.push(format!("A {} N {fab2} {accs} {reqs}", next_id()));

    // --- random larger tables
    let n_rand = if thorough { 60_000 } else { 10_000 };
    for i in 0..n_rand {
        let kind = match i % 10 {
            0..=4 => 'N',
            5..=7 => 'L',
            _ => 'X',
        };
        let (fabs, idxs) = rand_fabrics(&mut rng, &p, kind, &mut hist);
        let na = rng.range(4, 10);
        let accs: Vec<String> = (0..na).map(|_| rand_accessor(&mut rng, &p, &idxs, &mut hist)).collect();
        let nr = rng.range(6, 14);
        let reqs: Vec<String> = (0..nr).map(|_| rand_request(&mut rng, &p, kind)).collect();
        let mode = if kind == 'L' { "L" } else { "N" };
        *hist.entry(format!("random_lines_{kind}")).or_insert(0) += 1;
        cases.push(format!("A {} {mode} {fabs} {} {}", next_id(), accs.join(";"), reqs.join(";")));
    }
    (cases, hist)
}

fn real_main() {
    let args: Vec<String> = std::env::args().collect();
    match args.get(1).map(|s| s.as_str()) {
        Some("gen") => {
            let tier = &args[2];
            let seed: u64 = args[3].parse().unwrap();
            let outdir = std::path::PathBuf::from(&args[4]);
            std::fs::create_dir_all(&outdir).unwrap();
            let (cases, hist) = generate(tier, seed);
            let mut cf = std::io::BufWriter::new(std::fs::File::create(outdir.join("cases.txt")).unwrap());
            for c in &cases {
                writeln!(cf, "{}", c).unwrap();
            }
            let mut sj = String::from("{");
            for (i, (k, v)) in hist.iter().enumerate() {
                if i > 0 {
                    sj.push(',');
                }
                write!(sj, "\"{}\":{}", k, v).unwrap();
            }
            sj.push('}');
            std::fs::write(outdir.join("stats.json"), sj).unwrap();
        }
        Some("run") => {
            let matter = Matter::new(&TEST_DEV_DET, TEST_DEV_COMM, &TEST_DEV_ATT, 0);
            let text = std::fs::read_to_string(&args[2]).unwrap();
            let mut out = String::new();
            for line in text.lines() {
                run_line(&matter, line, &mut out);
                if out.len() > 1 << 20 {
                    print!("{}", out);
                    out.clear();
                }
            }
            print!("{}", out);
        }
        _ => {
            eprintln!("usage: c05 gen <tier> <seed> <outdir> | c05 run <cases>");
            std::process::exit(2);
        }
    }
}

fn main() {
    // `Matter` is a large value; build it on a roomy stack
    let t = std::thread::Builder::new().stack_size(256 << 20).spawn(real_main).unwrap();
    if t.join().is_err() {
        std::process::exit(101);
    }
}
