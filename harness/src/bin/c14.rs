//! C14 correspondence harness (chunked ReportData answers).
//!
//! usage: c14 gen <quick|thorough> <seed> <outdir>   -> cases.txt, stats.json
//!        c14 run <cases-file>                        -> one line per case from the REAL code
//!        c14 consts                                  -> the buffer constants of this build
//!
//! One case = one synthetic node (clusters with octet-string attributes and lists of octet
//! strings whose lengths are given by the case, plus a queue of events), one request (read or
//! subscribe: attribute paths, data-version filters, event paths, event filters), answered by the
//! crate's own `InteractionModel` running on a real `Matter` instance and fetched by a second
//! real `Matter` instance over the in-memory network of `rsm_harness::e2e`.
//!
//! Case line
//!   R <id> k=<r|s> n=<clusters> q=<attr paths> f=<dataver filters> e=<events> p=<event paths>
//!          m=<event_min filters> lim=<max chunks>
//!     clusters : ';'-separated  <ep>.<cluster>.<dataver>:<attr>=<spec>,<attr>=<spec>...
//!                spec = s<len> (octet string) | l<len>+<len>... (list of octet strings; 'l' = empty list)
//!     paths    : ','-separated  <ep>.<cluster>.<leaf> with '*' as wildcard;  '-' = field absent
//!     filters  : ','-separated  <ep>.<cluster>.<dataver>;  '-' = absent
//!     events   : ','-separated  <ep>.<cluster>.<event>.<priority>.<payload len>.<timestamp ms>
//!     m        : ','-separated event_min values; '-' = absent
//!
//! Output line
//!   R <id> <outcome> n=<chunks> | <chunk>;<chunk>...
//!     chunk = <payload bytes>:<flags>:<attr atoms>:<event atoms>
//!     flags = subset of  i (subscription id) a (attribute array) e (event array) m (MoreChunkedMessages)
//!             s (SuppressResponse) r (revision field)      -- '-' if none
//!     atom  = v<ep>.<cl>.<at>/<bytes>        whole value (scalar or complete list)
//!           | k<ep>.<cl>.<at>/<bytes>        empty-list marker (replace-all)
//!           | x<ep>.<cl>.<at>.<idx>/<bytes>  one appended list element (idx recovered from the content)
//!           | t<ep>.<cl>.<at>.<status>/<bytes>  attribute status
//!           | n<number>/<bytes>              event
//!           | ?...                           anything the decoder does not recognise (never printed by the model)
use core::num::NonZeroU8;
use std::cell::{Cell, RefCell};
use std::rc::Rc;
use std::fmt::Write as _;
use std::io::Write as _;

use embassy_futures::select::{select3, select4, Either3};
use embassy_time::{Duration, Timer};

use rs_matter::acl::{AclEntry, AuthMode};
use rs_matter::crypto::test_only_crypto;
use rs_matter::dm::clusters::net_comm::DummyNetworks;
use rs_matter::dm::AttrChangeNotifier;
use rs_matter::dm::{
    Access, Async, Attribute, Cluster, Endpoint, Event, Handler, InvokeContext, InvokeReply, MatchContext, Metadata,
    Node, NonBlockingHandler, Privilege, Quality, ReadContext, ReadReply, Reply, WriteContext,
};
use rs_matter::error::{Error, ErrorCode};
use rs_matter::im::{
    EventPriority, IMStatusCode, InteractionModel, InteractionModelState, OpCode, StatusResp,
};
use rs_matter::im::events::EVENT_DATA_TAG;
use rs_matter::persist::DummyKvBlobStore;
use rs_matter::respond::Responder;
use rs_matter::tlv::{TLVTag, TLVWrite};
use rs_matter::transport::exchange::{Exchange, MatterBuffers, MAX_EXCHANGE_TX_BUF_SIZE};
use rs_matter::transport::network::{NoNetwork, MAX_TX_PACKET_SIZE};
use rs_matter::utils::select::Coalesce;
use rs_matter::utils::storage::WriteBuf;

use rsm_harness::e2e::{self, Net};
use rsm_harness::Rng;

const A: u16 = 1; // client
const B: u16 = 2; // device under test
const A_NODE: u64 = 0x1111;
const B_NODE: u64 = 0x2222;
const EVENTS_BUF: usize = 8192;
/// the amount the responder keeps back for the closing containers (im.rs LONG_READS_TLV_RESERVE_SIZE)
const RESERVE: usize = 24;

// ------------------------------------------------------------------ case

#[derive(Clone, Debug)]
enum Spec {
    Scalar(usize),
    List(Vec<usize>),
}

#[derive(Clone, Debug)]
struct ClusterSpec {
    ep: u16,
    id: u32,
    dv: u32,
    attrs: Vec<(u32, Spec)>,
}

#[derive(Clone, Debug)]
struct EventSpec {
    ep: u16,
    cl: u32,
    ev: u32,
    prio: u8,
    len: usize,
    ts: u64,
}

type Path = (Option<u16>, Option<u32>, Option<u32>);

#[derive(Clone, Debug)]
struct Case {
    id: String,
    subscribe: bool,
    clusters: Vec<ClusterSpec>,
    attr_paths: Option<Vec<Path>>,
    dv_filters: Option<Vec<(u16, u32, u32)>>,
    events: Vec<EventSpec>,
    event_paths: Option<Vec<Path>>,
    event_mins: Option<Vec<u64>>,
    limit: usize,
    /// k=u: after the subscription is primed, `changes` are notified and `events2` pushed; the measured
    /// interaction is the report the device sends on its own
    update: bool,
    changes: Vec<(u16, u32, Option<u32>)>,
    events2: Vec<EventSpec>,
    /// the peer's behaviour towards the measured interaction
    peer: Peer,
}

/// What the client does with chunk number k (1-based) of the measured interaction, provided that
/// chunk announces more: answer it with a non-Success status, or stop talking altogether.
#[derive(Clone, Copy, Debug, PartialEq)]
enum Peer {
    Accept,
    Refuse(usize),
    Silent(usize),
}

fn parse_opt<T: std::str::FromStr>(s: &str) -> Option<T> {
    if s == "*" {
        None
    } else {
        s.parse().ok()
    }
}

fn parse_paths(s: &str) -> Option<Vec<Path>> {
    if s == "-" {
        return None;
    }
    Some(
        s.split(',')
            .filter(|x| !x.is_empty())
            .map(|p| {
                let f: Vec<&str> = p.split('.').collect();
                (parse_opt(f[0]), parse_opt(f[1]), parse_opt(f[2]))
            })
            .collect(),
    )
}

fn parse_case(line: &str) -> Case {
    let f: Vec<&str> = line.split(' ').collect();
    let mut c = Case {
        id: f[1].to_string(),
        subscribe: false,
        clusters: vec![],
        attr_paths: None,
        dv_filters: None,
        events: vec![],
        event_paths: None,
        event_mins: None,
        limit: 40,
        update: false,
        changes: vec![],
        events2: vec![],
        peer: Peer::Accept,
    };
    for kv in &f[2..] {
        let Some((k, v)) = kv.split_once('=') else { continue };
        match k {
            "k" => {
                c.subscribe = v == "s" || v == "u";
                c.update = v == "u";
            }
            "c" => {
                if v != "-" {
                    for ch in v.split(',').filter(|x| !x.is_empty()) {
                        let f: Vec<&str> = ch.split('.').collect();
                        c.changes.push((f[0].parse().unwrap(), f[1].parse().unwrap(), parse_opt(f[2])));
                    }
                }
            }
            "ab" => {
                c.peer = match v.as_bytes().first() {
                    Some(b'f') => Peer::Refuse(v[1..].parse().unwrap()),
                    Some(b'x') => Peer::Silent(v[1..].parse().unwrap()),
                    _ => Peer::Accept,
                }
            }
            "n" => {
                for cl in v.split(';').filter(|x| !x.is_empty()) {
                    let (head, attrs) = cl.split_once(':').unwrap();
                    let h: Vec<&str> = head.split('.').collect();
                    let mut cs = ClusterSpec {
                        ep: h[0].parse().unwrap(),
                        id: h[1].parse().unwrap(),
                        dv: h[2].parse().unwrap(),
                        attrs: vec![],
                    };
                    for a in attrs.split(',').filter(|x| !x.is_empty()) {
                        let (id, spec) = a.split_once('=').unwrap();
                        let spec = if let Some(n) = spec.strip_prefix('s') {
                            Spec::Scalar(n.parse().unwrap())
                        } else {
                            Spec::List(
                                spec[1..]
                                    .split('+')
                                    .filter(|x| !x.is_empty())
                                    .map(|x| x.parse().unwrap())
                                    .collect(),
                            )
                        };
                        cs.attrs.push((id.parse().unwrap(), spec));
                    }
                    c.clusters.push(cs);
                }
            }
            "q" => c.attr_paths = parse_paths(v),
            "f" => {
                if v != "-" {
                    c.dv_filters = Some(
                        v.split(',')
                            .filter(|x| !x.is_empty())
                            .map(|p| {
                                let f: Vec<&str> = p.split('.').collect();
                                (f[0].parse().unwrap(), f[1].parse().unwrap(), f[2].parse().unwrap())
                            })
                            .collect(),
                    )
                }
            }
            "e" | "e2" => {
                if v != "-" {
                    for e in v.split(',').filter(|x| !x.is_empty()) {
                        let f: Vec<&str> = e.split('.').collect();
                        let list = if k == "e" { &mut c.events } else { &mut c.events2 };
                        list.push(EventSpec {
                            ep: f[0].parse().unwrap(),
                            cl: f[1].parse().unwrap(),
                            ev: f[2].parse().unwrap(),
                            prio: f[3].parse().unwrap(),
                            len: f[4].parse().unwrap(),
                            ts: f[5].parse().unwrap(),
                        });
                    }
                }
            }
            "p" => c.event_paths = parse_paths(v),
            "m" => {
                if v != "-" {
                    c.event_mins = Some(v.split(',').filter(|x| !x.is_empty()).map(|x| x.parse().unwrap()).collect())
                }
            }
            "lim" => c.limit = v.parse().unwrap(),
            _ => {}
        }
    }
    c
}

/// the content of value (cluster, attribute, element index): recognisable and cheap
fn fill(ep: u16, cl: u32, at: u32, idx: usize, len: usize) -> Vec<u8> {
    let seed = (ep as u32)
        .wrapping_mul(17)
        .wrapping_add(cl.wrapping_mul(7))
        .wrapping_add(at.wrapping_mul(13))
        .wrapping_add((idx as u32).wrapping_mul(29));
    (0..len).map(|j| (seed.wrapping_add(j as u32 * 3) & 0xff) as u8).collect()
}

fn event_fill(num: u64, len: usize) -> Vec<u8> {
    (0..len).map(|j| ((num as usize * 11 + j * 5) & 0xff) as u8).collect()
}

// ------------------------------------------------------------------ synthetic node

struct Synth {
    clusters: Vec<ClusterSpec>,
    /// the current data version of each cluster: starts at the case's value, +1 (wrapping) per notified change
    dvs: RefCell<Vec<u32>>,
    node: &'static Node<'static>,
}

const EVENTS_META: &[Event] = &[
    Event::new(1, Access::RV),
    Event::new(2, Access::RV),
    Event::new(3, Access::RV),
];

impl Synth {
    fn new(clusters: &[ClusterSpec]) -> Self {
        // endpoints in strictly increasing order, clusters in the order of the case
        let mut eps: Vec<u16> = clusters.iter().map(|c| c.ep).collect();
        eps.sort();
        eps.dedup();
        let mut endpoints = Vec::new();
        for ep in eps {
            let mut cls = Vec::new();
            for c in clusters.iter().filter(|c| c.ep == ep) {
                let attrs: Vec<Attribute> = c
                    .attrs
                    .iter()
                    .map(|(id, s)| {
                        Attribute::new(
                            *id,
                            Access::RV,
                            match s {
                                Spec::Scalar(_) => Quality::NONE,
                                Spec::List(_) => Quality::A,
                            },
                        )
                    })
                    .collect();
                let attrs: &'static [Attribute] = Box::leak(attrs.into_boxed_slice());
                cls.push(Cluster::new(
                    c.id,
                    1,
                    0,
                    attrs,
                    &[],
                    EVENTS_META,
                    |_, _, _| true,
                    |_, _, _| true,
                    |_, _, _| true,
                ));
            }
            let cls: &'static [Cluster<'static>] = Box::leak(cls.into_boxed_slice());
            endpoints.push(Endpoint::new(ep, &[], cls));
        }
        let endpoints: &'static [Endpoint<'static>] = Box::leak(endpoints.into_boxed_slice());
        let node: &'static Node<'static> = Box::leak(Box::new(Node::new(endpoints)));
        Synth {
            clusters: clusters.to_vec(),
            dvs: RefCell::new(clusters.iter().map(|c| c.dv).collect()),
            node,
        }
    }

    fn bump(&self, ctx: impl MatchContext) {
        let (ep, cl) = (ctx.endpt(), ctx.cluster());
        let mut dvs = self.dvs.borrow_mut();
        for (i, c) in self.clusters.iter().enumerate() {
            if ep.map(|e| e == c.ep).unwrap_or(true) && cl.map(|x| x == c.id).unwrap_or(true) {
                dvs[i] = dvs[i].wrapping_add(1);
            }
        }
    }
}

impl Handler for Synth {
    fn read(&self, ctx: impl ReadContext, reply: impl ReadReply) -> Result<(), Error> {
        let attr = ctx.attr();
        let ci = self
            .clusters
            .iter()
            .position(|c| c.ep == attr.endpoint_id && c.id == attr.cluster_id)
            .ok_or(ErrorCode::ClusterNotFound)?;
        let cl = &self.clusters[ci];
        let dataver = self.dvs.borrow()[ci];
        let (_, spec) = cl
            .attrs
            .iter()
            .find(|(id, _)| *id == attr.attr_id)
            .ok_or(ErrorCode::AttributeNotFound)?;
        let Some(mut writer) = reply.with_dataver(dataver)? else {
            return Ok(());
        };
        let list_index = attr.list_index.clone().map(|li| li.into_option());
        let tag = writer.tag();
        match spec {
            Spec::Scalar(len) => {
                writer
                    .writer()
                    .str(tag, &fill(cl.ep, cl.id, attr.attr_id, 0, *len))?;
            }
            Spec::List(lens) => {
                let mut tw = writer.writer();
                match list_index {
                    None => {
                        tw.start_array(tag)?;
                        for (i, len) in lens.iter().enumerate() {
                            tw.str(&TLVTag::Anonymous, &fill(cl.ep, cl.id, attr.attr_id, i, *len))?;
                        }
                        tw.end_container()?;
                    }
                    Some(None) => {
                        tw.start_array(tag)?;
                        tw.end_container()?;
                    }
                    Some(Some(i)) => {
                        let len = lens.get(i as usize).ok_or(ErrorCode::ConstraintError)?;
                        tw.str(tag, &fill(cl.ep, cl.id, attr.attr_id, i as usize, *len))?;
                    }
                }
            }
        }
        writer.complete()
    }

    fn write(&self, _ctx: impl WriteContext) -> Result<(), Error> {
        Err(ErrorCode::AttributeNotFound.into())
    }

    fn invoke(&self, _ctx: impl InvokeContext, _reply: impl InvokeReply) -> Result<(), Error> {
        Err(ErrorCode::CommandNotFound.into())
    }

    fn bump_dataver(&self, ctx: impl MatchContext) {
        self.bump(ctx)
    }
}

impl NonBlockingHandler for Synth {}

struct SynthDm<'a>(Async<&'a Synth>, &'a Synth);

impl Metadata for SynthDm<'_> {
    fn access<F, R>(&self, f: F) -> R
    where
        F: FnOnce(&Node<'_>) -> R,
    {
        f(self.1.node)
    }
}

impl rs_matter::dm::AsyncHandler for SynthDm<'_> {
    fn read_awaits(&self, _ctx: impl ReadContext) -> bool {
        false
    }
    fn write_awaits(&self, _ctx: impl WriteContext) -> bool {
        false
    }
    fn invoke_awaits(&self, _ctx: impl InvokeContext) -> bool {
        false
    }
    async fn read(&self, ctx: impl ReadContext, reply: impl ReadReply) -> Result<(), Error> {
        rs_matter::dm::AsyncHandler::read(&self.0, ctx, reply).await
    }
    fn bump_dataver(&self, ctx: impl MatchContext) {
        self.1.bump(ctx)
    }
}

// ------------------------------------------------------------------ request encoding

fn write_path(wb: &mut WriteBuf<'_>, p: &Path, first_tag: u8) -> Result<(), Error> {
    // AttributePathIB: endpoint = 2, cluster = 3, attribute = 4; EventPathIB: endpoint = 1, cluster = 2, event = 3
    wb.start_list(&TLVTag::Anonymous)?;
    if let Some(ep) = p.0 {
        wb.u16(&TLVTag::Context(first_tag), ep)?;
    }
    if let Some(cl) = p.1 {
        wb.u32(&TLVTag::Context(first_tag + 1), cl)?;
    }
    if let Some(leaf) = p.2 {
        wb.u32(&TLVTag::Context(first_tag + 2), leaf)?;
    }
    wb.end_container()
}

fn build_request(c: &Case, buf: &mut [u8]) -> Result<usize, Error> {
    let mut wb = WriteBuf::new(buf);
    // tags: read = (0 attrs, 1 events, 2 event filters, 3 fabric filtered, 4 dataver filters)
    //       subscribe = (0 keep, 1 min, 2 max, 3 attrs, 4 events, 5 event filters, 7 fabric filtered, 8 dataver filters)
    let (t_attr, t_ev, t_evf, t_ff, t_dvf) = if c.subscribe { (3, 4, 5, 7, 8) } else { (0, 1, 2, 3, 4) };
    wb.start_struct(&TLVTag::Anonymous)?;
    if c.subscribe {
        wb.bool(&TLVTag::Context(0), true)?;
        // min interval floor: 0 for the report cases, so that the report follows the change at once
        wb.u16(&TLVTag::Context(1), if c.update { 0 } else { 1 })?;
        wb.u16(&TLVTag::Context(2), 100)?;
    }
    if let Some(paths) = &c.attr_paths {
        wb.start_array(&TLVTag::Context(t_attr))?;
        for p in paths {
            write_path(&mut wb, p, 2)?;
        }
        wb.end_container()?;
    }
    if let Some(paths) = &c.event_paths {
        wb.start_array(&TLVTag::Context(t_ev))?;
        for p in paths {
            write_path(&mut wb, p, 1)?;
        }
        wb.end_container()?;
    }
    if let Some(mins) = &c.event_mins {
        wb.start_array(&TLVTag::Context(t_evf))?;
        for m in mins {
            wb.start_struct(&TLVTag::Anonymous)?;
            wb.u64(&TLVTag::Context(1), *m)?;
            wb.end_container()?;
        }
        wb.end_container()?;
    }
    wb.bool(&TLVTag::Context(t_ff), false)?;
    if let Some(fs) = &c.dv_filters {
        wb.start_array(&TLVTag::Context(t_dvf))?;
        for (ep, cl, dv) in fs {
            wb.start_struct(&TLVTag::Anonymous)?;
            wb.start_list(&TLVTag::Context(0))?;
            wb.u16(&TLVTag::Context(1), *ep)?;
            wb.u32(&TLVTag::Context(2), *cl)?;
            wb.end_container()?;
            wb.u32(&TLVTag::Context(1), *dv)?;
            wb.end_container()?;
        }
        wb.end_container()?;
    }
    wb.u8(&TLVTag::Context(0xff), 13)?;
    wb.end_container()?;
    Ok(wb.get_tail())
}

// ------------------------------------------------------------------ strict stand-alone TLV walker

#[derive(Debug, Clone)]
struct El {
    tag: Option<u8>, // None = anonymous; only anonymous and context tags are legal here
    ty: u8,          // element type (low 5 bits of the control byte)
    start: usize,
    end: usize, // one past the last byte of the element (incl. end-of-container)
    uint: u64,
    bytes: (usize, usize),
    kids: Vec<El>,
}

/// Parses exactly one element at `pos`; `Err` on anything malformed / truncated / unknown.
fn walk(b: &[u8], pos: usize, depth: usize) -> Result<El, String> {
    if depth > 12 {
        return Err("too deep".into());
    }
    let ctl = *b.get(pos).ok_or("truncated control")?;
    let ty = ctl & 0x1f;
    let tagc = ctl >> 5;
    let mut p = pos + 1;
    let tag = match tagc {
        0 => None,
        1 => {
            let t = *b.get(p).ok_or("truncated tag")?;
            p += 1;
            Some(t)
        }
        _ => return Err(format!("unexpected tag control {}", tagc)),
    };
    let mut el = El {
        tag,
        ty,
        start: pos,
        end: 0,
        uint: 0,
        bytes: (0, 0),
        kids: vec![],
    };
    match ty {
        0x00..=0x07 => {
            let n = 1usize << (ty & 3);
            let v = b.get(p..p + n).ok_or("truncated int")?;
            let mut x = 0u64;
            for (i, by) in v.iter().enumerate() {
                x |= (*by as u64) << (8 * i);
            }
            el.uint = x;
            p += n;
        }
        0x08 | 0x09 => {
            el.uint = (ty & 1) as u64;
        }
        0x0a => p += 4,
        0x0b => p += 8,
        0x0c..=0x13 => {
            let n = 1usize << (ty & 3);
            let v = b.get(p..p + n).ok_or("truncated length")?;
            let mut x = 0u64;
            for (i, by) in v.iter().enumerate() {
                x |= (*by as u64) << (8 * i);
            }
            p += n;
            let l = x as usize;
            if b.len() < p || b.len() - p < l {
                return Err("truncated string".into());
            }
            el.bytes = (p, p + l);
            p += l;
        }
        0x14 => {}
        0x15..=0x17 => loop {
            let c = *b.get(p).ok_or("unterminated container")?;
            if c == 0x18 {
                p += 1;
                break;
            }
            let k = walk(b, p, depth + 1)?;
            if ty == 0x16 && k.tag.is_some() {
                return Err("tagged element in array".into());
            }
            if ty == 0x15 && k.tag.is_none() {
                return Err("anonymous element in struct".into());
            }
            p = k.end;
            el.kids.push(k);
        },
        _ => return Err(format!("bad element type {:#x}", ty)),
    }
    if p > b.len() {
        return Err("truncated".into());
    }
    el.end = p;
    Ok(el)
}

fn kid(e: &El, tag: u8) -> Option<&El> {
    e.kids.iter().find(|k| k.tag == Some(tag))
}

// ------------------------------------------------------------------ chunk decoding

fn find_value(c: &Case, ep: u16, cl: u32, at: u32) -> Option<&Spec> {
    c.clusters
        .iter()
        .find(|x| x.ep == ep && x.id == cl)
        .and_then(|x| x.attrs.iter().find(|(id, _)| *id == at))
        .map(|(_, s)| s)
}

fn decode_path(p: &El) -> Option<(u16, u32, u32, Option<bool>)> {
    // list: 2 endpoint, 3 cluster, 4 attribute, 5 list index (null only)
    if p.ty != 0x17 {
        return None;
    }
    let ep = kid(p, 2)?.uint as u16;
    let cl = kid(p, 3)?.uint as u32;
    let at = kid(p, 4)?.uint as u32;
    let li = kid(p, 5).map(|k| k.ty == 0x14);
    if p.kids.iter().any(|k| !matches!(k.tag, Some(2..=5))) {
        return None;
    }
    Some((ep, cl, at, li))
}

/// One AttributeReportIB -> atom text
fn decode_attr_report(c: &Case, b: &[u8], r: &El, next_idx: &mut std::collections::BTreeMap<(u16, u32, u32), usize>) -> String {
    let sz = r.end - r.start;
    let bad = |why: &str| format!("?attr-{}/{}", why, sz);
    if r.ty != 0x15 || r.kids.len() != 1 {
        return bad("shape");
    }
    let body = &r.kids[0];
    match body.tag {
        Some(0) => {
            // AttributeStatusIB { 0: path, 1: StatusIB { 0: status, 1: cluster status } }
            let (Some(p), Some(st)) = (kid(body, 0), kid(body, 1)) else { return bad("status-shape") };
            let Some((ep, cl, at, _)) = decode_path(p) else { return bad("status-path") };
            let code = kid(st, 0).map(|k| k.uint).unwrap_or(9999);
            format!("t{}.{}.{}.{}/{}", ep, cl, at, code, sz)
        }
        Some(1) => {
            let (Some(dv), Some(p), Some(d)) = (kid(body, 0), kid(body, 1), kid(body, 2)) else { return bad("data-shape") };
            if body.kids.len() != 3 {
                return bad("data-extra");
            }
            let Some((ep, cl, at, li)) = decode_path(p) else { return bad("data-path") };
            let Some(cs) = c.clusters.iter().find(|x| x.ep == ep && x.id == cl) else { return bad("unknown-cluster") };
            if dv.uint as u32 != cs.dv {
                return bad("dataver");
            }
            let Some(spec) = find_value(c, ep, cl, at) else { return bad("unknown-attr") };
            match (spec, li, d.ty) {
                (Spec::Scalar(len), None, 0x10..=0x13) => {
                    if b[d.bytes.0..d.bytes.1] == fill(ep, cl, at, 0, *len)[..] {
                        format!("v{}.{}.{}/{}", ep, cl, at, sz)
                    } else {
                        bad("content")
                    }
                }
                (Spec::List(lens), None, 0x16) => {
                    if d.kids.is_empty() && !lens.is_empty() {
                        // the empty-list marker of a streamed list (a genuinely empty list is a whole value)
                        next_idx.insert((ep, cl, at), 0);
                        return format!("k{}.{}.{}/{}", ep, cl, at, sz);
                    }
                    let ok = d.kids.len() == lens.len()
                        && d.kids.iter().enumerate().all(|(i, k)| {
                            matches!(k.ty, 0x10..=0x13) && b[k.bytes.0..k.bytes.1] == fill(ep, cl, at, i, lens[i])[..]
                        });
                    if ok {
                        format!("v{}.{}.{}/{}", ep, cl, at, sz)
                    } else {
                        bad("list-content")
                    }
                }
                (Spec::List(lens), Some(true), 0x10..=0x13) => {
                    // appended element: which one it is, is recovered from its content
                    let got = &b[d.bytes.0..d.bytes.1];
                    let want = next_idx.get(&(ep, cl, at)).copied();
                    let mut idx = None;
                    if let Some(w) = want {
                        if w < lens.len() && got == &fill(ep, cl, at, w, lens[w])[..] {
                            idx = Some(w);
                        }
                    }
                    if idx.is_none() {
                        idx = (0..lens.len()).find(|i| got == &fill(ep, cl, at, *i, lens[*i])[..]);
                    }
                    match idx {
                        Some(i) => {
                            next_idx.insert((ep, cl, at), i + 1);
                            format!("x{}.{}.{}.{}/{}", ep, cl, at, i, sz)
                        }
                        None => bad("elem-content"),
                    }
                }
                _ => bad("kind"),
            }
        }
        _ => bad("tag"),
    }
}

fn decode_event_report(b: &[u8], r: &El) -> String {
    let sz = r.end - r.start;
    let bad = |why: &str| format!("?event-{}/{}", why, sz);
    if r.ty != 0x15 || r.kids.len() != 1 {
        return bad("shape");
    }
    let body = &r.kids[0];
    match body.tag {
        Some(1) => {
            // EventDataIB { 0 path, 1 number, 2 priority, 4 system timestamp, 7 data }
            let (Some(_p), Some(n), Some(_pr), Some(d)) = (kid(body, 0), kid(body, 1), kid(body, 2), kid(body, 7)) else {
                return bad("data-shape");
            };
            if !matches!(d.ty, 0x10..=0x13) || b[d.bytes.0..d.bytes.1] != event_fill(n.uint, d.bytes.1 - d.bytes.0)[..] {
                return bad("content");
            }
            format!("n{}/{}", n.uint, sz)
        }
        Some(0) => {
            let code = kid(body, 1).and_then(|s| kid(s, 0)).map(|k| k.uint).unwrap_or(9999);
            format!("u{}/{}", code, sz)
        }
        _ => bad("tag"),
    }
}

struct Chunk {
    text: String,
}

fn decode_chunk(c: &Case, b: &[u8], next_idx: &mut std::collections::BTreeMap<(u16, u32, u32), usize>) -> Chunk {
    let mut flags = String::new();
    let mut attrs = Vec::new();
    let mut events = Vec::new();
    let mut more = false;
    let mut suppress = false;
    let mut problem = None;
    match walk(b, 0, 0) {
        Ok(root) if root.end == b.len() && root.ty == 0x15 && root.tag.is_none() => {
            // fields must come in the order of the ReportDataMessage definition
            let mut last = -1i32;
            for k in &root.kids {
                let t = k.tag.unwrap() as i32;
                if t <= last {
                    problem = Some("field-order");
                }
                last = t;
                match (k.tag, k.ty) {
                    (Some(0), 0x04..=0x07) => {
                        flags.push('i');
                        flags.push_str(&(1usize << (k.ty & 3)).to_string());
                    }
                    (Some(1), 0x16) => {
                        flags.push('a');
                        for r in &k.kids {
                            attrs.push(decode_attr_report(c, b, r, next_idx));
                        }
                    }
                    (Some(2), 0x16) => {
                        flags.push('e');
                        for r in &k.kids {
                            events.push(decode_event_report(b, r));
                        }
                    }
                    (Some(3), 0x08 | 0x09) => {
                        if k.uint == 1 {
                            flags.push('m');
                            more = true;
                        } else {
                            flags.push('M');
                        }
                    }
                    (Some(4), 0x08 | 0x09) => {
                        if k.uint == 1 {
                            flags.push('s');
                            suppress = true;
                        } else {
                            flags.push('S');
                        }
                    }
                    (Some(0xff), 0x04) => flags.push('r'),
                    _ => problem = Some("unknown-field"),
                }
            }
        }
        Ok(_) => problem = Some("not-one-anonymous-struct"),
        Err(_) => problem = Some("malformed-tlv"),
    }
    // second opinion: the crate's own parser must accept the chunk as a ReportDataMessage
    {
        use rs_matter::im::ReportDataResp;
        use rs_matter::tlv::{FromTLV, TLVElement};
        match ReportDataResp::from_tlv(&TLVElement::new(b)) {
            Ok(r) => {
                if r.more_chunks.unwrap_or(false) != more || r.suppress_response.unwrap_or(false) != suppress {
                    problem = problem.or(Some("parsers-disagree"));
                }
                let n_a = r.attr_reports.as_ref().map(|a| a.iter().filter(|x| x.is_ok()).count()).unwrap_or(0);
                let n_e = r.event_reports.as_ref().map(|a| a.iter().filter(|x| x.is_ok()).count()).unwrap_or(0);
                if n_a != attrs.len() || n_e != events.len() {
                    problem = problem.or(Some("parsers-disagree-count"));
                }
            }
            Err(_) => problem = problem.or(Some("crate-parser-rejects")),
        }
    }
    if let Some(p) = problem {
        attrs.push(format!("?chunk-{}/{}", p, b.len()));
    }
    if flags.is_empty() {
        flags.push('-');
    }
    Chunk {
        text: format!("{}:{}:{}:{}", b.len(), flags, attrs.join(","), events.join(",")),
    }
}

// ------------------------------------------------------------------ one case on the real code

fn err_class(e: &Error) -> String {
    match e.code() {
        ErrorCode::TxTimeout => "txtimeout".into(),
        ErrorCode::RxTimeout => "rxtimeout".into(),
        ErrorCode::NoSession => "nosession".into(),
        ErrorCode::NoExchange => "noexchange".into(),
        c => format!("{:?}", c).to_lowercase(),
    }
}

/// One interaction as the client sees it: takes the ReportData chunks arriving on `ex`, answers each of them
/// as `peer` prescribes, and stops after the chunk that does not announce another one.
async fn collect(
    ex: &mut Exchange<'_>,
    chunks: &RefCell<Vec<Vec<u8>>>,
    tail: &RefCell<String>,
    limit: usize,
    peer: Peer,
    mute: &Cell<bool>,
) -> Result<&'static str, Error> {
    loop {
        let (more, suppress) = {
            let rx = ex.recv().await?;
            let opcode = rx.meta().proto_opcode;
            if opcode == OpCode::StatusResponse as u8 {
                // the responder answered with an error status instead of data
                use rs_matter::tlv::{FromTLV, TLVElement};
                let st = StatusResp::from_tlv(&TLVElement::new(rx.payload())).map(|s| s.status as u32).unwrap_or(9999);
                *tail.borrow_mut() = format!("status:{}", st);
                drop(rx);
                ex.acknowledge().await?;
                return Ok("status");
            }
            if opcode != OpCode::ReportData as u8 {
                *tail.borrow_mut() = format!("opcode:{}", opcode);
                return Ok("unexpected-opcode");
            }
            let p = rx.payload().to_vec();
            let (mut more, mut suppress) = (false, false);
            if let Ok(root) = walk(&p, 0, 0) {
                more = kid(&root, 3).map(|k| k.uint == 1).unwrap_or(false);
                suppress = kid(&root, 4).map(|k| k.uint == 1).unwrap_or(false);
            }
            chunks.borrow_mut().push(p);
            (more, suppress)
        };
        let number = chunks.borrow().len();
        if more {
            match peer {
                Peer::Refuse(k) if k == number => {
                    ex.send_with(|_, wb| {
                        StatusResp::write(wb, IMStatusCode::Failure)?;
                        Ok(Some(OpCode::StatusResponse.into()))
                    })
                    .await?;
                    return Ok("aborted");
                }
                Peer::Silent(k) if k == number => {
                    // from now on nothing of the client reaches the device: no answer, no acknowledgement
                    mute.set(true);
                    return Ok("aborted");
                }
                _ => {}
            }
        }
        if more && number >= limit {
            // bound the run: refuse to continue
            ex.send_with(|_, wb| {
                StatusResp::write(wb, IMStatusCode::Failure)?;
                Ok(Some(OpCode::StatusResponse.into()))
            })
            .await?;
            return Ok("limit");
        }
        if more || !suppress {
            ex.send_with(|_, wb| {
                StatusResp::write(wb, IMStatusCode::Success)?;
                Ok(Some(OpCode::StatusResponse.into()))
            })
            .await?;
        } else {
            ex.acknowledge().await?;
        }
        if !more {
            return Ok("done");
        }
    }
}

fn run_case(c: &Case, hang_ms: u64) -> String {
    let mute = Rc::new(Cell::new(false));
    let net = {
        let mute = mute.clone();
        Net::new(move |src, _, _, _| if src == A && mute.get() { e2e::Action::Drop } else { e2e::Action::Deliver })
    };
    let crypto = test_only_crypto();
    // short MRP intervals: an abandoned exchange is noticed in tens of milliseconds
    let det = e2e::dev_det(Some(40), Some(40));
    let matter_a = e2e::new_matter(det, true);
    let matter_b = e2e::new_matter(det, true);
    e2e::preset_case_session(&matter_a, &crypto, A_NODE, B_NODE, 1, 2, e2e::node_addr(B), 1, Default::default()).unwrap();
    e2e::preset_case_session(&matter_b, &crypto, B_NODE, A_NODE, 2, 1, e2e::node_addr(A), 1, Default::default()).unwrap();
    {
        let mut acl = AclEntry::new(None, Privilege::ADMIN, AuthMode::Case);
        acl.add_subject(A_NODE).unwrap();
        matter_b.with_state(|state| {
            state.fabrics.fabric_mut(NonZeroU8::new(1).unwrap()).unwrap().acl_add(acl).unwrap();
        });
    }
    let (a_tx, a_rx) = net.attach(A);
    let (b_tx, b_rx) = net.attach(B);

    let synth = Synth::new(&c.clusters);
    let buffers: Box<MatterBuffers> = Box::new(MatterBuffers::new());
    let state: Box<InteractionModelState<DummyNetworks, 3, EVENTS_BUF>> = Box::new(InteractionModelState::new(DummyNetworks));
    state.suppress_start_up_event();
    let kv = matter_b.kv(DummyKvBlobStore);
    // events: pushed with the timestamps of the case (hook: the encoded width of the timestamp is part of the size)
    let push_events = |list: &[EventSpec], first: u64| -> Result<(), Error> {
        for (i, e) in list.iter().enumerate() {
            let prio = match e.prio {
                0 => EventPriority::Debug,
                1 => EventPriority::Info,
                _ => EventPriority::Critical,
            };
            let num = first + i as u64;
            state.events().verif_push_at(e.ep, e.cl, e.ev, prio, e.ts, &kv, |mut tw| {
                tw.str(&EVENT_DATA_TAG, &event_fill(num, e.len))
            })?;
        }
        Ok(())
    };
    if let Err(err) = push_events(&c.events, 1) {
        return format!("R {} setup-err:{} n=0 |", c.id, err_class(&err));
    }
    let dm = InteractionModel::new(&matter_b, &crypto, &*buffers, SynthDm(Async(&synth), &synth), &kv, &*state);
    let responder = Responder::new_default(&dm);

    let mut req = vec![0u8; 1024];
    let req_len = match build_request(c, &mut req) {
        Ok(n) => n,
        Err(_) => return format!("R {} request-too-long n=0 |", c.id),
    };
    req.truncate(req_len);

    let first: RefCell<Vec<Vec<u8>>> = RefCell::new(Vec::new()); // the request's own answer (priming for k=u)
    let report: RefCell<Vec<Vec<u8>>> = RefCell::new(Vec::new()); // k=u: the report
    let again: RefCell<Vec<Vec<u8>>> = RefCell::new(Vec::new()); // the same request once more after a refusal
    let tail: RefCell<String> = RefCell::new(String::new());
    let tail2: RefCell<String> = RefCell::new(String::new());
    let next_outcome: RefCell<Option<String>> = RefCell::new(None);
    let subs_left: Cell<Option<usize>> = Cell::new(None);
    let limit = c.limit;
    let subscribe = c.subscribe;

    let outcome = e2e::block_on(async {
        let device = select4(
            matter_b.run(&crypto, b_tx, b_rx, NoNetwork),
            responder.run::<2>(),
            dm.run(),
            matter_a.run(&crypto, a_tx, a_rx, NoNetwork),
        )
        .coalesce();

        // the request and its answer; for a subscription also the SubscribeResponse
        macro_rules! request {
            ($chunks:expr, $tail:expr, $peer:expr) => {
                async {
                    let mut ex = Exchange::initiate(&matter_a, &crypto, NonZeroU8::new(1).unwrap(), B_NODE).await?;
                    let op = if subscribe { OpCode::SubscribeRequest } else { OpCode::ReadRequest };
                    ex.send(op, &req).await?;
                    let r = collect(&mut ex, $chunks, $tail, limit, $peer, &mute).await?;
                    if r == "done" && subscribe {
                        let rx = ex.recv().await?;
                        let opcode = rx.meta().proto_opcode;
                        if opcode != OpCode::SubscribeResponse as u8 {
                            *$tail.borrow_mut() = format!("opcode:{}", opcode);
                            return Ok::<&'static str, Error>("no-subscribe-response");
                        }
                        drop(rx);
                        ex.acknowledge().await?;
                    }
                    Ok(r)
                }
            };
        }

        let client = async {
            if !c.update {
                let r = request!(&first, &tail, c.peer).await?;
                if r == "aborted" && matches!(c.peer, Peer::Refuse(_)) {
                    // the next interaction: the same request, and a peer that answers
                    let r2 = request!(&again, &tail2, Peer::Accept).await?;
                    *next_outcome.borrow_mut() = Some(r2.to_string());
                }
                return Ok::<&'static str, Error>(r);
            }

            // k=u: prime the subscription, change things, take the report the device sends on its own
            let r = request!(&first, &tail, Peer::Accept).await?;
            if r != "done" {
                return Ok("priming-failed");
            }
            Timer::after(Duration::from_millis(5)).await;
            for (ep, cl, at) in &c.changes {
                match at {
                    Some(at) => dm.notify_attr_changed(*ep, *cl, *at),
                    None => dm.notify_cluster_changed(*ep, *cl),
                }
            }
            if !c.events2.is_empty() {
                push_events(&c.events2, c.events.len() as u64 + 1)?;
                let e = &c.events2[0];
                state.subscriptions().notify_event_emitted(e.ep, e.cl, e.ev);
            }
            let accepted = embassy_futures::select::select(
                Exchange::accept(&matter_a),
                Timer::after(Duration::from_millis(120)),
            )
            .await;
            let r = match accepted {
                embassy_futures::select::Either::First(ex) => {
                    let mut ex = ex?;
                    collect(&mut ex, &report, &tail, limit, c.peer, &mute).await?
                }
                embassy_futures::select::Either::Second(_) => "quiet",
            };
            // let the device finish its side (a peer that went silent is noticed when MRP gives up):
            // wait until no report is in flight any more
            for _ in 0..600 {
                Timer::after(Duration::from_millis(10)).await;
                if state.subscriptions().verif_report_slot_free() {
                    break;
                }
            }
            subs_left.set(Some(state.subscriptions().verif_fabric_view().len()));
            if r == "aborted" && matches!(c.peer, Peer::Silent(_)) {
                // The peer comes back (fresh sessions on both sides, the old one is marked expired by the
                // device): the reporter retries after its back-off, and that report is the next interaction.
                e2e::preset_case_session(&matter_a, &crypto, A_NODE, B_NODE, 3, 4, e2e::node_addr(B), 1, Default::default())?;
                e2e::preset_case_session(&matter_b, &crypto, B_NODE, A_NODE, 4, 3, e2e::node_addr(A), 1, Default::default())?;
                mute.set(false);
                let accepted = embassy_futures::select::select(
                    Exchange::accept(&matter_a),
                    Timer::after(Duration::from_millis(6000)),
                )
                .await;
                let r2 = match accepted {
                    embassy_futures::select::Either::First(ex) => {
                        let mut ex = ex?;
                        collect(&mut ex, &again, &tail2, limit, Peer::Accept, &mute).await?
                    }
                    embassy_futures::select::Either::Second(_) => "quiet",
                };
                *next_outcome.borrow_mut() = Some(r2.to_string());
            }
            Ok(r)
        };

        // (a peer that went silent in a report is waited for; that takes as long as MRP needs to give up)
        let patience = if c.update && matches!(c.peer, Peer::Silent(_)) { 10_000 } else { hang_ms };
        match select3(
            core::pin::pin!(device),
            core::pin::pin!(client),
            core::pin::pin!(Timer::after(Duration::from_millis(patience))),
        )
        .await
        {
            Either3::First(r) => format!("transport-exit:{:?}", r.map_err(|e| e.code())),
            Either3::Second(Ok(s)) => s.to_string(),
            Either3::Second(Err(e)) => format!("client-err:{}", err_class(&e)),
            Either3::Third(_) => "hang".to_string(),
        }
    });

    // a report is decoded against the node as it is after the changes: data versions bumped
    let after: Case = {
        let mut a = c.clone();
        for cl in a.clusters.iter_mut() {
            let n = c.changes.iter().filter(|(ep, id, _)| *ep == cl.ep && *id == cl.id).count() as u32;
            cl.dv = cl.dv.wrapping_add(n);
        }
        a
    };
    let c = if c.update { &after } else { c };
    let texts = |chunks: &RefCell<Vec<Vec<u8>>>| -> (usize, String) {
        let chunks = chunks.borrow();
        let mut next_idx = std::collections::BTreeMap::new();
        let t: Vec<String> = chunks.iter().map(|b| decode_chunk(c, b, &mut next_idx).text).collect();
        (chunks.len(), t.join(";"))
    };
    let mut out = format!("R {} {}", c.id, outcome);
    if !tail.borrow().is_empty() {
        write!(out, ",{}", tail.borrow()).unwrap();
    }
    let (n, t) = texts(if c.update { &report } else { &first });
    write!(out, " n={} | {}", n, t).unwrap();
    if let Some(k) = subs_left.get() {
        write!(out, " subs={}", k).unwrap();
    }
    if let Some(o2) = next_outcome.borrow().as_ref() {
        write!(out, " next {}", o2).unwrap();
        if !tail2.borrow().is_empty() {
            write!(out, ",{}", tail2.borrow()).unwrap();
        }
        let (n2, t2) = texts(&again);
        write!(out, " n={} | {}", n2, t2).unwrap();
    }
    if std::env::var("C14_DEBUG").is_ok() {
        for t in net.tap().iter() {
            eprintln!("{} ms: {} -> {} len {} {:?}", t.t_ms, t.src, t.dst, t.bytes.len(), t.action);
        }
    }
    // every datagram of the device must respect the transport's maximum
    let too_big = net.tap().iter().filter(|t| t.src == B && t.bytes.len() > MAX_TX_PACKET_SIZE).count();
    if too_big > 0 {
        write!(out, " oversize-datagrams={}", too_big).unwrap();
    }
    out
}

// ------------------------------------------------------------------ generator (see gen())

fn main() {
    let args: Vec<String> = std::env::args().collect();
    match args.get(1).map(|s| s.as_str()) {
        Some("consts") => {
            println!(
                "tx={} reserve={} max_tx_packet={}",
                MAX_EXCHANGE_TX_BUF_SIZE, RESERVE, MAX_TX_PACKET_SIZE
            );
        }
        Some("run") => {
            let text = std::fs::read_to_string(&args[2]).expect("cases file");
            let stdout = std::io::stdout();
            let mut w = stdout.lock();
            // an answer normally takes a millisecond; a case without answer waits for the hang timer.
            // After five such cases in a row the defect is systemic and the timer is shortened.
            let mut hangs_in_a_row = 0;
            for line in text.lines().filter(|l| l.starts_with("R ")) {
                let c = parse_case(line);
                let l = run_case(&c, if hangs_in_a_row >= 5 { 300 } else { 4000 });
                if l.split(' ').nth(2).map(|o| o.starts_with("hang")).unwrap_or(false) {
                    hangs_in_a_row += 1;
                } else {
                    hangs_in_a_row = 0;
                }
                writeln!(w, "{}", l).unwrap();
            }
        }
        Some("gen") => {
            let tier = args[2].clone();
            let seed: u64 = args[3].parse().unwrap();
            let outdir = args[4].clone();
            gen(&tier, seed, &outdir);
        }
        _ => {
            eprintln!("usage: c14 gen <tier> <seed> <outdir> | run <cases> | consts");
            std::process::exit(2);
        }
    }
}

// Sizes as the generator needs them to steer towards the boundaries (the model has its own
// definitions in Model/Chunk.v; a mistake here only makes the streams miss their targets).
fn uint_len(v: u64) -> usize {
    if v < 256 {
        1
    } else if v < 65536 {
        2
    } else if v < (1 << 32) {
        4
    } else {
        8
    }
}
fn str_hdr(l: usize) -> usize {
    if l < 256 {
        1
    } else {
        2
    }
}
/// size of the report of an octet string of `len` bytes at (ep, cl, at) with data version dv
fn scalar_report(ep: u16, cl: u32, at: u32, dv: u32, len: usize) -> usize {
    let path = 2 + (2 + uint_len(ep as u64)) + (2 + uint_len(cl as u64)) + (2 + uint_len(at as u64)) + 1;
    1 + 2 + (2 + uint_len(dv as u64)) + path + (2 + str_hdr(len) + len) + 2
}
/// the octet-string length whose report has exactly `size` bytes (None if impossible)
fn len_for_report(ep: u16, cl: u32, at: u32, dv: u32, size: usize) -> Option<usize> {
    let base = scalar_report(ep, cl, at, dv, 0) - 1; // without the length byte
    for hdr in [1usize, 2] {
        if size >= base + hdr {
            let len = size - base - hdr;
            if str_hdr(len) == hdr && len < 60000 {
                return Some(len);
            }
        }
    }
    None
}
fn event_report(ep: u16, cl: u32, ev: u32, num: u64, ts: u64, len: usize) -> usize {
    let path = 2 + (2 + uint_len(ep as u64)) + (2 + uint_len(cl as u64)) + (2 + uint_len(ev as u64)) + 1;
    1 + 2 + path + (2 + uint_len(num)) + 3 + (2 + uint_len(ts)) + (2 + str_hdr(len) + len) + 2
}

struct Gen {
    rng: Rng,
    lines: Vec<String>,
    streams: std::collections::BTreeMap<String, usize>,
    tx: usize,
}

#[derive(Clone, Default)]
struct CaseB {
    sub: bool,
    n: Vec<String>,
    q: String,
    f: String,
    e: Vec<String>,
    p: String,
    m: String,
    /// k=u: subscription report after the changes `c` and the events `e2`
    upd: bool,
    c: Vec<String>,
    e2: Vec<String>,
    /// the peer: "" | f<k> | x<k>
    ab: String,
}

impl Gen {
    fn emit(&mut self, stream: &str, c: &CaseB) {
        let id = format!("{}{}", &stream[..1], self.lines.len());
        *self.streams.entry(stream.to_string()).or_insert(0) += 1;
        let e = if c.e.is_empty() { "-".to_string() } else { c.e.join(",") };
        let mut line = format!(
            "R {} k={} n={} q={} f={} e={} p={} m={}",
            id,
            if c.upd { "u" } else if c.sub { "s" } else { "r" },
            c.n.join(";"),
            if c.q.is_empty() { "-" } else { &c.q },
            if c.f.is_empty() { "-" } else { &c.f },
            e,
            if c.p.is_empty() { "-" } else { &c.p },
            if c.m.is_empty() { "-" } else { &c.m },
        );
        if c.upd {
            write!(
                line,
                " c={} e2={}",
                if c.c.is_empty() { "-".to_string() } else { c.c.join(",") },
                if c.e2.is_empty() { "-".to_string() } else { c.e2.join(",") }
            )
            .unwrap();
        }
        if !c.ab.is_empty() {
            write!(line, " ab={}", c.ab).unwrap();
        }
        write!(line, " lim=200 tx={} rs={}", self.tx, RESERVE).unwrap();
        self.lines.push(line);
    }
    /// what an empty reply can take (after the struct opener, the subscription id and one array opener)
    fn fresh_room(&self, sub: bool) -> usize {
        self.tx - RESERVE - (if sub { 4 } else { 1 }) - 2
    }
}

type ClusterInfo = (u16, u32, u32, Vec<String>, Vec<u32>);

/// a random node and request; `oversize`: values that do not fit an empty message may occur
fn random_case(g: &mut Gen, sub: bool, oversize: bool) -> (CaseB, Vec<ClusterInfo>) {
    let room = g.fresh_room(sub);
    let n_cl = g.rng.range(1, 3) as usize;
    let eps = [0u16, 1, 300];
    let cls = [100u32, 300, 70000];
    let dvs = [7u32, 300, 70000, 4000000000];
    let mut clusters: Vec<ClusterInfo> = Vec::new();
    for i in 0..n_cl {
        let ep = eps[i.min(2)];
        let cl = *g.rng.pick(&cls);
        if clusters.iter().any(|c| c.0 == ep && c.1 == cl) {
            continue;
        }
        let dv = *g.rng.pick(&dvs);
        let n_at = g.rng.range(1, 6) as usize;
        let mut attrs = Vec::new();
        let mut ids = Vec::new();
        for a in 0..n_at {
            let id = match g.rng.below(8) {
                0 => 300 + a as u32,
                1 => 70000 + a as u32,
                _ => a as u32,
            };
            ids.push(id);
            let big = |g: &mut Gen| -> usize {
                match g.rng.below(25) {
                    0..=7 => g.rng.range(0, 40) as usize,
                    8..=14 => g.rng.range(100, 500) as usize,
                    15..=21 => g.rng.range(500, if oversize { 1100 } else { 1080 }) as usize,
                    22..=23 if oversize => room - g.rng.range(28, 48) as usize,
                    22..=23 => room - g.rng.range(60, 80) as usize,
                    _ if oversize => g.rng.range(1100, 1140) as usize,
                    _ => g.rng.range(1000, 1080) as usize,
                }
            };
            if g.rng.chance(2, 5) {
                let n_el = match g.rng.below(6) {
                    0 => 0,
                    1 => 1,
                    _ => g.rng.range(2, 7),
                } as usize;
                let lens: Vec<String> = (0..n_el).map(|_| big(g).to_string()).collect();
                attrs.push(format!("{}=l{}", id, lens.join("+")));
            } else {
                attrs.push(format!("{}=s{}", id, big(g)));
            }
        }
        clusters.push((ep, cl, dv, attrs, ids));
    }
    let mut c = CaseB {
        sub,
        ..Default::default()
    };
    for (ep, cl, dv, attrs, _) in &clusters {
        c.n.push(format!("{}.{}.{}:{}", ep, cl, dv, attrs.join(",")));
    }
    // request paths
    let n_q = g.rng.range(1, 3);
    let mut qs = Vec::new();
    for _ in 0..n_q {
        let (ep, cl, _, _, ids) = g.rng.pick(&clusters).clone();
        qs.push(match g.rng.below(6) {
            0 => "*.*.*".to_string(),
            1 => format!("{}.*.*", ep),
            2 => format!("{}.{}.*", ep, cl),
            3 => format!("*.{}.*", cl),
            // (a subscribe request with a concrete path that does not exist is refused as a whole)
            4 if sub => format!("{}.{}.{}", ep, cl, g.rng.pick(&ids)),
            4 => format!("{}.{}.{}", ep, cl, g.rng.below(3)),
            _ => format!("{}.{}.*", ep, cl),
        });
    }
    c.q = qs.join(",");
    if g.rng.chance(1, 4) {
        let (ep, cl, dv, _, _) = g.rng.pick(&clusters).clone();
        c.f = format!("{}.{}.{}", ep, cl, if g.rng.chance(2, 3) { dv } else { dv.wrapping_add(1) });
    }
    if g.rng.chance(1, 2) {
        let n_ev = g.rng.range(1, 6) as usize;
        let mut budget = 6000usize;
        for _ in 0..n_ev {
            let (ep, cl, _, _, _) = g.rng.pick(&clusters).clone();
            let len = match g.rng.below(4) {
                0 => g.rng.range(0, 60) as usize,
                1 => g.rng.range(400, 700) as usize,
                2 => g.rng.range(900, 1090) as usize,
                _ => g.rng.range(100, 300) as usize,
            };
            if len + 40 > budget {
                break;
            }
            budget -= len + 40;
            let ts = *g.rng.pick(&[5u64, 300, 70000, 5000000000]);
            c.e.push(format!("{}.{}.{}.{}.{}.{}", ep, cl, g.rng.range(1, 3), g.rng.below(3), len, ts));
        }
        c.p = match g.rng.below(4) {
            0 => format!("{}.*.*", clusters[0].0),
            1 => format!("{}.{}.1,{}.{}.2", clusters[0].0, clusters[0].1, clusters[0].0, clusters[0].1),
            _ => "*.*.*".to_string(),
        };
        if g.rng.chance(1, 4) {
            c.m = g.rng.range(1, 4).to_string();
        }
        if g.rng.chance(1, 6) {
            c.q = String::new();
        }
    }
    (c, clusters)
}

fn gen(tier: &str, seed: u64, outdir: &str) {
    let thorough = tier == "thorough";
    let mut g = Gen {
        rng: Rng::new(seed ^ 0xC14),
        lines: Vec::new(),
        streams: Default::default(),
        tx: MAX_EXCHANGE_TX_BUF_SIZE,
    };

    // --- stream b1: one value swept across "fits an empty message" (exhaustive -8..+4), read / subscribe,
    //     with and without an event request (which needs 3 more structural bytes from the reserve)
    for sub in [false, true] {
        for with_ev in [false, true] {
            for d in -8i64..=4 {
                let target = (g.fresh_room(sub) as i64 + d) as usize;
                let len = len_for_report(0, 100, 0, 7, target).unwrap();
                let c = CaseB {
                    sub,
                    n: vec![format!("0.100.7:0=s{}", len)],
                    q: "0.100.0".into(),
                    p: if with_ev { "*.*.*".into() } else { String::new() },
                    ..Default::default()
                };
                g.emit("b1-single-boundary", &c);
            }
        }
    }

    // --- stream b2: two values; the second one ends exactly d bytes from the end of the first message
    for sub in [false, true] {
        for first in [200usize, 577, 900, 1100] {
            for d in -6i64..=6 {
                let room = g.fresh_room(sub);
                let l1 = len_for_report(0, 100, 0, 7, first).unwrap();
                let rest = (room as i64 - first as i64 + d) as usize;
                let Some(l2) = len_for_report(0, 100, 1, 7, rest) else { continue };
                let c = CaseB {
                    sub,
                    n: vec![format!("0.100.7:0=s{},1=s{},2=s9", l1, l2)],
                    q: "0.100.*".into(),
                    ..Default::default()
                };
                g.emit("b2-pair-boundary", &c);
            }
        }
    }

    // --- stream b3: a list after a value: the complete list just fits / just does not (then it is streamed),
    //     and element k ends exactly at / one byte over the end of a message
    for sub in [false, true] {
        for first in [300usize, 800] {
            for nel in [1usize, 2, 5] {
                for d in -4i64..=4 {
                    let room = g.fresh_room(sub);
                    let l1 = len_for_report(0, 100, 0, 7, first).unwrap();
                    // whole-list report = 23 + 3 + sum(1 + hdr + len); aim it at room - first + d
                    let target = room as i64 - first as i64 + d;
                    let per = (target - 26) / nel as i64;
                    if per < 4 {
                        continue;
                    }
                    let mut lens = Vec::new();
                    let mut acc = 26i64;
                    for i in 0..nel {
                        let want = if i + 1 == nel { target - acc } else { per };
                        // element = 1 + hdr + len
                        let len = if want - 2 < 256 { want - 2 } else { want - 3 };
                        let len = len.max(0) as usize;
                        acc += (1 + str_hdr(len) + len) as i64;
                        lens.push(len.to_string());
                    }
                    let c = CaseB {
                        sub,
                        n: vec![format!("0.100.7:0=s{},1=l{},2=s12", l1, lens.join("+"))],
                        q: "0.100.*".into(),
                        ..Default::default()
                    };
                    g.emit("b3-list-boundary", &c);
                }
            }
        }
    }
    for sub in [false, true] {
        for d in -3i64..=3 {
            // streamed list whose second element ends d bytes from the end of the first message
            let room = g.fresh_room(sub) as i64;
            // first value 500, marker 23, element reports 25 + 3 + len (len >= 256)
            let l1 = len_for_report(0, 100, 0, 7, 500).unwrap();
            let e1 = 300usize;
            let used = 500 + 23 + (28 + e1 as i64);
            let e2 = (room - used + d - 28) as usize;
            let c = CaseB {
                sub,
                n: vec![format!("0.100.7:0=s{},1=l{}+{}+700+40", l1, e1, e2)],
                q: "0.100.*".into(),
                ..Default::default()
            };
            g.emit("b3-list-boundary", &c);
        }
    }

    // --- stream l: lists longer than a message, several lists, empty lists, lists of many small elements
    for sub in [false, true] {
        for (k, spec) in [
            "0=l600+600+600",
            "0=l1100+1100+1100+1100",
            "0=l,1=l5,2=l700+700,3=l",
            "0=s900,1=l400+400+400,2=l300+300+300+300,3=s50",
            "0=l200+200+200+200+200+200+200+200+200+200+200+200",
            "0=s1000,1=l10+10+10+10+10+10+10+10+10+10+10+10+10+10+10+10+10+10+10+10",
            "0=l1120,1=l1121,2=l1122,3=l1123,4=l1124",
            "0=s400,1=l1120+5,2=s400,3=l5+1120",
        ]
        .iter()
        .enumerate()
        {
            for q in ["0.100.*", "*.*.*"] {
                let c = CaseB {
                    sub,
                    n: vec![format!("0.100.{}:{}", 7 + k, spec)],
                    q: q.into(),
                    ..Default::default()
                };
                g.emit("l-long-lists", &c);
            }
        }
    }

    // --- stream o: a single report larger than a whole message (value, list element, event): ResourceExhausted
    for sub in [false, true] {
        for over in [1usize, 2, 100] {
            let big = len_for_report(0, 100, 1, 7, g.fresh_room(sub) + over).unwrap();
            for spec in [
                format!("0=s{}", big),
                format!("0=s10,1=s{},2=s10", big),
                format!("0=s700,1=s{},2=s10", big),
                format!("0=s10,1=l600+{}+600", big),
                format!("0=l{}", big),
            ] {
                let c = CaseB {
                    sub,
                    n: vec![format!("0.100.7:{}", spec)],
                    q: "0.100.*".into(),
                    ..Default::default()
                };
                g.emit("o-oversized", &c);
            }
            let elen = g.fresh_room(sub) + over - event_report(0, 100, 1, 2, 5, 300) + 300;
            for (q, first) in [("0.100.*", 10usize), ("-", 10), ("0.100.*", 900)] {
                let c = CaseB {
                    sub,
                    n: vec!["0.100.7:0=s10".replace("s10", &format!("s{}", first))],
                    q: if q == "-" { String::new() } else { q.into() },
                    e: vec!["0.100.1.2.10.5".into(), format!("0.100.1.2.{}.5", elen), "0.100.2.2.700.300".into()],
                    p: "*.*.*".into(),
                    ..Default::default()
                };
                g.emit("o-oversized", &c);
            }
        }
    }

    // --- stream e: events across the boundary, timestamps of every width, filters, paths, statuses
    for sub in [false, true] {
        for d in -5i64..=5 {
            // attribute 600, event 1 small, event 2 ends d bytes from the end of the message
            let room = g.fresh_room(sub) as i64;
            let l1 = len_for_report(0, 100, 0, 7, 600).unwrap();
            let used = 600 + 1 + 2 + event_report(0, 100, 1, 1, 5, 10) as i64;
            let want = room + 2 - used + d; // the event array opener comes out of the reserve
            let base = event_report(0, 100, 2, 2, 70000, 300) as i64 - 300;
            let elen = (want - base).max(0) as usize;
            let c = CaseB {
                sub,
                n: vec![format!("0.100.7:0=s{}", l1)],
                q: "0.100.0".into(),
                e: vec![
                    "0.100.1.2.10.5".into(),
                    format!("0.100.2.1.{}.70000", elen),
                    "0.100.3.0.40.5000000000".into(),
                ],
                p: "*.*.*".into(),
                ..Default::default()
            };
            g.emit("e-events", &c);
        }
        for (p, m) in [
            ("*.*.*", "-"),
            ("0.100.1", "-"),
            // (a subscribe request with a concrete path that does not exist is refused as a whole with
            //  InvalidAction before the responder runs: those paths are used for reads only)
            (if sub { "0.100.1,0.100.2" } else { "0.100.1,0.100.5,0.101.1,7.100.1" }, "2,1"),
            ("0.*.*,1.300.2", "3"),
            ("*.300.*", "-"),
            ("9.*.*", "-"),
            ("0.100.1,0.100.1", "-"),
        ] {
            let c = CaseB {
                sub,
                n: vec!["0.100.7:0=s10".into(), "1.300.70000:0=s20".into()],
                q: "*.*.*".into(),
                e: vec![
                    "0.100.1.2.600.5".into(),
                    "0.100.2.1.600.300".into(),
                    "1.300.2.0.600.70000".into(),
                    "1.300.3.2.600.5000000000".into(),
                    "0.100.5.2.30.7".into(),
                    "2.100.1.2.30.7".into(),
                    "0.100.1.2.600.9".into(),
                ],
                p: p.into(),
                m: if m == "-" { String::new() } else { m.into() },
                ..Default::default()
            };
            g.emit("e-events", &c);
            // events only (no attribute requests)
            let mut c2 = c.clone();
            c2.q = String::new();
            g.emit("e-events", &c2);
        }
    }

    // --- stream f: data-version filters, several clusters / endpoints, id widths, missing concrete paths
    for sub in [false, true] {
        for f in ["-", "0.100.7", "0.100.8", "0.100.8,0.100.7", "1.300.70000,0.100.7", "1.300.70000", "0.100.7,1.300.70000,2.70000.300"] {
            for q in [
                "*.*.*",
                "0.100.*,1.*.*",
                if sub { "0.100.0,1.300.70000,2.70000.1" } else { "0.100.0,0.100.9,0.101.0,5.100.0,1.300.70000,2.70000.1" },
                "*.300.*,*.100.*",
            ] {
                let c = CaseB {
                    sub,
                    n: vec![
                        "0.100.7:0=s500,1=l300+300,2=s20".into(),
                        "1.300.70000:5=s400,70000=l,300=l200+200+200".into(),
                        "2.70000.300:0=s700,1=s300".into(),
                    ],
                    q: q.into(),
                    f: if f == "-" { String::new() } else { f.into() },
                    ..Default::default()
                };
                g.emit("f-filters", &c);
            }
        }
    }

    // --- stream r: random nodes and requests
    let n_random = if thorough { 40000 } else { 2500 };
    for _ in 0..n_random {
        let sub = g.rng.chance(1, 3);
        let (c, _) = random_case(&mut g, sub, true);
        g.emit("r-random", &c);
    }

    // --- stream u: subscription reports (k=u): prime, change attributes / emit events, the device reports on its own
    for with_ev in [false, true] {
        for d in -8i64..=0 {
            // one changed value swept up to "fits an empty message" (anything larger could not have been primed)
            let len = len_for_report(0, 100, 1, 7, (g.fresh_room(true) as i64 + d) as usize).unwrap();
            let c = CaseB {
                sub: true,
                upd: true,
                n: vec![format!("0.100.7:0=s20,1=s{},2=s30", len)],
                q: "0.100.*".into(),
                p: if with_ev { "*.*.*".into() } else { String::new() },
                c: vec!["0.100.1".into()],
                ..Default::default()
            };
            g.emit("u-reports", &c);
        }
    }
    for first in [200usize, 577, 1100] {
        for d in -6i64..=6 {
            // two changed values with an unchanged one between them; the second ends d bytes from the end of the message
            let room = g.fresh_room(true);
            let l1 = len_for_report(0, 100, 0, 7, first).unwrap();
            let rest = (room as i64 - first as i64 + d) as usize;
            let Some(l2) = len_for_report(0, 100, 2, 7, rest) else { continue };
            let c = CaseB {
                sub: true,
                upd: true,
                n: vec![format!("0.100.7:0=s{},1=s400,2=s{},3=s9", l1, l2)],
                q: "0.100.*".into(),
                c: vec!["0.100.2".into(), "0.100.0".into()],
                ..Default::default()
            };
            g.emit("u-reports", &c);
        }
    }
    for (node, q, ch) in [
        ("0.100.7:0=s500,1=l600+600+600,2=s20", "0.100.*", "0.100.1,0.100.2"),
        ("0.100.7:0=s500,1=l600+600+600,2=s20", "0.100.*", "0.100.*"),
        ("0.100.7:0=s500,1=l600+600+600,2=s20", "*.*.*", "1.100.0"),
        ("0.100.7:0=s500,1=l600+600+600,2=s20;1.300.70000:5=s400,70000=l,300=l200+200+200", "*.*.*", "1.300.*"),
        ("0.100.7:0=s500,1=l600+600+600,2=s20;1.300.70000:5=s400,70000=l,300=l200+200+200", "*.*.*", "1.300.300,0.100.0,1.300.70000"),
        ("0.100.7:0=s500,1=l600+600+600,2=s20;1.300.70000:5=s400,70000=l,300=l200+200+200", "0.100.*,1.300.300", "0.100.*,1.300.5"),
        ("0.100.7:0=l1100+1100+1100+1100,1=l,2=l5,3=l700+700", "0.100.*", "0.100.0,0.100.1,0.100.3"),
        ("0.100.14:0=s400,1=l1120+5,2=s400,3=l5+1120", "0.100.*", "0.100.*"),
        ("0.100.7:0=l200+200+200+200+200+200+200+200+200+200+200+200", "0.100.0", "0.100.0"),
        ("0.100.7:0=s1000,1=l10+10+10+10+10+10+10+10+10+10+10+10+10+10+10+10+10+10+10+10", "0.100.*,0.100.1", "0.100.1"),
    ] {
        let c = CaseB {
            sub: true,
            upd: true,
            n: node.split(';').map(|x| x.to_string()).collect(),
            q: q.into(),
            c: ch.split(',').map(|x| x.to_string()).collect(),
            ..Default::default()
        };
        g.emit("u-reports", &c);
    }
    for d in -5i64..=5 {
        // a changed value of 600 bytes, a small new event, and a second new event ending d bytes from the end
        let room = g.fresh_room(true) as i64;
        let l1 = len_for_report(0, 100, 0, 7, 600).unwrap();
        let used = 600 + 1 + 2 + event_report(0, 100, 1, 3, 5, 10) as i64;
        let want = room + 2 - used + d;
        let base = event_report(0, 100, 2, 4, 70000, 300) as i64 - 300;
        let elen = (want - base).max(0) as usize;
        let c = CaseB {
            sub: true,
            upd: true,
            n: vec![format!("0.100.7:0=s{},1=s30", l1)],
            q: "0.100.*".into(),
            e: vec!["0.100.1.2.10.5".into(), "0.100.2.1.300.7".into()],
            p: "*.*.*".into(),
            c: vec!["0.100.0".into()],
            e2: vec![
                "0.100.1.2.10.5".into(),
                format!("0.100.2.1.{}.70000", elen),
                "0.100.3.0.40.5000000000".into(),
            ],
            ..Default::default()
        };
        g.emit("u-reports", &c);
    }
    for (q, p, ch, e2, m) in [
        // events only / attributes only / nothing subscribed that changed / filters / an event larger than a message
        ("-", "*.*.*", "-", "0.100.1.2.700.5,0.100.2.1.700.300,0.100.3.0.700.70000", "-"),
        ("0.100.*", "*.*.*", "-", "0.100.1.2.700.5,0.100.2.1.700.300", "-"),
        ("0.100.*", "*.*.*", "0.100.0", "-", "-"),
        ("0.100.*", "0.100.1", "0.100.1", "0.100.2.2.30.5,0.100.2.2.30.6", "-"),
        ("0.100.*", "*.*.*", "0.100.1", "0.100.1.2.30.5,0.100.2.2.30.6,0.100.3.2.30.7", "5"),
        ("0.100.*", "*.*.*", "0.100.1", "0.100.1.2.30.5,0.100.2.2.1200.6,0.100.3.2.30.7", "-"),
        ("0.100.*", "*.*.*", "-", "0.100.5.2.30.5,2.100.1.2.30.6", "-"),
        ("0.100.*", "0.100.1,0.100.1", "0.100.1", "0.100.1.2.600.5,0.100.1.1.600.6", "-"),
    ] {
        let c = CaseB {
            sub: true,
            upd: true,
            n: vec!["0.100.7:0=s500,1=l300+300,2=s20".into()],
            q: if q == "-" { String::new() } else { q.into() },
            e: vec!["0.100.1.2.600.5".into(), "0.100.2.1.600.300".into(), "0.100.3.0.600.70000".into()],
            p: p.into(),
            m: if m == "-" { String::new() } else { m.into() },
            c: if ch == "-" { vec![] } else { ch.split(',').map(|x| x.to_string()).collect() },
            e2: if e2 == "-" { vec![] } else { e2.split(',').map(|x| x.to_string()).collect() },
            ..Default::default()
        };
        g.emit("u-reports", &c);
    }
    let n_u = if thorough { 6000 } else { 500 };
    for _ in 0..n_u {
        let (mut c, clusters) = random_case(&mut g, true, false);
        c.upd = true;
        c.f = String::new();
        if c.q.is_empty() && c.p.is_empty() {
            c.q = "*.*.*".into();
        }
        // what changes: single attributes or whole clusters (the changed-attribute table holds 16 entries)
        let n_ch = if g.rng.chance(1, 12) { 0 } else { g.rng.range(1, 4) };
        let mut changed: Vec<(u16, u32)> = Vec::new();
        for _ in 0..n_ch {
            let (ep, cl, _, _, ids) = g.rng.pick(&clusters).clone();
            changed.push((ep, cl));
            c.c.push(if g.rng.chance(1, 4) { format!("{}.{}.*", ep, cl) } else { format!("{}.{}.{}", ep, cl, g.rng.pick(&ids)) });
        }
        // data-version filters of the subscribe request: they shape the priming report only; in particular the version a
        // cluster HAS (priming leaves it out) and the version it REACHES through the changes must not hide a change
        if g.rng.chance(1, 2) {
            let mut fs = Vec::new();
            for _ in 0..g.rng.range(1, 2) {
                let (ep, cl, dv, _, _) = g.rng.pick(&clusters).clone();
                let n = changed.iter().filter(|x| **x == (ep, cl)).count() as u32;
                let v = match g.rng.below(4) {
                    0 => dv,
                    1 => dv.wrapping_add(1),
                    _ => dv.wrapping_add(n),
                };
                fs.push(format!("{}.{}.{}", ep, cl, v));
            }
            c.f = fs.join(",");
        }
        if !c.p.is_empty() {
            let stored: usize = c.e.iter().map(|e| e.split('.').nth(4).unwrap().parse::<usize>().unwrap() + 40).sum();
            let mut budget = 7000usize.saturating_sub(stored);
            for _ in 0..g.rng.range(0, 4) {
                let (ep, cl, _, _, _) = g.rng.pick(&clusters).clone();
                let len = match g.rng.below(4) {
                    0 => g.rng.range(0, 60) as usize,
                    1 => g.rng.range(400, 700) as usize,
                    2 => g.rng.range(900, 1090) as usize,
                    _ => g.rng.range(100, 300) as usize,
                };
                if len + 40 > budget {
                    break;
                }
                budget -= len + 40;
                let ts = *g.rng.pick(&[5u64, 300, 70000, 5000000000]);
                c.e2.push(format!("{}.{}.{}.{}.{}.{}", ep, cl, g.rng.range(1, 3), g.rng.below(3), len, ts));
            }
        }
        g.emit("u-reports", &c);
    }

    // --- stream d: data-version filters and change reports.  The filters of a subscribe request apply to the priming
    //     report only: a later change is reported whatever version the cluster had or reaches - the version it has at
    //     subscribe time (priming omits the cluster), current+1 then one change, current+2 then two, past it, the
    //     32-bit wrap, a version that grows by a byte, several filters, a filter on a cluster that does not change
    for (node, q, f, ch) in [
        ("0.100.7:0=s500,1=l600+600+600,2=s20", "0.100.*", "0.100.7", "0.100.1"),
        ("0.100.7:0=s500,1=l600+600+600,2=s20", "0.100.*", "0.100.8", "0.100.1"),
        ("0.100.7:0=s500,1=l600+600+600,2=s20", "0.100.*", "0.100.8", "0.100.1,0.100.2"),
        ("0.100.7:0=s500,1=l600+600+600,2=s20", "0.100.*", "0.100.9", "0.100.1,0.100.*"),
        ("0.100.7:0=s500,1=l600+600+600,2=s20", "0.100.*", "0.100.9,0.100.8", "0.100.0"),
        ("0.100.7:0=s500,1=l600+600+600,2=s20", "0.100.1", "0.100.8", "0.100.1"),
        ("0.100.4294967295:0=s500,1=s30", "0.100.*", "0.100.0", "0.100.0"),
        ("0.100.4294967295:0=s500,1=s30", "0.100.*", "0.100.4294967295", "0.100.0,0.100.1"),
        ("0.100.255:0=s1100,1=s30", "0.100.*", "0.100.256", "0.100.0"),
        ("0.100.65535:0=l1100+1100,1=s30", "*.*.*", "0.100.65536", "0.100.*"),
        ("0.100.7:0=s500,1=s20;1.300.70000:5=s400,300=l200+200+200", "*.*.*", "1.300.70001,0.100.7", "1.300.300"),
        ("0.100.7:0=s500,1=s20;1.300.70000:5=s400,300=l200+200+200", "*.*.*", "1.300.70001,0.100.8", "1.300.*,0.100.1"),
        ("0.100.7:0=s500,1=s20;1.300.70000:5=s400,300=l200+200+200", "*.*.*", "0.100.8", "1.300.5"),
        ("0.100.7:0=s500,1=s20;1.300.70000:5=s400,300=l200+200+200", "1.300.*,0.100.0", "1.300.70000,0.100.7", "1.300.5,0.100.0"),
    ] {
        for with_ev in [false, true] {
            let c = CaseB {
                sub: true,
                upd: true,
                n: node.split(';').map(|x| x.to_string()).collect(),
                q: q.into(),
                f: f.into(),
                p: if with_ev { "*.*.*".into() } else { String::new() },
                c: ch.split(',').map(|x| x.to_string()).collect(),
                e2: if with_ev { vec!["0.100.1.2.40.5".into()] } else { vec![] },
                ..Default::default()
            };
            g.emit("d-dataver-reports", &c);
        }
    }
    // the same filters in reads and primings: a cluster whose version equals its (first) filter is left out, any other is not
    for sub in [false, true] {
        for f in ["0.100.7", "0.100.8", "0.100.6,0.100.7", "0.100.7,0.100.6", "0.100.4294967295", "1.300.70000,0.100.7", "2.100.7"] {
            for q in ["*.*.*", "0.100.1,1.300.*", "0.100.*"] {
                let c = CaseB {
                    sub,
                    n: vec!["0.100.7:0=s500,1=l600+600+600,2=s20".into(), "1.300.70000:5=s400,300=l200+200+200".into()],
                    q: q.into(),
                    f: f.into(),
                    ..Default::default()
                };
                g.emit("d-dataver-reports", &c);
            }
        }
    }

    // --- stream a: a peer that answers chunk k with another status (f<k>) or stops talking after it (x<k>);
    //     afterwards the next interaction: the same request again (read / subscribe after a refusal), or the
    //     reporter's retry once the peer is back (report after silence: 2 s back-off, so only a few of those)
    let shapes = [
        ("0.100.7:0=s500,1=l600+600+600,2=s20", "0.100.*", "", ""),
        ("0.100.7:0=l1100+1100+1100+1100,1=s900,2=s900", "0.100.*", "", ""),
        ("0.100.7:0=s900,1=s900", "0.100.*", "0.100.1.2.900.5,0.100.2.1.900.300,0.100.3.0.900.70000", "*.*.*"),
    ];
    for (si, (node, q, e, p)) in shapes.iter().enumerate() {
        for kind in ['r', 's', 'u'] {
            for ab in ["f1", "f2", "f3", "f9", "x1", "x2", "x3"] {
                // (silence in a report costs the reporter's back-off: keep two of those per shape in the quick tier)
                if kind == 'u' && ab.starts_with('x') && !thorough && !(ab == "x2" || (ab == "x1" && si == 0)) {
                    continue;
                }
                let evs: Vec<String> = if e.is_empty() { vec![] } else { e.split(',').map(|x| x.to_string()).collect() };
                let c = CaseB {
                    sub: kind != 'r',
                    upd: kind == 'u',
                    n: vec![node.to_string()],
                    q: q.to_string(),
                    p: p.to_string(),
                    // for a report the events are emitted after priming
                    e: if kind == 'u' { vec![] } else { evs.clone() },
                    e2: if kind == 'u' { evs } else { vec![] },
                    c: if kind == 'u' { vec!["0.100.*".into()] } else { vec![] },
                    ab: ab.to_string(),
                    ..Default::default()
                };
                g.emit("a-aborts", &c);
            }
        }
    }
    let n_a = if thorough { 4000 } else { 400 };
    for i in 0..n_a {
        let sub = g.rng.chance(1, 3);
        let upd = g.rng.chance(1, 4);
        let (mut c, clusters) = random_case(&mut g, sub || upd, !upd);
        if upd {
            c.upd = true;
            c.f = String::new();
            if c.q.is_empty() && c.p.is_empty() {
                c.q = "*.*.*".into();
            }
            let (ep, cl, _, _, _) = g.rng.pick(&clusters).clone();
            c.c.push(format!("{}.{}.*", ep, cl));
            c.c.push(format!("{}.{}.*", clusters[0].0, clusters[0].1));
        }
        let k = g.rng.range(1, 4);
        // silence in a report is expensive (see above): one in forty of the random ones in the thorough tier only
        let silent = if upd { thorough && i % 40 == 0 } else { g.rng.chance(1, 3) };
        c.ab = format!("{}{}", if silent { 'x' } else { 'f' }, k);
        g.emit("a-aborts", &c);
    }

    std::fs::create_dir_all(outdir).unwrap();
    std::fs::write(format!("{}/cases.txt", outdir), g.lines.join("\n") + "\n").unwrap();
    let mut stats = String::from("{\n \"streams\": {");
    let items: Vec<String> = g.streams.iter().map(|(k, v)| format!("\"{}\": {}", k, v)).collect();
    stats.push_str(&items.join(", "));
    write!(
        stats,
        "}},\n \"cases\": {},\n \"tx\": {},\n \"reserve\": {},\n \"max_tx_packet\": {},\n \"seed\": {}\n}}\n",
        g.lines.len(),
        MAX_EXCHANGE_TX_BUF_SIZE,
        RESERVE,
        MAX_TX_PACKET_SIZE,
        seed
    )
    .unwrap();
    std::fs::write(format!("{}/stats.json", outdir), stats).unwrap();
}
