//! C14 correspondence harness (chunked ReportData answers).
//!
//! usage: c14 gen <quick|thorough> <seed> <outdir>   -> cases.txt, stats.json
//!        c14 run <cases-file>                        -> one line per case from the REAL code
//!        c14 consts                                  -> the buffer constants of this build
//!
//! One case = one synthetic node (clusters with octet-string attributes and lists of octet
//! strings whose lengths are given by the case, plus a queue of events), one request (read or
//! subscribe: attribute paths, data-version filters, event paths, event filters), answered by the
//! crate's own `InteractionModel` running on a real `Matter` instance and fetched by a second
//! real `Matter` instance over the in-memory network of `rsm_harness::e2e`.
//!
//! Case line
//!   R <id> k=<r|s> n=<clusters> q=<attr paths> f=<dataver filters> e=<events> p=<event paths>
//!          m=<event_min filters> lim=<max chunks>
//!     clusters : ';'-separated  <ep>.<cluster>.<dataver>:<attr>=<spec>,<attr>=<spec>...
//!                spec = s<len> (octet string) | l<len>+<len>... (list of octet strings; 'l' = empty list)
//!     paths    : ','-separated  <ep>.<cluster>.<leaf> with '*' as wildcard;  '-' = field absent
//!     filters  : ','-separated  <ep>.<cluster>.<dataver>;  '-' = absent
//!     events   : ','-separated  <ep>.<cluster>.<event>.<priority>.<payload len>.<timestamp ms>
//!     m        : ','-separated event_min values; '-' = absent
//!
//! Output line
//!   R <id> <outcome> n=<chunks> | <chunk>;<chunk>...
//!     chunk = <payload bytes>:<flags>:<attr atoms>:<event atoms>
//!     flags = subset of  i (subscription id) a (attribute array) e (event array) m (MoreChunkedMessages)
//!             s (SuppressResponse) r (revision field)      -- '-' if none
//!     atom  = v<ep>.<cl>.<at>/<bytes>        whole value (scalar or complete list)
//!           | k<ep>.<cl>.<at>/<bytes>        empty-list marker (replace-all)
//!           | x<ep>.<cl>.<at>.<idx>/<bytes>  one appended list element (idx recovered from the content)
//!           | t<ep>.<cl>.<at>.<status>/<bytes>  attribute status
//!           | n<number>/<bytes>              event
//!           | ?...                           anything the decoder does not recognise (never printed by the model)
use core::num::NonZeroU8;
use std::cell::RefCell;
use std::fmt::Write as _;
use std::io::Write as _;

use embassy_futures::select::{select3, select4, Either3};
use embassy_time::{Duration, Timer};

use rs_matter::acl::{AclEntry, AuthMode};
use rs_matter::crypto::test_only_crypto;
use rs_matter::dm::clusters::net_comm::DummyNetworks;
use rs_matter::dm::{
    Access, Async, Attribute, Cluster, Endpoint, Event, Handler, InvokeContext, InvokeReply, MatchContext, Metadata,
    Node, NonBlockingHandler, Privilege, Quality, ReadContext, ReadReply, Reply, WriteContext,
};
use rs_matter::error::{Error, ErrorCode};
use rs_matter::im::{
    EventPriority, IMStatusCode, InteractionModel, InteractionModelState, OpCode, StatusResp,
};
use rs_matter::im::events::EVENT_DATA_TAG;
use rs_matter::persist::DummyKvBlobStore;
use rs_matter::respond::Responder;
use rs_matter::tlv::{TLVTag, TLVWrite};
use rs_matter::transport::exchange::{Exchange, MatterBuffers, MAX_EXCHANGE_TX_BUF_SIZE};
use rs_matter::transport::network::{NoNetwork, MAX_TX_PACKET_SIZE};
use rs_matter::utils::select::Coalesce;
use rs_matter::utils::storage::WriteBuf;

use rsm_harness::e2e::{self, Net};
use rsm_harness::Rng;

const A: u16 = 1; // client
const B: u16 = 2; // device under test
const A_NODE: u64 = 0x1111;
const B_NODE: u64 = 0x2222;
const EVENTS_BUF: usize = 8192;
/// the amount the responder keeps back for the closing containers (im.rs LONG_READS_TLV_RESERVE_SIZE)
const RESERVE: usize = 24;

// ------------------------------------------------------------------ case

#[derive(Clone, Debug)]
enum Spec {
    Scalar(usize),
    List(Vec<usize>),
}

#[derive(Clone, Debug)]
struct ClusterSpec {
    ep: u16,
    id: u32,
    dv: u32,
    attrs: Vec<(u32, Spec)>,
}

#[derive(Clone, Debug)]
struct EventSpec {
    ep: u16,
    cl: u32,
    ev: u32,
    prio: u8,
    len: usize,
    ts: u64,
}

type Path = (Option<u16>, Option<u32>, Option<u32>);

#[derive(Clone, Debug)]
struct Case {
    id: String,
    subscribe: bool,
    clusters: Vec<ClusterSpec>,
    attr_paths: Option<Vec<Path>>,
    dv_filters: Option<Vec<(u16, u32, u32)>>,
    events: Vec<EventSpec>,
    event_paths: Option<Vec<Path>>,
    event_mins: Option<Vec<u64>>,
    limit: usize,
}

fn parse_opt<T: std::str::FromStr>(s: &str) -> Option<T> {
    if s == "*" {
        None
    } else {
        s.parse().ok()
    }
}

fn parse_paths(s: &str) -> Option<Vec<Path>> {
    if s == "-" {
        return None;
    }
    Some(
        s.split(',')
            .filter(|x| !x.is_empty())
            .map(|p| {
                let f: Vec<&str> = p.split('.').collect();
                (parse_opt(f[0]), parse_opt(f[1]), parse_opt(f[2]))
            })
            .collect(),
    )
}

fn parse_case(line: &str) -> Case {
    let f: Vec<&str> = line.split(' ').collect();
    let mut c = Case {
        id: f[1].to_string(),
        subscribe: false,
        clusters: vec![],
        attr_paths: None,
        dv_filters: None,
        events: vec![],
        event_paths: None,
        event_mins: None,
        limit: 40,
    };
    for kv in &f[2..] {
        let Some((k, v)) = kv.split_once('=') else { continue };
        match k {
            "k" => c.subscribe = v == "s",
            "n" => {
                for cl in v.split(';').filter(|x| !x.is_empty()) {
                    let (head, attrs) = cl.split_once(':').unwrap();
                    let h: Vec<&str> = head.split('.').collect();
                    let mut cs = ClusterSpec {
                        ep: h[0].parse().unwrap(),
                        id: h[1].parse().unwrap(),
                        dv: h[2].parse().unwrap(),
                        attrs: vec![],
                    };
                    for a in attrs.split(',').filter(|x| !x.is_empty()) {
                        let (id, spec) = a.split_once('=').unwrap();
                        let spec = if let Some(n) = spec.strip_prefix('s') {
                            Spec::Scalar(n.parse().unwrap())
                        } else {
                            Spec::List(
                                spec[1..]
                                    .split('+')
                                    .filter(|x| !x.is_empty())
                                    .map(|x| x.parse().unwrap())
                                    .collect(),
                            )
                        };
                        cs.attrs.push((id.parse().unwrap(), spec));
                    }
                    c.clusters.push(cs);
                }
            }
            "q" => c.attr_paths = parse_paths(v),
            "f" => {
                if v != "-" {
                    c.dv_filters = Some(
                        v.split(',')
                            .filter(|x| !x.is_empty())
                            .map(|p| {
                                let f: Vec<&str> = p.split('.').collect();
                                (f[0].parse().unwrap(), f[1].parse().unwrap(), f[2].parse().unwrap())
                            })
                            .collect(),
                    )
                }
            }
            "e" => {
                if v != "-" {
                    for e in v.split(',').filter(|x| !x.is_empty()) {
                        let f: Vec<&str> = e.split('.').collect();
                        c.events.push(EventSpec {
                            ep: f[0].parse().unwrap(),
                            cl: f[1].parse().unwrap(),
                            ev: f[2].parse().unwrap(),
                            prio: f[3].parse().unwrap(),
                            len: f[4].parse().unwrap(),
                            ts: f[5].parse().unwrap(),
                        });
                    }
                }
            }
            "p" => c.event_paths = parse_paths(v),
            "m" => {
                if v != "-" {
                    c.event_mins = Some(v.split(',').filter(|x| !x.is_empty()).map(|x| x.parse().unwrap()).collect())
                }
            }
            "lim" => c.limit = v.parse().unwrap(),
            _ => {}
        }
    }
    c
}

/// the content of value (cluster, attribute, element index): recognisable and cheap
fn fill(ep: u16, cl: u32, at: u32, idx: usize, len: usize) -> Vec<u8> {
    let seed = (ep as u32)
        .wrapping_mul(17)
        .wrapping_add(cl.wrapping_mul(7))
        .wrapping_add(at.wrapping_mul(13))
        .wrapping_add((idx as u32).wrapping_mul(29));
    (0..len).map(|j| (seed.wrapping_add(j as u32 * 3) & 0xff) as u8).collect()
}

fn event_fill(num: u64, len: usize) -> Vec<u8> {
    (0..len).map(|j| ((num as usize * 11 + j * 5) & 0xff) as u8).collect()
}

// ------------------------------------------------------------------ synthetic node

struct Synth {
    clusters: Vec<ClusterSpec>,
    node: &'static Node<'static>,
}

const EVENTS_META: &[Event] = &[
    Event::new(1, Access::RV),
    Event::new(2, Access::RV),
    Event::new(3, Access::RV),
];

impl Synth {
    fn new(clusters: &[ClusterSpec]) -> Self {
        // endpoints in strictly increasing order, clusters in the order of the case
        let mut eps: Vec<u16> = clusters.iter().map(|c| c.ep).collect();
        eps.sort();
        eps.dedup();
        let mut endpoints = Vec::new();
        for ep in eps {
            let mut cls = Vec::new();
            for c in clusters.iter().filter(|c| c.ep == ep) {
                let attrs: Vec<Attribute> = c
                    .attrs
                    .iter()
                    .map(|(id, s)| {
                        Attribute::new(
                            *id,
                            Access::RV,
                            match s {
                                Spec::Scalar(_) => Quality::NONE,
                                Spec::List(_) => Quality::A,
                            },
                        )
                    })
                    .collect();
                let attrs: &'static [Attribute] = Box::leak(attrs.into_boxed_slice());
                cls.push(Cluster::new(
                    c.id,
                    1,
                    0,
                    attrs,
                    &[],
                    EVENTS_META,
                    |_, _, _| true,
                    |_, _, _| true,
                    |_, _, _| true,
                ));
            }
            let cls: &'static [Cluster<'static>] = Box::leak(cls.into_boxed_slice());
            endpoints.push(Endpoint::new(ep, &[], cls));
        }
        let endpoints: &'static [Endpoint<'static>] = Box::leak(endpoints.into_boxed_slice());
        let node: &'static Node<'static> = Box::leak(Box::new(Node::new(endpoints)));
        Synth {
            clusters: clusters.to_vec(),
            node,
        }
    }
}

impl Handler for Synth {
    fn read(&self, ctx: impl ReadContext, reply: impl ReadReply) -> Result<(), Error> {
        let attr = ctx.attr();
        let cl = self
            .clusters
            .iter()
            .find(|c| c.ep == attr.endpoint_id && c.id == attr.cluster_id)
            .ok_or(ErrorCode::ClusterNotFound)?;
        let (_, spec) = cl
            .attrs
            .iter()
            .find(|(id, _)| *id == attr.attr_id)
            .ok_or(ErrorCode::AttributeNotFound)?;
        let Some(mut writer) = reply.with_dataver(cl.dv)? else {
            return Ok(());
        };
        let list_index = attr.list_index.clone().map(|li| li.into_option());
        let tag = writer.tag();
        match spec {
            Spec::Scalar(len) => {
                writer
                    .writer()
                    .str(tag, &fill(cl.ep, cl.id, attr.attr_id, 0, *len))?;
            }
            Spec::List(lens) => {
                let mut tw = writer.writer();
                match list_index {
                    None => {
                        tw.start_array(tag)?;
                        for (i, len) in lens.iter().enumerate() {
                            tw.str(&TLVTag::Anonymous, &fill(cl.ep, cl.id, attr.attr_id, i, *len))?;
                        }
                        tw.end_container()?;
                    }
                    Some(None) => {
                        tw.start_array(tag)?;
                        tw.end_container()?;
                    }
                    Some(Some(i)) => {
                        let len = lens.get(i as usize).ok_or(ErrorCode::ConstraintError)?;
                        tw.str(tag, &fill(cl.ep, cl.id, attr.attr_id, i as usize, *len))?;
                    }
                }
            }
        }
        writer.complete()
    }

    fn write(&self, _ctx: impl WriteContext) -> Result<(), Error> {
        Err(ErrorCode::AttributeNotFound.into())
    }

    fn invoke(&self, _ctx: impl InvokeContext, _reply: impl InvokeReply) -> Result<(), Error> {
        Err(ErrorCode::CommandNotFound.into())
    }

    fn bump_dataver(&self, _ctx: impl MatchContext) {}
}

impl NonBlockingHandler for Synth {}

struct SynthDm<'a>(Async<&'a Synth>, &'a Synth);

impl Metadata for SynthDm<'_> {
    fn access<F, R>(&self, f: F) -> R
    where
        F: FnOnce(&Node<'_>) -> R,
    {
        f(self.1.node)
    }
}

impl rs_matter::dm::AsyncHandler for SynthDm<'_> {
    fn read_awaits(&self, _ctx: impl ReadContext) -> bool {
        false
    }
    fn write_awaits(&self, _ctx: impl WriteContext) -> bool {
        false
    }
    fn invoke_awaits(&self, _ctx: impl InvokeContext) -> bool {
        false
    }
    async fn read(&self, ctx: impl ReadContext, reply: impl ReadReply) -> Result<(), Error> {
        rs_matter::dm::AsyncHandler::read(&self.0, ctx, reply).await
    }
    fn bump_dataver(&self, _ctx: impl MatchContext) {}
}

// ------------------------------------------------------------------ request encoding

fn write_path(wb: &mut WriteBuf<'_>, p: &Path, first_tag: u8) -> Result<(), Error> {
    // AttributePathIB: endpoint = 2, cluster = 3, attribute = 4; EventPathIB: endpoint = 1, cluster = 2, event = 3
    wb.start_list(&TLVTag::Anonymous)?;
    if let Some(ep) = p.0 {
        wb.u16(&TLVTag::Context(first_tag), ep)?;
    }
    if let Some(cl) = p.1 {
        wb.u32(&TLVTag::Context(first_tag + 1), cl)?;
    }
    if let Some(leaf) = p.2 {
        wb.u32(&TLVTag::Context(first_tag + 2), leaf)?;
    }
    wb.end_container()
}

fn build_request(c: &Case, buf: &mut [u8]) -> Result<usize, Error> {
    let mut wb = WriteBuf::new(buf);
    // tags: read = (0 attrs, 1 events, 2 event filters, 3 fabric filtered, 4 dataver filters)
    //       subscribe = (0 keep, 1 min, 2 max, 3 attrs, 4 events, 5 event filters, 7 fabric filtered, 8 dataver filters)
    let (t_attr, t_ev, t_evf, t_ff, t_dvf) = if c.subscribe { (3, 4, 5, 7, 8) } else { (0, 1, 2, 3, 4) };
    wb.start_struct(&TLVTag::Anonymous)?;
    if c.subscribe {
        wb.bool(&TLVTag::Context(0), true)?;
        wb.u16(&TLVTag::Context(1), 1)?;
        wb.u16(&TLVTag::Context(2), 100)?;
    }
    if let Some(paths) = &c.attr_paths {
        wb.start_array(&TLVTag::Context(t_attr))?;
        for p in paths {
            write_path(&mut wb, p, 2)?;
        }
        wb.end_container()?;
    }
    if let Some(paths) = &c.event_paths {
        wb.start_array(&TLVTag::Context(t_ev))?;
        for p in paths {
            write_path(&mut wb, p, 1)?;
        }
        wb.end_container()?;
    }
    if let Some(mins) = &c.event_mins {
        wb.start_array(&TLVTag::Context(t_evf))?;
        for m in mins {
            wb.start_struct(&TLVTag::Anonymous)?;
            wb.u64(&TLVTag::Context(1), *m)?;
            wb.end_container()?;
        }
        wb.end_container()?;
    }
    wb.bool(&TLVTag::Context(t_ff), false)?;
    if let Some(fs) = &c.dv_filters {
        wb.start_array(&TLVTag::Context(t_dvf))?;
        for (ep, cl, dv) in fs {
            wb.start_struct(&TLVTag::Anonymous)?;
            wb.start_list(&TLVTag::Context(0))?;
            wb.u16(&TLVTag::Context(1), *ep)?;
            wb.u32(&TLVTag::Context(2), *cl)?;
            wb.end_container()?;
            wb.u32(&TLVTag::Context(1), *dv)?;
            wb.end_container()?;
        }
        wb.end_container()?;
    }
    wb.u8(&TLVTag::Context(0xff), 13)?;
    wb.end_container()?;
    Ok(wb.get_tail())
}

// ------------------------------------------------------------------ strict stand-alone TLV walker

#[derive(Debug, Clone)]
struct El {
    tag: Option<u8>, // None = anonymous; only anonymous and context tags are legal here
    ty: u8,          // element type (low 5 bits of the control byte)
    start: usize,
    end: usize, // one past the last byte of the element (incl. end-of-container)
    uint: u64,
    bytes: (usize, usize),
    kids: Vec<El>,
}

/// Parses exactly one element at `pos`; `Err` on anything malformed / truncated / unknown.
fn walk(b: &[u8], pos: usize, depth: usize) -> Result<El, String> {
    if depth > 12 {
        return Err("too deep".into());
    }
    let ctl = *b.get(pos).ok_or("truncated control")?;
    let ty = ctl & 0x1f;
    let tagc = ctl >> 5;
    let mut p = pos + 1;
    let tag = match tagc {
        0 => None,
        1 => {
            let t = *b.get(p).ok_or("truncated tag")?;
            p += 1;
            Some(t)
        }
        _ => return Err(format!("unexpected tag control {}", tagc)),
    };
    let mut el = El {
        tag,
        ty,
        start: pos,
        end: 0,
        uint: 0,
        bytes: (0, 0),
        kids: vec![],
    };
    match ty {
        0x00..=0x07 => {
            let n = 1usize << (ty & 3);
            let v = b.get(p..p + n).ok_or("truncated int")?;
            let mut x = 0u64;
            for (i, by) in v.iter().enumerate() {
                x |= (*by as u64) << (8 * i);
            }
            el.uint = x;
            p += n;
        }
        0x08 | 0x09 => {
            el.uint = (ty & 1) as u64;
        }
        0x0a => p += 4,
        0x0b => p += 8,
        0x0c..=0x13 => {
            let n = 1usize << (ty & 3);
            let v = b.get(p..p + n).ok_or("truncated length")?;
            let mut x = 0u64;
            for (i, by) in v.iter().enumerate() {
                x |= (*by as u64) << (8 * i);
            }
            p += n;
            let l = x as usize;
            if b.len() < p || b.len() - p < l {
                return Err("truncated string".into());
            }
            el.bytes = (p, p + l);
            p += l;
        }
        0x14 => {}
        0x15..=0x17 => loop {
            let c = *b.get(p).ok_or("unterminated container")?;
            if c == 0x18 {
                p += 1;
                break;
            }
            let k = walk(b, p, depth + 1)?;
            if ty == 0x16 && k.tag.is_some() {
                return Err("tagged element in array".into());
            }
            if ty == 0x15 && k.tag.is_none() {
                return Err("anonymous element in struct".into());
            }
            p = k.end;
            el.kids.push(k);
        },
        _ => return Err(format!("bad element type {:#x}", ty)),
    }
    if p > b.len() {
        return Err("truncated".into());
    }
    el.end = p;
    Ok(el)
}

fn kid(e: &El, tag: u8) -> Option<&El> {
    e.kids.iter().find(|k| k.tag == Some(tag))
}

// ------------------------------------------------------------------ chunk decoding

fn find_value(c: &Case, ep: u16, cl: u32, at: u32) -> Option<&Spec> {
    c.clusters
        .iter()
        .find(|x| x.ep == ep && x.id == cl)
        .and_then(|x| x.attrs.iter().find(|(id, _)| *id == at))
        .map(|(_, s)| s)
}

fn decode_path(p: &El) -> Option<(u16, u32, u32, Option<bool>)> {
    // list: 2 endpoint, 3 cluster, 4 attribute, 5 list index (null only)
    if p.ty != 0x17 {
        return None;
    }
    let ep = kid(p, 2)?.uint as u16;
    let cl = kid(p, 3)?.uint as u32;
    let at = kid(p, 4)?.uint as u32;
    let li = kid(p, 5).map(|k| k.ty == 0x14);
    if p.kids.iter().any(|k| !matches!(k.tag, Some(2..=5))) {
        return None;
    }
    Some((ep, cl, at, li))
}

/// One AttributeReportIB -> atom text
fn decode_attr_report(c: &Case, b: &[u8], r: &El, next_idx: &mut std::collections::BTreeMap<(u16, u32, u32), usize>) -> String {
    let sz = r.end - r.start;
    let bad = |why: &str| format!("?attr-{}/{}", why, sz);
    if r.ty != 0x15 || r.kids.len() != 1 {
        return bad("shape");
    }
    let body = &r.kids[0];
    match body.tag {
        Some(0) => {
            // AttributeStatusIB { 0: path, 1: StatusIB { 0: status, 1: cluster status } }
            let (Some(p), Some(st)) = (kid(body, 0), kid(body, 1)) else { return bad("status-shape") };
            let Some((ep, cl, at, _)) = decode_path(p) else { return bad("status-path") };
            let code = kid(st, 0).map(|k| k.uint).unwrap_or(9999);
            format!("t{}.{}.{}.{}/{}", ep, cl, at, code, sz)
        }
        Some(1) => {
            let (Some(dv), Some(p), Some(d)) = (kid(body, 0), kid(body, 1), kid(body, 2)) else { return bad("data-shape") };
            if body.kids.len() != 3 {
                return bad("data-extra");
            }
            let Some((ep, cl, at, li)) = decode_path(p) else { return bad("data-path") };
            let Some(cs) = c.clusters.iter().find(|x| x.ep == ep && x.id == cl) else { return bad("unknown-cluster") };
            if dv.uint as u32 != cs.dv {
                return bad("dataver");
            }
            let Some(spec) = find_value(c, ep, cl, at) else { return bad("unknown-attr") };
            match (spec, li, d.ty) {
                (Spec::Scalar(len), None, 0x10..=0x13) => {
                    if b[d.bytes.0..d.bytes.1] == fill(ep, cl, at, 0, *len)[..] {
                        format!("v{}.{}.{}/{}", ep, cl, at, sz)
                    } else {
                        bad("content")
                    }
                }
                (Spec::List(lens), None, 0x16) => {
                    if d.kids.is_empty() && !lens.is_empty() {
                        // the empty-list marker of a streamed list (a genuinely empty list is a whole value)
                        next_idx.insert((ep, cl, at), 0);
                        return format!("k{}.{}.{}/{}", ep, cl, at, sz);
                    }
                    let ok = d.kids.len() == lens.len()
                        && d.kids.iter().enumerate().all(|(i, k)| {
                            matches!(k.ty, 0x10..=0x13) && b[k.bytes.0..k.bytes.1] == fill(ep, cl, at, i, lens[i])[..]
                        });
                    if ok {
                        format!("v{}.{}.{}/{}", ep, cl, at, sz)
                    } else {
                        bad("list-content")
                    }
                }
                (Spec::List(lens), Some(true), 0x10..=0x13) => {
                    // appended element: which one it is, is recovered from its content
                    let got = &b[d.bytes.0..d.bytes.1];
                    let want = next_idx.get(&(ep, cl, at)).copied();
                    let mut idx = None;
                    if let Some(w) = want {
                        if w < lens.len() && got == &fill(ep, cl, at, w, lens[w])[..] {
                            idx = Some(w);
                        }
                    }
                    if idx.is_none() {
                        idx = (0..lens.len()).find(|i| got == &fill(ep, cl, at, *i, lens[*i])[..]);
                    }
                    match idx {
                        Some(i) => {
                            next_idx.insert((ep, cl, at), i + 1);
                            format!("x{}.{}.{}.{}/{}", ep, cl, at, i, sz)
                        }
                        None => bad("elem-content"),
                    }
                }
                _ => bad("kind"),
            }
        }
        _ => bad("tag"),
    }
}

fn decode_event_report(b: &[u8], r: &El) -> String {
    let sz = r.end - r.start;
    let bad = |why: &str| format!("?event-{}/{}", why, sz);
    if r.ty != 0x15 || r.kids.len() != 1 {
        return bad("shape");
    }
    let body = &r.kids[0];
    match body.tag {
        Some(1) => {
            // EventDataIB { 0 path, 1 number, 2 priority, 4 system timestamp, 7 data }
            let (Some(_p), Some(n), Some(_pr), Some(d)) = (kid(body, 0), kid(body, 1), kid(body, 2), kid(body, 7)) else {
                return bad("data-shape");
            };
            if !matches!(d.ty, 0x10..=0x13) || b[d.bytes.0..d.bytes.1] != event_fill(n.uint, d.bytes.1 - d.bytes.0)[..] {
                return bad("content");
            }
            format!("n{}/{}", n.uint, sz)
        }
        Some(0) => {
            let code = kid(body, 1).and_then(|s| kid(s, 0)).map(|k| k.uint).unwrap_or(9999);
            format!("u{}/{}", code, sz)
        }
        _ => bad("tag"),
    }
}

struct Chunk {
    text: String,
    more: bool,
    suppress: bool,
}

fn decode_chunk(c: &Case, b: &[u8], next_idx: &mut std::collections::BTreeMap<(u16, u32, u32), usize>) -> Chunk {
    let mut flags = String::new();
    let mut attrs = Vec::new();
    let mut events = Vec::new();
    let mut more = false;
    let mut suppress = false;
    let mut problem = None;
    match walk(b, 0, 0) {
        Ok(root) if root.end == b.len() && root.ty == 0x15 && root.tag.is_none() => {
            // fields must come in the order of the ReportDataMessage definition
            let mut last = -1i32;
            for k in &root.kids {
                let t = k.tag.unwrap() as i32;
                if t <= last {
                    problem = Some("field-order");
                }
                last = t;
                match (k.tag, k.ty) {
                    (Some(0), 0x04..=0x07) => {
                        flags.push('i');
                        flags.push_str(&(1usize << (k.ty & 3)).to_string());
                    }
                    (Some(1), 0x16) => {
                        flags.push('a');
                        for r in &k.kids {
                            attrs.push(decode_attr_report(c, b, r, next_idx));
                        }
                    }
                    (Some(2), 0x16) => {
                        flags.push('e');
                        for r in &k.kids {
                            events.push(decode_event_report(b, r));
                        }
                    }
                    (Some(3), 0x08 | 0x09) => {
                        if k.uint == 1 {
                            flags.push('m');
                            more = true;
                        } else {
                            flags.push('M');
                        }
                    }
                    (Some(4), 0x08 | 0x09) => {
                        if k.uint == 1 {
                            flags.push('s');
                            suppress = true;
                        } else {
                            flags.push('S');
                        }
                    }
                    (Some(0xff), 0x04) => flags.push('r'),
                    _ => problem = Some("unknown-field"),
                }
            }
        }
        Ok(_) => problem = Some("not-one-anonymous-struct"),
        Err(_) => problem = Some("malformed-tlv"),
    }
    // second opinion: the crate's own parser must accept the chunk as a ReportDataMessage
    {
        use rs_matter::im::ReportDataResp;
        use rs_matter::tlv::{FromTLV, TLVElement};
        match ReportDataResp::from_tlv(&TLVElement::new(b)) {
            Ok(r) => {
                if r.more_chunks.unwrap_or(false) != more || r.suppress_response.unwrap_or(false) != suppress {
                    problem = problem.or(Some("parsers-disagree"));
                }
                let n_a = r.attr_reports.as_ref().map(|a| a.iter().filter(|x| x.is_ok()).count()).unwrap_or(0);
                let n_e = r.event_reports.as_ref().map(|a| a.iter().filter(|x| x.is_ok()).count()).unwrap_or(0);
                if n_a != attrs.len() || n_e != events.len() {
                    problem = problem.or(Some("parsers-disagree-count"));
                }
            }
            Err(_) => problem = problem.or(Some("crate-parser-rejects")),
        }
    }
    if let Some(p) = problem {
        attrs.push(format!("?chunk-{}/{}", p, b.len()));
    }
    if flags.is_empty() {
        flags.push('-');
    }
    Chunk {
        text: format!("{}:{}:{}:{}", b.len(), flags, attrs.join(","), events.join(",")),
        more,
        suppress,
    }
}

// ------------------------------------------------------------------ one case on the real code

fn err_class(e: &Error) -> String {
    match e.code() {
        ErrorCode::TxTimeout => "txtimeout".into(),
        ErrorCode::RxTimeout => "rxtimeout".into(),
        ErrorCode::NoSession => "nosession".into(),
        ErrorCode::NoExchange => "noexchange".into(),
        c => format!("{:?}", c).to_lowercase(),
    }
}

fn run_case(c: &Case) -> String {
    let net = Net::reliable();
    let crypto = test_only_crypto();
    // short MRP intervals: an abandoned exchange is noticed in tens of milliseconds
    let det = e2e::dev_det(Some(40), Some(40));
    let matter_a = e2e::new_matter(det, true);
    let matter_b = e2e::new_matter(det, true);
    e2e::preset_case_session(&matter_a, &crypto, A_NODE, B_NODE, 1, 2, e2e::node_addr(B), 1, Default::default()).unwrap();
    e2e::preset_case_session(&matter_b, &crypto, B_NODE, A_NODE, 2, 1, e2e::node_addr(A), 1, Default::default()).unwrap();
    {
        let mut acl = AclEntry::new(None, Privilege::ADMIN, AuthMode::Case);
        acl.add_subject(A_NODE).unwrap();
        matter_b.with_state(|state| {
            state.fabrics.fabric_mut(NonZeroU8::new(1).unwrap()).unwrap().acl_add(acl).unwrap();
        });
    }
    let (a_tx, a_rx) = net.attach(A);
    let (b_tx, b_rx) = net.attach(B);

    let synth = Synth::new(&c.clusters);
    let buffers: Box<MatterBuffers> = Box::new(MatterBuffers::new());
    let state: Box<InteractionModelState<DummyNetworks, 3, EVENTS_BUF>> = Box::new(InteractionModelState::new(DummyNetworks));
    state.suppress_start_up_event();
    let kv = matter_b.kv(DummyKvBlobStore);
    // events: pushed with the timestamps of the case (hook: the encoded width of the timestamp is part of the size)
    let mut numbers = Vec::new();
    for (i, e) in c.events.iter().enumerate() {
        let prio = match e.prio {
            0 => EventPriority::Debug,
            1 => EventPriority::Info,
            _ => EventPriority::Critical,
        };
        let num = (i + 1) as u64;
        let r = state.events().verif_push_at(e.ep, e.cl, e.ev, prio, e.ts, &kv, |mut tw| {
            tw.str(&EVENT_DATA_TAG, &event_fill(num, e.len))
        });
        match r {
            Ok(n) => numbers.push(n),
            Err(err) => return format!("R {} setup-err:{} n=0 |", c.id, err_class(&err)),
        }
    }
    let dm = InteractionModel::new(&matter_b, &crypto, &*buffers, SynthDm(Async(&synth), &synth), &kv, &*state);
    let responder = Responder::new_default(&dm);

    let mut req = vec![0u8; 1024];
    let req_len = match build_request(c, &mut req) {
        Ok(n) => n,
        Err(_) => return format!("R {} request-too-long n=0 |", c.id),
    };
    req.truncate(req_len);

    let chunks: RefCell<Vec<Vec<u8>>> = RefCell::new(Vec::new());
    let tail: RefCell<String> = RefCell::new(String::new());
    let limit = c.limit;
    let subscribe = c.subscribe;

    let outcome = e2e::block_on(async {
        let device = select4(
            matter_b.run(&crypto, b_tx, b_rx, NoNetwork),
            responder.run::<2>(),
            dm.run(),
            matter_a.run(&crypto, a_tx, a_rx, NoNetwork),
        )
        .coalesce();

        let client = async {
            let mut ex = Exchange::initiate(&matter_a, &crypto, NonZeroU8::new(1).unwrap(), B_NODE).await?;
            let op = if subscribe { OpCode::SubscribeRequest } else { OpCode::ReadRequest };
            ex.send(op, &req).await?;
            loop {
                let (more, suppress) = {
                    let rx = ex.recv().await?;
                    let opcode = rx.meta().proto_opcode;
                    if opcode == OpCode::StatusResponse as u8 {
                        // the responder answered with an error status instead of data
                        use rs_matter::tlv::{FromTLV, TLVElement};
                        let st = StatusResp::from_tlv(&TLVElement::new(rx.payload())).map(|s| s.status as u32).unwrap_or(9999);
                        *tail.borrow_mut() = format!("status:{}", st);
                        drop(rx);
                        ex.acknowledge().await?;
                        return Ok::<&'static str, Error>("status");
                    }
                    if opcode != OpCode::ReportData as u8 {
                        *tail.borrow_mut() = format!("opcode:{}", opcode);
                        return Ok("unexpected-opcode");
                    }
                    let p = rx.payload().to_vec();
                    let (mut more, mut suppress) = (false, false);
                    if let Ok(root) = walk(&p, 0, 0) {
                        more = kid(&root, 3).map(|k| k.uint == 1).unwrap_or(false);
                        suppress = kid(&root, 4).map(|k| k.uint == 1).unwrap_or(false);
                    }
                    chunks.borrow_mut().push(p);
                    (more, suppress)
                };
                if more && chunks.borrow().len() >= limit {
                    // bound the run: refuse to continue
                    ex.send_with(|_, wb| {
                        StatusResp::write(wb, IMStatusCode::Failure)?;
                        Ok(Some(OpCode::StatusResponse.into()))
                    })
                    .await?;
                    return Ok("limit");
                }
                if more || !suppress {
                    ex.send_with(|_, wb| {
                        StatusResp::write(wb, IMStatusCode::Success)?;
                        Ok(Some(OpCode::StatusResponse.into()))
                    })
                    .await?;
                } else {
                    ex.acknowledge().await?;
                }
                if !more {
                    break;
                }
            }
            if subscribe {
                let rx = ex.recv().await?;
                let opcode = rx.meta().proto_opcode;
                if opcode != OpCode::SubscribeResponse as u8 {
                    *tail.borrow_mut() = format!("opcode:{}", opcode);
                    return Ok("no-subscribe-response");
                }
                drop(rx);
                ex.acknowledge().await?;
            }
            Ok("done")
        };

        match select3(
            core::pin::pin!(device),
            core::pin::pin!(client),
            core::pin::pin!(Timer::after(Duration::from_secs(15))),
        )
        .await
        {
            Either3::First(r) => format!("transport-exit:{:?}", r.map_err(|e| e.code())),
            Either3::Second(Ok(s)) => s.to_string(),
            Either3::Second(Err(e)) => format!("client-err:{}", err_class(&e)),
            Either3::Third(_) => "hang".to_string(),
        }
    });

    let mut out = format!("R {} {}", c.id, outcome);
    if !tail.borrow().is_empty() {
        write!(out, ",{}", tail.borrow()).unwrap();
    }
    let chunks = chunks.borrow();
    write!(out, " n={} |", chunks.len()).unwrap();
    // every datagram of the device must respect the transport's maximum
    let too_big = net.tap().iter().filter(|t| t.src == B && t.bytes.len() > MAX_TX_PACKET_SIZE).count();
    let mut next_idx = std::collections::BTreeMap::new();
    let texts: Vec<String> = chunks.iter().map(|b| decode_chunk(c, b, &mut next_idx).text).collect();
    write!(out, " {}", texts.join(";")).unwrap();
    if too_big > 0 {
        write!(out, " oversize-datagrams={}", too_big).unwrap();
    }
    out
}

// ------------------------------------------------------------------ generator (see gen())

fn main() {
    let args: Vec<String> = std::env::args().collect();
    match args.get(1).map(|s| s.as_str()) {
        Some("consts") => {
            println!(
                "tx={} reserve={} max_tx_packet={}",
                MAX_EXCHANGE_TX_BUF_SIZE, RESERVE, MAX_TX_PACKET_SIZE
            );
        }
        Some("run") => {
            let text = std::fs::read_to_string(&args[2]).expect("cases file");
            let stdout = std::io::stdout();
            let mut w = stdout.lock();
            for line in text.lines().filter(|l| l.starts_with("R ")) {
                let c = parse_case(line);
                let l = run_case(&c);
                writeln!(w, "{}", l).unwrap();
            }
        }
        Some("gen") => {
            let tier = args[2].clone();
            let seed: u64 = args[3].parse().unwrap();
            let outdir = args[4].clone();
            gen(&tier, seed, &outdir);
        }
        _ => {
            eprintln!("usage: c14 gen <tier> <seed> <outdir> | run <cases> | consts");
            std::process::exit(2);
        }
    }
}

fn gen(_tier: &str, seed: u64, _outdir: &str) {
    let _ = Rng::new(seed);
    unimplemented!()
}
