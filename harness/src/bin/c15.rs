//! C15 correspondence harness (nonce uniqueness, identifier allocators).
//!
//! usage: c15 gen <quick|thorough> <seed> <outdir>   -> cases.txt
//!        c15 run <cases-file>                        -> one line per case from the real code
//!
//! Case kinds
//!   N <id> <ctr0> <nex> <op>,<op>,...   Session::pre_send / post_recv op sequence (hooks)
//!        op = s:<e>:<m>:<rel>  |  r:<e>:<ctr>:<ack|->:<rel>
//!   A <id> <cursor> <used,used,...>     Sessions::get_next_sess_id with those local ids live
//!   X <id> <cursor> <id:role,...>       Sessions::get_next_exch_id (role i = initiator, r = responder)
//!   P <id> ab=<acts> ba=<acts>          PASE handshake over the scripted network (wire tap)
//!   C <id> ab=<acts> ba=<acts>          CASE handshake            "
//!   Q <id> n=<k> ab=<acts> ba=<acts>    k request/response round trips on a CASE session "
use core::num::NonZeroU8;
use std::collections::BTreeMap;
use std::fmt::Write as _;
use std::io::Write as _;

use embassy_futures::select::{select, select3, select4, Either, Either3};
use embassy_time::{Duration, Timer};

use rs_matter::crypto::test_only_crypto;
use rs_matter::error::{Error, ErrorCode};
use rs_matter::respond::{ExchangeHandler, Responder};
use rs_matter::sc::case::CaseInitiator;
use rs_matter::sc::pase::{PaseInitiator, MAX_COMM_WINDOW_TIMEOUT_SECS};
use rs_matter::sc::SecureChannel;
use rs_matter::transport::exchange::{Exchange, MessageMeta};
use rs_matter::transport::network::{Address, NoNetwork};
use rs_matter::transport::packet::PacketHdr;
use rs_matter::transport::session::{Session, SessionMode};
use rs_matter::utils::select::Coalesce;

use rsm_harness::e2e::{self, Action, Net};
use rsm_harness::Rng;

const A: u16 = 1;
const B: u16 = 2;
const A_NODE: u64 = 0x1111;
const B_NODE: u64 = 0x2222;
const SAI_MS: u32 = 80;
const PROTO: u16 = 0x00F0;

fn err_class(e: &Error) -> &'static str {
    match e.code() {
        ErrorCode::TxTimeout => "timeout",
        ErrorCode::Duplicate => "dup",
        ErrorCode::NoExchange => "noexch",
        ErrorCode::NoSession => "nosess",
        _ => "err",
    }
}

// ------------------------------------------------------------------ N: session op sequences

/// `anywhere`: `None` = a new session (the start counter is masked to 28 bits by `Session::new`);
/// `Some(case)` = a session (CASE or PASE) whose counter stands at exactly `ctr0`, anywhere in the 32-bit range.
fn run_n(ctr0: u32, nex: usize, ops: &str, anywhere: Option<bool>) -> String {
    let mut s = Session::new(1, ctr0, false, Address::new(), None, 300, 300, 4000);
    if anywhere == Some(false) {
        s.verif_set_session_mode(SessionMode::Pase { fab_idx: 0 });
    } else {
        s.verif_set_session_mode(SessionMode::Case {
            fab_idx: NonZeroU8::new(1).unwrap(),
            cat_ids: Default::default(),
        });
    }
    if anywhere.is_some() {
        s.verif_set_raw(ctr0, false, false, None);
    }
    for e in 0..nex {
        s.verif_add_exch(100 + e as u16, e % 2 == 0).unwrap();
    }
    let mut out = String::new();
    for op in ops.split(',').filter(|x| !x.is_empty()) {
        let p: Vec<&str> = op.split(':').collect();
        let e: usize = p[1].parse().unwrap();
        match p[0] {
            "s" => {
                let rel = p[3] == "1";
                let mut hdr = PacketHdr::new();
                hdr.proto.proto_id = PROTO;
                hdr.proto.proto_opcode = 1;
                if rel {
                    hdr.proto.set_reliable();
                }
                let r = rsm_harness::catch(std::panic::AssertUnwindSafe(|| {
                    s.verif_pre_send(Some(e), &mut hdr)
                        .map(|_| (hdr.plain.ctr, hdr.proto.get_ack()))
                        .map_err(|e| err_class(&e))
                }));
                match r {
                    Ok(Ok((ctr, ack))) => match ack {
                        Some(a) => write!(out, "ok:{}:{}|", ctr, a).unwrap(),
                        None => write!(out, "ok:{}:-|", ctr).unwrap(),
                    },
                    Ok(Err(c)) => write!(out, "{}|", c).unwrap(),
                    Err(_) => {
                        out.push_str("panic|");
                        break;
                    }
                }
            }
            _ => {
                let mut hdr = PacketHdr::new();
                hdr.plain.ctr = p[2].parse().unwrap();
                hdr.proto.exch_id = 100 + e as u16;
                hdr.proto.proto_id = PROTO;
                hdr.proto.proto_opcode = 1;
                // a message from the peer: it carries the initiator flag iff OUR exchange is a responder
                if e % 2 != 0 {
                    hdr.proto.set_initiator();
                }
                if p[3] != "-" {
                    hdr.proto.set_ack(Some(p[3].parse().unwrap()));
                }
                if p[4] == "1" {
                    hdr.proto.set_reliable();
                }
                match s.verif_post_recv(&hdr) {
                    Ok(_) => out.push_str("ok|"),
                    Err(e) => write!(out, "{}|", err_class(&e)).unwrap(),
                }
            }
        }
    }
    let snap = s.verif_snapshot();
    write!(out, " ctr={} exp={}", snap.msg_ctr, snap.expired as u8).unwrap();
    out
}

// ------------------------------------------------------------------ A / X: allocators

fn run_a(cursor: u16, used: &str) -> String {
    let crypto = test_only_crypto();
    let matter = e2e::new_matter(e2e::dev_det(None, None), true);
    // an id with the suffix `e` belongs to a session that is expired but still in the table
    // (it still matches incoming messages and serves its exchanges, so its id is still in use)
    for (i, u) in used.split(',').filter(|x| !x.is_empty()).enumerate() {
        let expired = u.ends_with('e');
        let u: u16 = u.trim_end_matches('e').parse().unwrap();
        e2e::preset_case_session(&matter, &crypto, A_NODE, B_NODE + i as u64, u, 7, e2e::node_addr(B), 1, Default::default()).unwrap();
        if expired {
            matter.with_state(|st| {
                let sess = st.verif_sessions();
                let id = sess.iter().find(|s| s.get_local_sess_id() == u).map(|s| s.id()).unwrap();
                sess.get(id).unwrap().verif_set_expired(true);
            });
        }
    }
    matter.with_state(|st| {
        let sess = st.verif_sessions();
        let (_, x) = sess.verif_cursors();
        sess.verif_set_cursors(cursor, x);
        let id = sess.get_next_sess_id();
        let (c2, _) = sess.verif_cursors();
        format!("{} {}", id, c2)
    })
}

fn run_x(cursor: u16, live: &str) -> String {
    let crypto = test_only_crypto();
    let matter = e2e::new_matter(e2e::dev_det(None, None), true);
    let items: Vec<(u16, bool)> = live
        .split(',')
        .filter(|x| !x.is_empty())
        .map(|x| {
            let (a, b) = x.split_once(':').unwrap();
            (a.parse().unwrap(), b == "i")
        })
        .collect();
    // up to 4 exchanges per session
    let nsess = items.len().div_ceil(4).max(1);
    for i in 0..nsess {
        e2e::preset_case_session(&matter, &crypto, A_NODE, B_NODE + i as u64, 10 + i as u16, 7, e2e::node_addr(B), 1, Default::default()).unwrap();
    }
    matter.with_state(|st| {
        let sess = st.verif_sessions();
        let ids: Vec<u32> = sess.iter().map(|s| s.id()).collect();
        for (k, (id, ini)) in items.iter().enumerate() {
            let s = sess.get(ids[k / 4]).unwrap();
            s.verif_add_exch(*id, *ini).unwrap();
        }
        let (a, _) = sess.verif_cursors();
        sess.verif_set_cursors(a, cursor);
        let id = sess.get_next_exch_id(&crypto).unwrap();
        let (_, c2) = sess.verif_cursors();
        format!("{} {}", id, c2)
    })
}

// ------------------------------------------------------------------ e2e with wire tap

fn parse_acts(s: &str) -> Vec<Action> {
    s.split('.')
        .filter(|x| !x.is_empty())
        .map(|a| match a.as_bytes()[0] {
            b'x' => Action::Drop,
            b'u' => Action::Dup,
            b'h' => Action::Hold(a[1..].parse().unwrap_or(1)),
            _ => Action::Deliver,
        })
        .collect()
}

fn field<'a>(f: &[&'a str], k: &str) -> &'a str {
    for kv in f {
        if let Some((a, b)) = kv.split_once('=') {
            if a == k {
                return b;
            }
        }
    }
    ""
}

/// The monitor's raw material: group the tapped datagrams by (sender, session id, counter).
fn tap_summary(net: &Net) -> String {
    let tap = net.tap();
    let mut groups: BTreeMap<(u16, u16, u32), Vec<&[u8]>> = BTreeMap::new();
    let mut order: BTreeMap<(u16, u16), Vec<u32>> = BTreeMap::new();
    let mut unparsed = 0;
    for t in &tap {
        match e2e::plain_key(t) {
            Some(k) => {
                let g = groups.entry(k).or_default();
                if g.is_empty() {
                    order.entry((k.0, k.1)).or_default().push(k.2);
                }
                g.push(&t.bytes);
            }
            None => unparsed += 1,
        }
    }
    let mut identical = true;
    let mut retrans = 0;
    let mut bad = String::new();
    for (k, g) in &groups {
        if g.len() > 1 {
            retrans += 1;
            if g.iter().any(|b| *b != g[0]) {
                identical = false;
                if bad.is_empty() {
                    write!(bad, "src{}:sess{}:ctr{}", k.0, k.1, k.2).unwrap();
                }
            }
        }
    }
    // first uses of counters per (sender, session) must strictly increase
    let mut increasing = true;
    for ((src, sid), v) in &order {
        for w in v.windows(2) {
            if w[1] <= w[0] {
                increasing = false;
                if bad.is_empty() {
                    write!(bad, "src{}:sess{}:ctr{}after{}", src, sid, w[1], w[0]).unwrap();
                }
            }
        }
    }
    format!(
        "datagrams={} groups={} retrans={} identical={} increasing={} unparsed={} bad={}",
        tap.len(),
        groups.len(),
        retrans,
        identical as u8,
        increasing as u8,
        unparsed,
        if bad.is_empty() { "-" } else { &bad }
    )
}

struct Echo;

impl ExchangeHandler for Echo {
    async fn handle(&self, mut exchange: Exchange<'_>) -> Result<(), Error> {
        loop {
            let rx = exchange.recv().await?;
            let mut payload = [0u8; 16];
            let n = rx.payload().len().min(16);
            payload[..n].copy_from_slice(&rx.payload()[..n]);
            drop(rx);
            // reliable reply: carries the piggy-backed acknowledgement of the request
            exchange.send(MessageMeta::new(PROTO, 2, true), &payload[..n]).await?;
        }
    }
}

fn run_e2e(kind: &str, f: &[&str]) -> String {
    let ab = parse_acts(field(f, "ab"));
    let ba = parse_acts(field(f, "ba"));
    let n: u32 = field(f, "n").parse().unwrap_or(1);
    let net = Net::new(move |src, _dst, idx, _bytes| {
        let s = if src == A { &ab } else { &ba };
        s.get(idx).copied().unwrap_or(Action::Deliver)
    });
    let crypto = test_only_crypto();
    let det = e2e::dev_det(Some(SAI_MS), Some(SAI_MS));
    let matter_a = e2e::new_matter(det, false);
    let matter_b = e2e::new_matter(det, false);
    let (a_tx, a_rx) = net.attach(A);
    let (b_tx, b_rx) = net.attach(B);
    let peer = e2e::node_addr(B);

    let mut fab_a = NonZeroU8::new(1).unwrap();
    match kind {
        "P" => {
            matter_b
                .open_basic_comm_window(MAX_COMM_WINDOW_TIMEOUT_SECS, &crypto, &())
                .unwrap();
        }
        "C" => {
            let (fa, _) = e2e::install_shared_fabric(&crypto, &matter_a, A_NODE, &matter_b, B_NODE).unwrap();
            fab_a = fa;
        }
        _ => {
            matter_a.with_state(|s| {
                s.fabrics.add_with_post_init(|_| Ok(())).unwrap();
            });
            matter_b.with_state(|s| {
                s.fabrics.add_with_post_init(|_| Ok(())).unwrap();
            });
            e2e::preset_case_session(&matter_a, &crypto, A_NODE, B_NODE, 1, 2, e2e::node_addr(B), 1, Default::default()).unwrap();
            e2e::preset_case_session(&matter_b, &crypto, B_NODE, A_NODE, 2, 1, e2e::node_addr(A), 1, Default::default()).unwrap();
        }
    }

    let sc = SecureChannel::new(&crypto, &());
    let sc_responder = Responder::new("b-sc", sc, &matter_b, 0);
    let echo_responder = Responder::new("b-echo", Echo, &matter_b, 0);
    let a_echo_responder = Responder::new("a-echo", Echo, &matter_a, 0);
    let outcome = e2e::block_on(async {
        let b_app = async {
            if kind == "Q" || kind == "Z" || kind == "V" {
                echo_responder.run::<4>().await
            } else {
                sc_responder.run::<4>().await
            }
        };
        let nodes = select4(
            matter_b.run(&crypto, b_tx, b_rx, NoNetwork),
            b_app,
            matter_a.run(&crypto, a_tx, a_rx, NoNetwork),
            net.pump(),
        )
        .coalesce();
        // kind V: node A answers requests too, and B sends it one while A's own message is pending
        let a_app = async {
            if kind == "V" {
                a_echo_responder.run::<4>().await
            } else {
                core::future::pending::<Result<(), Error>>().await
            }
        };
        let b_flow = async {
            if kind != "V" {
                return core::future::pending::<Result<(), Error>>().await;
            }
            let at: u64 = field(f, "bat").parse().unwrap_or(30);
            Timer::after(Duration::from_millis(at)).await;
            let mut ex = Exchange::initiate(&matter_b, &crypto, NonZeroU8::new(1).unwrap(), A_NODE).await?;
            ex.send(MessageMeta::new(PROTO, 1, true), &[7u8, 7, 7]).await?;
            let rx = ex.recv().await?;
            drop(rx);
            ex.acknowledge().await?;
            core::future::pending::<Result<(), Error>>().await
        };
        let nodes = async {
            match select3(core::pin::pin!(nodes), core::pin::pin!(a_app), core::pin::pin!(b_flow)).await {
                Either3::First(r) => r,
                Either3::Second(r) => r,
                Either3::Third(r) => r,
            }
        };

        let flow = async {
            let r: Result<(), Error> = match kind {
                "P" => {
                    let ex = Exchange::initiate_plaintext(&matter_a, &crypto, peer).await?;
                    PaseInitiator::perform(ex, &crypto, 20202021).await
                }
                "C" => {
                    let ex = Exchange::initiate_plaintext(&matter_a, &crypto, peer).await?;
                    CaseInitiator::perform(ex, &crypto, fab_a, B_NODE).await
                }
                "Z" => {
                    // the application abandons a reliable send before it is acknowledged (its future is
                    // dropped after `abandon` ms) and then hands ANOTHER message to the same exchange: while
                    // the first one is pending that must be refused, never sent under the pending counter
                    let abandon: u64 = field(f, "abandon").parse().unwrap_or(30);
                    let mut ex = Exchange::initiate(&matter_a, &crypto, NonZeroU8::new(1).unwrap(), B_NODE).await?;
                    let first = [1u8, 0xaa, 0xaa, 0xaa, 0xaa];
                    {
                        let send1 = ex.send(MessageMeta::new(PROTO, 1, true), &first);
                        let _ = select(core::pin::pin!(send1), core::pin::pin!(Timer::after(Duration::from_millis(abandon)))).await;
                    }
                    let mut res = Ok(());
                    for m in 0..n {
                        let mut other = [3u8, 0x55, 0x55, 0x55, 0x55];
                        other[1] = m as u8;
                        if let Err(e) = ex.send(MessageMeta::new(PROTO, 3, true), &other).await {
                            res = Err(e);
                            break;
                        }
                    }
                    // let the retransmissions of whatever is pending go out
                    Timer::after(Duration::from_millis(250)).await;
                    res
                }
                _ => {
                    let mut ex = Exchange::initiate(&matter_a, &crypto, NonZeroU8::new(1).unwrap(), B_NODE).await?;
                    let mut res = Ok(());
                    for m in 0..n {
                        let mut payload = [0u8; 5];
                        payload[0] = 1;
                        payload[1..5].copy_from_slice(&m.to_le_bytes());
                        if let Err(e) = ex.send(MessageMeta::new(PROTO, 1, true), &payload).await {
                            res = Err(e);
                            break;
                        }
                        match ex.recv().await {
                            Ok(rx) => drop(rx),
                            Err(e) => {
                                res = Err(e);
                                break;
                            }
                        }
                    }
                    if res.is_ok() {
                        ex.acknowledge().await?;
                    }
                    res
                }
            };
            Timer::after(Duration::from_millis(40)).await;
            r
        };

        match select(
            core::pin::pin!(select(core::pin::pin!(nodes), core::pin::pin!(flow))),
            core::pin::pin!(Timer::after(Duration::from_secs(40))),
        )
        .await
        {
            Either::First(Either::First(r)) => format!("transport-exit:{:?}", r.map_err(|e| e.code())),
            Either::First(Either::Second(Ok(()))) => "ok".to_string(),
            Either::First(Either::Second(Err(e))) => format!("fail:{}", err_class(&e)),
            Either::Second(_) => "hang".to_string(),
        }
    });
    format!("{} {}", outcome, tap_summary(&net))
}

fn run_line(line: &str, out: &mut String) {
    let f: Vec<&str> = line.split(' ').collect();
    match f[0] {
        "N" => writeln!(out, "N {} {}", f[1], run_n(f[2].parse().unwrap(), f[3].parse().unwrap(), f.get(4).copied().unwrap_or(""), None)).unwrap(),
        "M" => writeln!(out, "M {} {}", f[1], run_n(f[2].parse().unwrap(), f[3].parse().unwrap(), f.get(5).copied().unwrap_or(""), Some(f[4] == "c"))).unwrap(),
        "A" => writeln!(out, "A {} {}", f[1], run_a(f[2].parse().unwrap(), f.get(3).copied().unwrap_or(""))).unwrap(),
        "X" => writeln!(out, "X {} {}", f[1], run_x(f[2].parse().unwrap(), f.get(3).copied().unwrap_or(""))).unwrap(),
        "P" | "C" | "Q" | "Z" | "V" => writeln!(out, "{} {} {}", f[0], f[1], run_e2e(f[0], &f[2..])).unwrap(),
        _ => {}
    }
}

fn generate(tier: &str, seed: u64) -> Vec<String> {
    let thorough = tier == "thorough";
    let mut rng = Rng::new(seed);
    let mut cases = Vec::new();
    let mut id = 0u64;
    let mut nid = || {
        id += 1;
        id
    };
    // --- session op sequences
    for _ in 0..(if thorough { 40_000 } else { 4_000 }) {
        let nex = rng.range(1, 4) as usize;
        // one trace in four runs on a long-lived session (CASE or PASE) whose counter stands anywhere in
        // the 32-bit range, half of those within reach of the end of the range
        let anywhere = rng.chance(1, 4);
        let case_mode = rng.chance(2, 3);
        let ctr0 = if anywhere && rng.chance(1, 2) {
            0xffff_ffffu64 - rng.below(24)
        } else if rng.chance(1, 4) {
            *rng.pick(&[0u64, 1, 0x0fff_ffff, 0x0fff_fffe, 0xffff_ffff])
        } else {
            rng.below(1 << 32)
        };
        let len = rng.range(1, 30);
        let mut peer_ctr = rng.below(1000) + 1;
        let mut sent: Vec<Vec<u64>> = vec![Vec::new(); nex];
        let mut ops = Vec::new();
        let mut m = 0u64;
        // the harness cannot see the session counter: track it (ctr0 & 0x0fffffff, +1 per fresh send)
        let mut next_ctr = if anywhere { ctr0 } else { ctr0 & 0x0fff_ffff };
        let mut pending: Vec<Option<u64>> = vec![None; nex];
        // (message id, transmissions so far) of the message pending on each exchange
        let mut pending_m: Vec<Option<(u64, u32)>> = vec![None; nex];
        // three traces in four are "honest": the application re-sends the same message while a
        // retransmission is pending and the peer never pushes a new reliable message without
        // acknowledging ours
        let honest = rng.chance(3, 4);
        for _ in 0..len {
            let e = rng.below(nex as u64) as usize;
            if rng.chance(3, 5) {
                let rel = rng.chance(3, 4);
                let msg = match pending_m[e] {
                    Some((pm, _)) if honest => pm,
                    _ => {
                        m += 1;
                        m
                    }
                };
                let rel = if pending_m[e].is_some() && honest { true } else { rel };
                ops.push(format!("s:{}:{}:{}", e, msg, rel as u8));
                if pending[e].is_none() && next_ctr >= 0xffff_ffff {
                    // the counter range is used up: the send is refused
                } else if pending[e].is_none() {
                    sent[e].push(next_ctr);
                    if rel {
                        pending[e] = Some(next_ctr);
                        pending_m[e] = Some((msg, 1));
                    }
                    next_ctr += 1;
                } else if rel {
                    if let Some((pm, k)) = pending_m[e] {
                        if k >= 6 {
                            // the 7th attempt gives up and clears the entry
                            pending[e] = None;
                            pending_m[e] = None;
                        } else {
                            pending_m[e] = Some((pm, k + 1));
                        }
                    }
                }
            } else {
                peer_ctr += rng.range(1, 3);
                let ack = match rng.below(6) {
                    0 | 1 => "-".to_string(),
                    2 | 3 => match pending[e] {
                        Some(c) => c.to_string(),
                        None => sent[e].last().map(|c| c.to_string()).unwrap_or("-".into()),
                    },
                    4 => sent[e].first().map(|c| c.to_string()).unwrap_or("-".into()),
                    _ => rng.below(1 << 28).to_string(),
                };
                let mut rel = rng.chance(1, 2);
                if honest && pending[e].is_some() && ack == "-" {
                    rel = false;
                }
                if ack != "-" && pending[e].map(|c| c.to_string()) == Some(ack.clone()) {
                    pending[e] = None;
                    pending_m[e] = None;
                }
                ops.push(format!("r:{}:{}:{}:{}", e, peer_ctr, ack, rel as u8));
            }
        }
        if anywhere {
            cases.push(format!("M {} {} {} {} {}", nid(), ctr0, nex, if case_mode { "c" } else { "p" }, ops.join(",")));
        } else {
            cases.push(format!("N {} {} {} {}", nid(), ctr0, nex, ops.join(",")));
        }
    }
    // the end of the counter range, step by step: the last usable counter is 2^32-2
    for start in [0xffff_fffcu64, 0xffff_fffd, 0xffff_fffe, 0xffff_ffff] {
        for mode in ["c", "p"] {
            cases.push(format!("M {} {} 2 {} s:0:1:0,s:1:2:1,s:0:3:0,s:1:2:1,s:0:4:0,r:1:7:{}:0,s:1:5:1,s:0:6:0", nid(), start, mode, (start + 1).min(0xffff_ffff)));
        }
    }
    // give-up path: the same message 8 times
    cases.push(format!("N {} 500 1 {}", nid(), vec!["s:0:1:1"; 8].join(",")));
    // --- session id allocator: cursor around the wrap, ids in use right at the cursor
    for _ in 0..(if thorough { 600 } else { 120 }) {
        let cursor = match rng.below(4) {
            0 => *rng.pick(&[65535u64, 65534, 1, 2]),
            _ => rng.range(1, 65535),
        };
        let k = rng.range(0, 12);
        let mut used = Vec::new();
        for j in 0..k {
            let u = if rng.chance(2, 3) {
                // a run starting at the cursor, wrapping past 65535 -> 1
                let mut v = cursor + j;
                if v > 65535 {
                    v -= 65535;
                }
                v
            } else {
                rng.range(1, 65535)
            };
            if !used.contains(&u) {
                used.push(u);
            }
        }
        cases.push(format!(
            "A {} {} {}",
            nid(),
            cursor,
            used.iter()
                .map(|x| if rng.chance(1, 3) { format!("{}e", x) } else { x.to_string() })
                .collect::<Vec<_>>()
                .join(",")
        ));
    }
    // --- exchange id allocator
    for _ in 0..(if thorough { 600 } else { 120 }) {
        let cursor = match rng.below(4) {
            0 => *rng.pick(&[65535u64, 65534, 1, 2]),
            _ => rng.range(1, 65535),
        };
        let k = rng.range(0, 10);
        let mut live: Vec<(u64, bool)> = Vec::new();
        for j in 0..k {
            let mut v = if rng.chance(2, 3) { cursor + j / 2 } else { rng.range(1, 65535) };
            if v > 65535 {
                v -= 65535;
            }
            let ini = rng.chance(1, 2);
            // (id, role) pairs must be distinct within a session; keep them globally distinct
            if !live.contains(&(v, ini)) {
                live.push((v, ini));
            }
        }
        cases.push(format!(
            "X {} {} {}",
            nid(),
            cursor,
            live.iter().map(|(a, b)| format!("{}:{}", a, if *b { "i" } else { "r" })).collect::<Vec<_>>().join(",")
        ));
    }
    // --- handshakes and request/response under loss: each single datagram lost / duplicated
    for kind in ["P", "C"] {
        cases.push(format!("{} {} ab= ba=", kind, nid()));
        for i in 0..4usize {
            for dir in ["ab", "ba"] {
                for act in ["x", "u"] {
                    let mut v = vec!["d"; i];
                    v.push(act);
                    let (ab, ba) = if dir == "ab" { (v.join("."), String::new()) } else { (String::new(), v.join(".")) };
                    cases.push(format!("{} {} ab={} ba={}", kind, nid(), ab, ba));
                }
            }
        }
    }
    for _ in 0..(if thorough { 120 } else { 16 }) {
        let kind = *rng.pick(&["P", "C", "Q"]);
        let mk = |rng: &mut Rng, n: u64| -> String {
            (0..n)
                .map(|_| match rng.below(10) {
                    0..=5 => "d",
                    6..=7 => "x",
                    8 => "u",
                    _ => "h1",
                })
                .collect::<Vec<_>>()
                .join(".")
        };
        let nab = rng.range(0, 8);
        let ab = mk(&mut rng, nab);
        let nba = rng.range(0, 8);
        let ba = mk(&mut rng, nba);
        cases.push(format!("{} {} n={} ab={} ba={}", kind, nid(), rng.range(1, 3), ab, ba));
    }
    for (ab, ba) in [("", ""), ("x", ""), ("", "x"), ("d.x", "x.d"), ("u", "u"), ("", "x.x"), ("h1.d", "")] {
        cases.push(format!("Q {} n=3 ab={} ba={}", nid(), ab, ba));
    }
    // an abandoned reliable send followed by another message on the same exchange
    // another exchange of the node puts a message with a piggy-backed acknowledgement through the
    // single TX buffer between the (lost) first transmission of a message and its retransmission
    for (bat, ab) in [(20u32, "x"), (40, "x"), (60, "x"), (30, "x.d.x"), (30, "x.x")] {
        cases.push(format!("V {} n=1 bat={} ab={} ba=", nid(), bat, ab));
    }
    for (abandon, ab, ba) in [(30u32, "x.x.x.x.x.x.x", ""), (30, "x.d", "x.x"), (120, "x.x.x.x.x.x.x", ""), (10, "d", "x.x.x"), (30, "x.x", "")] {
        for n in [1u32, 2] {
            cases.push(format!("Z {} n={} abandon={} ab={} ba={}", nid(), n, abandon, ab, ba));
        }
    }
    cases
}

fn main() {
    let args: Vec<String> = std::env::args().collect();
    match args.get(1).map(|s| s.as_str()) {
        Some("gen") => {
            let outdir = std::path::PathBuf::from(&args[4]);
            std::fs::create_dir_all(&outdir).unwrap();
            let cases = generate(&args[2], args[3].parse().unwrap());
            let mut cf = std::io::BufWriter::new(std::fs::File::create(outdir.join("cases.txt")).unwrap());
            for c in &cases {
                writeln!(cf, "{}", c).unwrap();
            }
        }
        Some("run") => {
            rsm_harness::silence_panics();
            let text = std::fs::read_to_string(&args[2]).unwrap();
            let mut out = String::new();
            for line in text.lines() {
                run_line(line, &mut out);
            }
            print!("{}", out);
        }
        _ => {
            eprintln!("usage: c15 gen <tier> <seed> <outdir> | c15 run <cases>");
            std::process::exit(2);
        }
    }
}
