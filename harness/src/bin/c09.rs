//! C09 correspondence harness (reliable messaging).
//!
//! usage: c09 gen <quick|thorough> <seed> <outdir>   -> cases.txt
//!        c09 run <cases-file>                        -> one line per case from the real code
//!
//! Case kinds
//!   K <id> <base> <counter>                    RetransEntry::delay_ms_counter for all 256 jitters
//!   L <id> <active> <idle> <threshold> <0|1>   RetransEntry::retransmission_timeout_ms
//!   R <id> <op>,<op>,...                        ReliableMessage op sequence
//!        op = s:<ctr>:<rel>:<sai|->            pre_send
//!           | r:<ctr>:<ack|->:<rel>            post_recv
//!   E <id> m=<n> ab=<acts> ba=<acts> others=<k>:<n>    two real nodes, scripted network
//!        acts = '.'-separated per-datagram actions: d | x | u | h<n>  (default d)
//!   W <id> <E fields> [slow=<ms>] [oat=<ms>] [evict=<ms>]   the same with disturbances the model has
//!        no notion of (monitor only): every send of A takes <slow> ms (the single TX buffer stays
//!        taken that long), the other exchange starts <oat> ms after the first transmission, and
//!        <evict> ms after it an UNRELATED session of A is evicted through the real path (table
//!        full, a stranger's first handshake message arrives)
use core::num::NonZeroU8;
use std::cell::RefCell;
use std::fmt::Write as _;
use std::io::Write as _;

use embassy_futures::select::{select3, Either3};
use embassy_time::{Duration, Timer};

use rs_matter::crypto::test_only_crypto;
use rs_matter::error::{Error, ErrorCode};
use rs_matter::respond::{ExchangeHandler, Responder};
use rs_matter::transport::exchange::{Exchange, MessageMeta};
use rs_matter::transport::mrp::{ReliableMessage, RetransEntry};
use rs_matter::transport::network::{Address, NetworkSend, NoNetwork};
use rs_matter::transport::packet::PacketHdr;
use rs_matter::utils::storage::WriteBuf;
use rs_matter::utils::select::Coalesce;

use rsm_harness::e2e::{self, Action, Net};
use rsm_harness::Rng;

const A: u16 = 1;
const B: u16 = 2;
const A_NODE: u64 = 0x1111;
const B_NODE: u64 = 0x2222;
const SAI_MS: u32 = 80;
const PROTO: u16 = 0x00F0;

fn err_class(e: &Error) -> &'static str {
    match e.code() {
        ErrorCode::TxTimeout => "timeout",
        ErrorCode::Duplicate => "dup",
        ErrorCode::NoSession => "nosession",
        ErrorCode::RxTimeout => "rxtimeout",
        _ => "err",
    }
}

fn rm_state(rm: &ReliableMessage) -> String {
    let (r, a, recv) = rm.verif_state();
    let mut s = String::new();
    match r {
        Some((b, c, k)) => write!(s, "R{}:{}:{}", b, c, k).unwrap(),
        None => s.push_str("R-"),
    }
    match a {
        Some((c, k)) => write!(s, " A{}:{}", c, k as u8).unwrap(),
        None => s.push_str(" A-"),
    }
    write!(s, " {}", recv as u8).unwrap();
    s
}

fn run_r(ops: &str) -> String {
    let mut rm = ReliableMessage::new();
    let mut out = String::new();
    for op in ops.split(',').filter(|x| !x.is_empty()) {
        let p: Vec<&str> = op.split(':').collect();
        let res = match p[0] {
            "s" => {
                let ctr: u32 = p[1].parse().unwrap();
                let rel = p[2] == "1";
                let sai = if p[3] == "-" { None } else { Some(p[3].parse::<u32>().unwrap()) };
                let mut hdr = PacketHdr::new();
                hdr.plain.ctr = ctr;
                if rel {
                    hdr.proto.set_reliable();
                }
                let r = rsm_harness::catch(std::panic::AssertUnwindSafe(|| {
                    let r = rm.pre_send(&hdr.plain, &mut hdr.proto, sai, None);
                    (r.map_err(|e| err_class(&e)), hdr.proto.get_ack())
                }));
                match r {
                    Ok((Ok(()), ack)) => match ack {
                        Some(a) => format!("ok+{}", a),
                        None => "ok".to_string(),
                    },
                    Ok((Err(c), _)) => c.to_string(),
                    Err(_) => "panic".to_string(),
                }
            }
            _ => {
                let ctr: u32 = p[1].parse().unwrap();
                let ack = if p[2] == "-" { None } else { Some(p[2].parse::<u32>().unwrap()) };
                let rel = p[3] == "1";
                let mut hdr = PacketHdr::new();
                hdr.plain.ctr = ctr;
                hdr.proto.set_ack(ack);
                if rel {
                    hdr.proto.set_reliable();
                }
                match rm.post_recv(&hdr.plain, &hdr.proto) {
                    Ok(()) => "ok".to_string(),
                    Err(e) => err_class(&e).to_string(),
                }
            }
        };
        if res == "panic" {
            // the state after a panic is not meaningful; stop the sequence
            write!(out, "{}|", res).unwrap();
            break;
        }
        write!(out, "{} {}|", res, rm_state(&rm)).unwrap();
    }
    out
}

// ------------------------------------------------------------------ e2e

struct BLog(RefCell<Vec<(u8, u32)>>, core::cell::Cell<bool>);

impl Default for BLog {
    fn default() -> Self {
        BLog(RefCell::new(Vec::new()), core::cell::Cell::new(false))
    }
}

struct BHandler<'a>(&'a BLog);

impl ExchangeHandler for BHandler<'_> {
    async fn handle(&self, mut exchange: Exchange<'_>) -> Result<(), Error> {
        loop {
            let rx = exchange.recv().await?;
            let p = rx.payload();
            let kind = p.first().copied().unwrap_or(0);
            let id = if p.len() >= 5 {
                u32::from_le_bytes([p[1], p[2], p[3], p[4]])
            } else {
                0
            };
            let reliable = rx.meta().reliable;
            drop(rx);
            self.0 .0.borrow_mut().push((kind, id));
            if reliable {
                exchange.acknowledge().await?;
            }
            if self.0 .1.get() && kind == 1 {
                // option `reply=1`: after the explicit (stand-alone) acknowledgement a reliable
                // reply on the same exchange
                let mut reply = [9u8, 0, 0, 0, 0];
                reply[1..5].copy_from_slice(&id.to_le_bytes());
                exchange.send(MessageMeta::new(PROTO, 9, true), &reply).await?;
            }
        }
    }
}

fn parse_acts(s: &str) -> Vec<Action> {
    s.split('.')
        .filter(|x| !x.is_empty())
        .map(|a| match a.as_bytes()[0] {
            b'x' => Action::Drop,
            b'u' => Action::Dup,
            b'h' => Action::Hold(a[1..].parse().unwrap_or(1)),
            b't' => Action::Delay(a[1..].parse().unwrap_or(1)),
            _ => Action::Deliver,
        })
        .collect()
}

struct ECase {
    pase: bool,
    n_main: u32,
    ab: Vec<Action>,
    ba: Vec<Action>,
    others_after: usize,
    others_n: u32,
    slow_ms: u64,
    others_at_ms: Option<u64>,
    evict_at_ms: Option<u64>,
    reply: bool,
}

/// a link on which every send takes `ms` (a slow radio): the TX buffer stays taken that long
struct SlowSend<S> {
    inner: S,
    ms: u64,
}

impl<S: NetworkSend> NetworkSend for SlowSend<S> {
    async fn send_to(&mut self, data: &[u8], addr: Address) -> Result<(), Error> {
        if self.ms > 0 {
            Timer::after(Duration::from_millis(self.ms)).await;
        }
        self.inner.send_to(data, addr).await
    }
}

const STRANGER: u16 = 9;

/// the first handshake message of a stranger (unsecured session, new exchange)
fn stranger_datagram() -> Vec<u8> {
    let crypto = test_only_crypto();
    let mut hdr = PacketHdr::new();
    hdr.plain.sess_id = 0;
    hdr.plain.ctr = 0x0123_4567;
    hdr.plain.set_src_nodeid(Some(0x9999));
    hdr.proto.exch_id = 77;
    hdr.proto.set_initiator();
    hdr.proto.set_reliable();
    hdr.proto.proto_id = 0;
    hdr.proto.proto_opcode = 0x20;
    let mut buf = [0u8; 256];
    let mut wb = WriteBuf::new_with(&mut buf, PacketHdr::HDR_RESERVE, PacketHdr::HDR_RESERVE);
    wb.append(&[0x15, 0x30, 0x01, 0x00, 0x18]).unwrap();
    hdr.encode(&crypto, None, 0, &mut wb).unwrap();
    wb.as_slice().to_vec()
}

fn parse_e(f: &[&str]) -> ECase {
    let mut c = ECase {
        pase: false,
        n_main: 1,
        ab: vec![],
        ba: vec![],
        others_after: 0,
        others_n: 0,
        slow_ms: 0,
        others_at_ms: None,
        evict_at_ms: None,
        reply: false,
    };
    for kv in &f[2..] {
        let (k, v) = kv.split_once('=').unwrap();
        match k {
            "m" => c.n_main = v.parse().unwrap(),
            "sess" => c.pase = v == "pase",
            "ab" => c.ab = parse_acts(v),
            "ba" => c.ba = parse_acts(v),
            "slow" => c.slow_ms = v.parse().unwrap(),
            "oat" => c.others_at_ms = Some(v.parse().unwrap()),
            "evict" => c.evict_at_ms = Some(v.parse().unwrap()),
            "reply" => c.reply = v == "1",
            "others" => {
                let (a, b) = v.split_once(':').unwrap();
                c.others_after = a.parse().unwrap();
                c.others_n = b.parse().unwrap();
            }
            _ => {}
        }
    }
    c
}

/// Runs one scripted scenario on two real nodes; returns the canonical line body
/// and extra observations for the monitor.
fn run_e(case: &ECase) -> String {
    let ab = case.ab.clone();
    let ba = case.ba.clone();
    let net = Net::new(move |src, _dst, idx, _bytes| {
        let s = if src == A { &ab } else { &ba };
        s.get(idx).copied().unwrap_or(Action::Deliver)
    });
    let crypto = test_only_crypto();
    let det = e2e::dev_det(Some(SAI_MS), Some(SAI_MS));
    let matter_a = e2e::new_matter(det, true);
    let matter_b = e2e::new_matter(det, true);
    let mode = || {
        if case.pase {
            rs_matter::transport::session::SessionMode::Pase { fab_idx: 0 }
        } else {
            rs_matter::transport::session::SessionMode::Case {
                fab_idx: NonZeroU8::new(1).unwrap(),
                cat_ids: Default::default(),
            }
        }
    };
    let a_sess = e2e::preset_session(&matter_a, &crypto, A_NODE, B_NODE, 1, 2, e2e::node_addr(B), mode()).unwrap();
    e2e::preset_session(&matter_b, &crypto, B_NODE, A_NODE, 2, 1, e2e::node_addr(A), mode()).unwrap();
    if case.evict_at_ms.is_some() {
        // fill A's session table with idle sessions to other peers: the stranger's message then
        // finds no free slot and the transport evicts one of them
        let mut k = 0u16;
        while e2e::preset_session(&matter_a, &crypto, A_NODE, 0x3000 + k as u64, 100 + k, 200 + k, e2e::node_addr(50 + k), mode()).is_ok() {
            k += 1;
            if k > 64 {
                break;
            }
        }
    }
    let (a_tx, a_rx) = net.attach(A);
    let a_tx = SlowSend { inner: a_tx, ms: case.slow_ms };
    let (b_tx, b_rx) = net.attach(B);
    let _stranger = net.attach(STRANGER);
    let blog = BLog::default();
    blog.1.set(case.reply);
    let want_reply = case.reply;
    let results: RefCell<Vec<String>> = RefCell::new(Vec::new());
    let marks: RefCell<Vec<usize>> = RefCell::new(Vec::new());
    let net3 = net.clone();
    let count_main = move || {
        let tap = net3.tap();
        let ml = tap.iter().filter(|t| t.src == A).map(|t| t.bytes.len()).min().unwrap_or(0);
        tap.iter().filter(|t| t.src == A && t.bytes.len() == ml).count()
    };

    let responder = Responder::new("b", BHandler(&blog), &matter_b, 0);
    let n_main = case.n_main;
    let net2 = net.clone();
    let others_after = case.others_after;
    let others_n = case.others_n;
    let others_at_ms = case.others_at_ms;
    let evict_at_ms = case.evict_at_ms;
    let net4 = net.clone();
    let started: RefCell<Option<embassy_time::Instant>> = RefCell::new(None);

    let outcome = e2e::block_on(async {
        let device = embassy_futures::select::select4(
            matter_b.run(&crypto, b_tx, b_rx, NoNetwork),
            responder.run::<4>(),
            matter_a.run(&crypto, a_tx, a_rx, NoNetwork),
            net.pump(),
        )
        .coalesce();

        let main_flow = async {
            let mut ex = Exchange::initiate_for_session(&matter_a, &crypto, a_sess)?;
            for m in 0..n_main {
                let mut payload = [0u8; 5];
                payload[0] = 1;
                payload[1..5].copy_from_slice(&m.to_le_bytes());
                if m == 0 {
                    marks.borrow_mut().push(0);
                    *started.borrow_mut() = Some(embassy_time::Instant::now());
                }
                let r = ex.send(MessageMeta::new(PROTO, 1, true), &payload).await;
                marks.borrow_mut().push(count_main());
                let cls = match &r {
                    Ok(()) => "ok".to_string(),
                    Err(e) => err_class(e).to_string(),
                };
                results.borrow_mut().push(cls);
                if r.is_err() {
                    break;
                }
                if want_reply {
                    // fetch B's reply and acknowledge it
                    match ex.recv().await {
                        Ok(rx) => drop(rx),
                        Err(_) => break,
                    }
                    let _ = ex.acknowledge().await;
                }
            }
            // let late datagrams and acknowledgements settle
            Timer::after(Duration::from_millis(60)).await;
            Ok::<(), Error>(())
        };

        let other_flow = async {
            if others_n == 0 {
                return core::future::pending::<Result<(), Error>>().await;
            }
            if let Some(at) = others_at_ms {
                loop {
                    if let Some(t0) = *started.borrow() {
                        Timer::at(t0 + Duration::from_millis(at)).await;
                        break;
                    }
                    Timer::after(Duration::from_millis(1)).await;
                }
            } else {
                loop {
                    let sent = net2.tap().iter().filter(|t| t.src == A).count();
                    if sent >= others_after {
                        break;
                    }
                    Timer::after(Duration::from_millis(1)).await;
                }
            }
            let mut ex = Exchange::initiate_for_session(&matter_a, &crypto, a_sess)?;
            for i in 0..others_n {
                let mut payload = [0u8; 7];
                payload[0] = 2;
                payload[1..5].copy_from_slice(&i.to_le_bytes());
                ex.send(MessageMeta::new(PROTO, 2, false), &payload).await?;
            }
            core::future::pending::<Result<(), Error>>().await
        };

        let evict_flow = async {
            let Some(at) = evict_at_ms else {
                return core::future::pending::<Result<(), Error>>().await;
            };
            loop {
                if let Some(t0) = *started.borrow() {
                    Timer::at(t0 + Duration::from_millis(at)).await;
                    break;
                }
                Timer::after(Duration::from_millis(1)).await;
            }
            net4.inject(STRANGER, A, &stranger_datagram());
            core::future::pending::<Result<(), Error>>().await
        };

        let flows = async {
            match select3(core::pin::pin!(main_flow), core::pin::pin!(other_flow), core::pin::pin!(evict_flow)).await {
                Either3::First(r) => r,
                Either3::Second(r) => r,
                Either3::Third(r) => r,
            }
        };

        match select3(
            core::pin::pin!(device),
            core::pin::pin!(flows),
            core::pin::pin!(Timer::after(Duration::from_secs(20))),
        )
        .await
        {
            Either3::First(r) => format!("transport-exit:{:?}", r.map_err(|e| e.code())),
            Either3::Second(Ok(())) => "done".to_string(),
            Either3::Second(Err(e)) => format!("flow-err:{}", err_class(&e)),
            Either3::Third(_) => "hang".to_string(),
        }
    });

    let tap = net.tap();
    let delivered: Vec<String> = blog
        .0
        .borrow()
        .iter()
        .filter(|(k, _)| *k == 1)
        .map(|(_, id)| id.to_string())
        .collect();
    let others_delivered = blog.0.borrow().iter().filter(|(k, _)| *k == 2).count();
    // sessions left on A (the eviction took effect iff one of the idle ones is gone)
    let a_sessions = matter_a.with_state(|st| st.verif_sessions().iter().count());
    // observations for the monitor (not compared with the model): the times (us) of the
    // transmissions of each main message (main datagrams are recognised by their size)
    let main_len = tap
        .iter()
        .filter(|t| t.src == A)
        .map(|t| t.bytes.len())
        .min()
        .unwrap_or(0);
    // grouped by message counter (bytes 4..8 of the datagram): retransmissions carry the counter of
    // the original, and a copy still inside a slow link when the send returns stays with its message
    let mut ctrs: Vec<u32> = Vec::new();
    let mut per_ctr: Vec<Vec<String>> = Vec::new();
    for t in tap.iter().filter(|t| t.src == A && t.bytes.len() == main_len && t.bytes.len() >= 8) {
        let c = u32::from_le_bytes([t.bytes[4], t.bytes[5], t.bytes[6], t.bytes[7]]);
        match ctrs.iter().position(|x| *x == c) {
            Some(i) => per_ctr[i].push(t.t_us.to_string()),
            None => {
                ctrs.push(c);
                per_ctr.push(vec![t.t_us.to_string()]);
            }
        }
    }
    let _ = &marks;
    let per_msg: Vec<String> = per_ctr.iter().map(|v| v.join(",")).collect();
    let ba_count = tap.iter().filter(|t| t.src == B).count();
    // datagrams of B that reached A (acknowledgements, replies)
    let backs = net.delivered().iter().filter(|(s, d, _)| *s == B && *d == A).count();
    let copies = net
        .delivered()
        .iter()
        .filter(|(s, _, l)| *s == A && *l == main_len)
        .count();
    format!(
        "{} res={} delivered={} acks={} | others={} base={} copies={} asess={} backs={} tx={}",
        outcome,
        results.borrow().join("."),
        delivered.join("."),
        ba_count,
        others_delivered,
        SAI_MS,
        copies,
        a_sessions,
        backs,
        per_msg.join(";")
    )
}

fn run_line(line: &str, out: &mut String) {
    let f: Vec<&str> = line.split(' ').collect();
    match f[0] {
        "K" => {
            let base: u32 = f[2].parse().unwrap();
            let counter: u16 = f[3].parse().unwrap();
            let e = RetransEntry::new(Some(base), 7);
            let v: Vec<String> = (0..=255u8).map(|j| e.delay_ms_counter(counter, j).to_string()).collect();
            writeln!(out, "K {} {}", f[1], v.join(",")).unwrap();
        }
        "L" => {
            let v = RetransEntry::retransmission_timeout_ms(
                f[2].parse().unwrap(),
                f[3].parse().unwrap(),
                f[4].parse().unwrap(),
                f[5] == "1",
            );
            writeln!(out, "L {} {}", f[1], v).unwrap();
        }
        "R" => {
            writeln!(out, "R {} {}", f[1], run_r(f[2])).unwrap();
        }
        "E" | "W" => {
            let c = parse_e(&f);
            writeln!(out, "{} {} {}", f[0], f[1], run_e(&c)).unwrap();
        }
        _ => {}
    }
}

fn acts_str(v: &[&str]) -> String {
    v.join(".")
}

fn generate(tier: &str, seed: u64) -> Vec<String> {
    let thorough = tier == "thorough";
    let mut rng = Rng::new(seed);
    let mut cases = Vec::new();
    let mut id = 0u64;
    let mut nid = || {
        id += 1;
        id
    };
    // back-off: exhaustive over jitter for the listed bases and counters
    for base in [1u32, 2, 9, 10, 299, 300, 301, 1000, 5000, 65535, 0x7fff_ffff, 0xffff_ffff] {
        for counter in 0..=6u16 {
            cases.push(format!("K {} {} {}", nid(), base, counter));
        }
    }
    for _ in 0..(if thorough { 2000 } else { 200 }) {
        cases.push(format!("K {} {} {}", nid(), rng.below(1 << 32), rng.below(7)));
    }
    // ladder
    for (a, i, t) in [(300u32, 300u32, 0u16), (300, 5000, 4000), (300, 5000, 0), (300, 5000, 65535), (1, 1, 1), (0xffff_ffff, 0xffff_ffff, 100)] {
        for ao in [0, 1] {
            cases.push(format!("L {} {} {} {} {}", nid(), a, i, t, ao));
        }
    }
    for _ in 0..(if thorough { 3000 } else { 300 }) {
        cases.push(format!(
            "L {} {} {} {} {}",
            nid(),
            rng.below(20000) + 1,
            rng.below(20000) + 1,
            rng.below(65536),
            rng.below(2)
        ));
    }
    // ReliableMessage op sequences
    for _ in 0..(if thorough { 30000 } else { 3000 }) {
        let len = rng.range(1, 14);
        let mut ops = Vec::new();
        let mut my_ctr = rng.below(1000) + 1;
        let mut pending: Option<u64> = None;
        let mut peer_ctr = rng.below(1000) + 5000;
        for _ in 0..len {
            let k = rng.below(100);
            if k < 45 {
                // send: retransmission of the pending one, or a fresh one (1 in 12: wrong counter while pending)
                let rel = rng.chance(4, 5);
                let ctr = match pending {
                    Some(p) if rel && !rng.chance(1, 12) => p,
                    _ => {
                        my_ctr += 1;
                        my_ctr
                    }
                };
                if rel && pending.is_none() {
                    pending = Some(ctr);
                }
                let sai = match rng.below(4) {
                    0 => "-".to_string(),
                    1 => "0".to_string(),
                    _ => (rng.below(500) + 1).to_string(),
                };
                ops.push(format!("s:{}:{}:{}", ctr, rel as u8, sai));
            } else {
                peer_ctr += 1;
                let ack = match rng.below(5) {
                    0 => "-".to_string(),
                    1 | 2 => match pending {
                        Some(p) => {
                            pending = None;
                            p.to_string()
                        }
                        None => my_ctr.to_string(),
                    },
                    3 => (my_ctr.saturating_sub(1)).to_string(),
                    _ => rng.below(2000).to_string(),
                };
                ops.push(format!("r:{}:{}:{}", peer_ctr, ack, rng.chance(2, 3) as u8));
            }
        }
        cases.push(format!("R {} {}", nid(), ops.join(",")));
    }
    // budget: the same message sent 8 times without acknowledgement
    cases.push(format!("R {} {}", nid(), vec!["s:42:1:300"; 8].join(",")));

    // e2e scenarios
    let mut e = |m: u32, ab: String, ba: String, others: (usize, u32)| {
        cases.push(format!("E {} m={} ab={} ba={} others={}:{}", nid(), m, ab, ba, others.0, others.1));
    };
    // k transmissions lost then delivered, k = 0..6 (6 = everything lost => TxTimeout)
    for k in 0..=6usize {
        e(1, acts_str(&vec!["x"; k]), String::new(), (0, 0));
    }
    // the same on a passcode (PASE) session: the session kind must not matter
    // (the extra field rides on the `ba` argument: fields are space separated)
    for k in [0usize, 2, 6, 9] {
        e(1, acts_str(&vec!["x"; k]), " sess=pase".to_string(), (0, 0));
    }
    // more losses than the budget: nothing may get through afterwards either
    e(1, acts_str(&vec!["x"; 9]), String::new(), (0, 0));
    e(2, acts_str(&["d", "x", "d"]), "x.d sess=pase".to_string(), (0, 0));
    // acknowledgements lost k times
    for k in 1..=6usize {
        e(1, String::new(), acts_str(&vec!["x"; k]), (0, 0));
    }
    // duplicates in both directions, two messages
    e(2, acts_str(&["u", "u"]), acts_str(&["u", "d", "u"]), (0, 0));
    // first copy held behind the retransmission (reordering)
    e(2, acts_str(&["h1", "d"]), String::new(), (0, 0));
    e(3, acts_str(&["x", "h2", "d", "d"]), acts_str(&["x"]), (0, 0));
    // mixed loss over three messages
    e(3, acts_str(&["x", "d", "x", "x", "d", "d"]), acts_str(&["d", "x", "d"]), (0, 0));
    // an acknowledgement delayed past the next message's first (lost) transmission:
    // the stale acknowledgement must not complete the second send
    e(2, acts_str(&["d", "d", "x", "x", "x", "x", "x", "x"]), acts_str(&["t200", "d"]), (0, 0));
    e(2, acts_str(&["d", "d", "x", "d"]), acts_str(&["t150", "d", "d"]), (0, 0));
    // a copy delayed beyond the retransmission and its acknowledgement
    e(2, acts_str(&["t120", "d", "d"]), String::new(), (0, 0));
    // other traffic on the session (within the window)
    e(1, acts_str(&["x", "d", "d", "d", "d", "d"]), String::new(), (1, 5));
    // the known class: all early copies lost, overtaken by 17 newer counters of the session
    {
        let mut ab = vec!["x"];
        ab.extend(vec!["d"; 17]);
        e(1, acts_str(&ab), String::new(), (1, 17));
    }
    // random scripts
    let n_rand = if thorough { 400 } else { 40 };
    for _ in 0..n_rand {
        let m = rng.range(1, 3) as u32;
        let mk = |rng: &mut Rng, n: u64| -> String {
            let v: Vec<String> = (0..n)
                .map(|_| match rng.below(12) {
                    0..=4 => "d".to_string(),
                    5..=7 => "x".to_string(),
                    8 => "u".to_string(),
                    9 => format!("h{}", rng.range(1, 2)),
                    // delays chosen well away from every retransmission instant of the 80 ms ladder
                    _ => format!("t{}", rng.pick(&[30u32, 60, 125, 215, 300, 440])),
                })
                .collect();
            v.join(".")
        };
        let nab = rng.range(0, 10);
        let ab = mk(&mut rng, nab);
        let nba = rng.range(0, 6);
        let ba = mk(&mut rng, nba);
        let others = if rng.chance(1, 4) { (1usize, rng.range(1, 8) as u32) } else { (0, 0) };
        // other traffic is sent ~1 ms after the first datagram: keep the first message pending
        // (first copy lost) so that the datagram indices do not depend on that race
        let ab = if others.1 > 0 { format!("x.{}", ab) } else { ab };
        e(m, ab, ba, others);
    }
    // W: disturbances outside the model (monitor only; timing chosen against the 96 ms first back-off)
    // (a) first copy lost; while the sender sits in its back-off an UNRELATED session of the node is
    //     evicted (table full, a stranger's first handshake message): the back-off must run its course
    for (at, extra) in [(15u64, ""), (40, ""), (70, ""), (30, " sess=pase"), (60, " sess=pase")] {
        cases.push(format!("W {} m=2 ab=x ba= others=0:0 evict={}{}", nid(), at, extra));
    }
    cases.push(format!("W {} m=1 ab=x.x.x ba= others=0:0 evict=25", nid()));
    // (c) the receiver acknowledges explicitly and then answers with a reliable message on the same
    //     exchange; the stand-alone acknowledgement is lost, the answer (which carries the
    //     acknowledgement again) arrives: the send succeeds
    for (ab, ba) in [("", "x"), ("", "x.d"), ("x", "x"), ("", "x.x.d")] {
        cases.push(format!("W {} m=1 ab={} ba={} others=0:0 reply=1", nid(), ab, ba));
    }
    cases.push(format!("W {} m=2 ab= ba=x.d.x others=0:0 reply=1", nid()));
    // (b) a slow link: every send of A keeps the single TX buffer for <slow> ms; another exchange's
    //     message holds the buffer when the back-off expires, and the acknowledgement arrives while the
    //     sender waits for the buffer: the acknowledged message must not be sent again
    //     timeline (first back-off = 96 ms): the copy leaves the buffer at <slow> (< 96), the other
    //     exchange takes the buffer at <oat> = slow + 8 and holds it until oat + slow (> 96), the
    //     acknowledgement is delayed to arrive between 96 and oat + slow
    let slows: &[u64] = if thorough { &[40, 50, 55, 60, 65, 70, 80] } else { &[50, 60, 70] };
    for &slow in slows {
        let oat = slow + 8;
        let lo = 96 - slow;
        let hi = oat; // arrival = slow + delay must stay below oat + slow
        for delay in [(lo + hi) / 2, lo + 6, hi - 6] {
            for m in [1u32, 2] {
                cases.push(format!("W {} m={} ab= ba=t{} others=0:1 slow={} oat={}", nid(), m, delay, slow, oat));
            }
        }
    }
    cases
}

fn main() {
    let args: Vec<String> = std::env::args().collect();
    match args.get(1).map(|s| s.as_str()) {
        Some("gen") => {
            let outdir = std::path::PathBuf::from(&args[4]);
            std::fs::create_dir_all(&outdir).unwrap();
            let cases = generate(&args[2], args[3].parse().unwrap());
            let mut cf = std::io::BufWriter::new(std::fs::File::create(outdir.join("cases.txt")).unwrap());
            for c in &cases {
                writeln!(cf, "{}", c).unwrap();
            }
        }
        Some("run") => {
            rsm_harness::silence_panics();
            let text = std::fs::read_to_string(&args[2]).unwrap();
            let mut out = String::new();
            for line in text.lines() {
                run_line(line, &mut out);
            }
            print!("{}", out);
        }
        _ => {
            eprintln!("usage: c09 gen <tier> <seed> <outdir> | c09 run <cases>");
            std::process::exit(2);
        }
    }
}
