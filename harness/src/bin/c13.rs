//! C13 correspondence harness: drives the REAL subscription table
//! (`rs_matter::im::subscriptions::Subscriptions<4>` through the `verif_*` hooks, explicit `now`)
//! with operation sequences and prints, per case,
//!   `Q <id> <out>#<digest> ... | <final state>`   (compared with the extracted model), and
//!   `T <id> <op>~<snapshot>~<ob> ...`             (input of the extracted property = monitor).
//!
//!   c13 gen <quick|thorough> <seed> <outdir>   writes cases.txt + stats.json
//!   c13 run <cases-file>                        prints the Q and T lines
//!
//! Operations (`:`-separated fields):
//!   C:ep:cl:at            attribute / cluster / endpoint / global change (wildcards = sentinel values)
//!   E                     an event is emitted (event number watermark + 1)
//!   S:fab:peer:min:max:mask:now:lag   subscribe request accepted: `add` (priming context), mask = paths
//!   R:sid:k               the report held for subscription `sid` reaches path k: `should_report_attr`
//!   X:sid:o|f|d           that report ends: delivered (`set_keep`) / failed (`set_keep_retry`) / dropped
//!   B:now:lag             reporter: `report(now, evw)` (only when no report is in flight)
//!   P                     reporter: `purge_reported_changes`
//!   M:fab:peer|-          `remove` by fabric (and peer)
//!   W:now                 reporter wake-up: `remove` the expired
//!   K                     `persist_all`
//!   Z:now:lag             restart: a fresh table, `load_persist`
//! The generator executes the operations on the real table while it generates, so that ids of live
//! report contexts are known; the case is still just the operation list.
use std::collections::BTreeMap;
use std::fmt::Write as _;
use std::io::Write as _;
use std::num::NonZeroU8;

use embassy_time::Instant;
use rs_matter::error::Error;
use rs_matter::im::subscriptions::{ReportContext, Subscriptions, SubscriptionsBuffers, VerifSub};
use rs_matter::im::IMBuffer;
use rs_matter::persist::KvBlobStore;
use rs_matter::utils::storage::pooled::{Buffers, PooledBuffers};
use rsm_harness::{Digest, Rng};

#[path = "../c13_e2e.rs"]
mod c13_e2e;

const N: usize = 4;
type Pool = PooledBuffers<IMBuffer, 6>;
type Ctx = ReportContext<'static, 'static, Pool, N>;

const WILD_EP: u64 = 0xffff;
const WILD_CL: u64 = 0xffff_ffff;
const WILD_AT: u64 = 0xffff_ffff;
/// 24 "near" paths (3 endpoints x 2 clusters x 4 attributes) + 20 "far" paths, each on an endpoint and
/// cluster of its own (no two of them can be promoted into one wildcard short of the global one)
const NEAR: u64 = 24;
const NPATHS: u64 = 44;
const ALL_PATHS: u64 = (1 << NPATHS) - 1;

fn path_of_index(k: u64) -> (u16, u32, u32) {
    if k >= NEAR {
        return ((10 + k - NEAR) as u16, (100 + k - NEAR) as u32, 7);
    }
    ((k / 8) as u16, (10 + (k / 4) % 2) as u32, (k % 4) as u32)
}

#[derive(Clone, Debug)]
enum Op {
    Change(u64, u64, u64),
    Event,
    Sub { fab: u8, peer: u64, min: u16, max: u16, mask: u64, now: u64, lag: u64 },
    Read(u32, u64),
    End(u32, char),
    Begin(u64, u64),
    Purge,
    Remove(u8, Option<u64>),
    Wake(u64),
    Persist,
    Restart(u64, u64),
}

impl Op {
    fn text(&self) -> String {
        match self {
            Op::Change(e, c, a) => format!("C:{}:{}:{}", e, c, a),
            Op::Event => "E".into(),
            Op::Sub { fab, peer, min, max, mask, now, lag } => {
                format!("S:{}:{}:{}:{}:{}:{}:{}", fab, peer, min, max, mask, now, lag)
            }
            Op::Read(s, k) => format!("R:{}:{}", s, k),
            Op::End(s, r) => format!("X:{}:{}", s, r),
            Op::Begin(now, lag) => format!("B:{}:{}", now, lag),
            Op::Purge => "P".into(),
            Op::Remove(f, Some(p)) => format!("M:{}:{}", f, p),
            Op::Remove(f, None) => format!("M:{}:-", f),
            Op::Wake(now) => format!("W:{}", now),
            Op::Persist => "K".into(),
            Op::Restart(now, lag) => format!("Z:{}:{}", now, lag),
        }
    }

    fn parse(t: &str) -> Op {
        let f: Vec<&str> = t.split(':').collect();
        let n = |i: usize| -> u64 { f[i].parse().unwrap() };
        match f[0] {
            "C" => Op::Change(n(1), n(2), n(3)),
            "E" => Op::Event,
            "S" => Op::Sub {
                fab: n(1) as u8,
                peer: n(2),
                min: n(3) as u16,
                max: n(4) as u16,
                mask: n(5),
                now: n(6),
                lag: n(7),
            },
            "R" => Op::Read(n(1) as u32, n(2)),
            "X" => Op::End(n(1) as u32, f[2].chars().next().unwrap()),
            "B" => Op::Begin(n(1), n(2)),
            "P" => Op::Purge,
            "M" => Op::Remove(n(1) as u8, if f[2] == "-" { None } else { Some(n(2)) }),
            "W" => Op::Wake(n(1)),
            "K" => Op::Persist,
            "Z" => Op::Restart(n(1), n(2)),
            _ => panic!("bad op {}", t),
        }
    }

    fn now(&self) -> Option<u64> {
        match self {
            Op::Sub { now, .. } | Op::Begin(now, _) | Op::Wake(now) | Op::Restart(now, _) => Some(*now),
            _ => None,
        }
    }
}

#[derive(Default)]
struct MemKv(BTreeMap<u16, Vec<u8>>);

impl KvBlobStore for &mut MemKv {
    fn load<'a>(&mut self, key: u16, buf: &'a mut [u8]) -> Result<Option<&'a [u8]>, Error> {
        Ok(self.0.get(&key).map(|v| {
            buf[..v.len()].copy_from_slice(v);
            &buf[..v.len()]
        }))
    }
    fn store(&mut self, key: u16, data: &[u8], _buf: &mut [u8]) -> Result<(), Error> {
        self.0.insert(key, data.to_vec());
        Ok(())
    }
    fn remove(&mut self, key: u16, _buf: &mut [u8]) -> Result<(), Error> {
        self.0.remove(&key);
        Ok(())
    }
}

fn inst(ms: u64) -> Instant {
    Instant::from_millis(ms)
}

/// Instant -> model value: `Instant::MAX` is the model's IMAX (u64::MAX), anything else milliseconds
fn ms(i: Instant) -> u64 {
    if i == Instant::MAX {
        u64::MAX
    } else {
        i.as_millis()
    }
}

fn ims(v: u64) -> String {
    if v == u64::MAX {
        "M".into()
    } else {
        v.to_string()
    }
}

fn mask_of(rx: &[u8]) -> u64 {
    if rx.len() >= 8 {
        u64::from_le_bytes([rx[0], rx[1], rx[2], rx[3], rx[4], rx[5], rx[6], rx[7]])
    } else {
        u64::MAX
    }
}

/// One boot of the device: a table, its buffers, the live report contexts.
struct Boot {
    pool: *mut Pool,
    subs: *mut Subscriptions<N>,
    bufs: *mut SubscriptionsBuffers<'static, Pool, N>,
    /// (subscription id, priming?, context), creation order
    ctxs: Vec<(u32, bool, Ctx)>,
    /// per context: (an attribute was emitted, paths passed so far) - what `respond` in im.rs knows when it
    /// decides whether an empty report is sent
    meta: Vec<(bool, u64)>,
}

impl Drop for Boot {
    fn drop(&mut self) {
        // the contexts put their subscription back (or drop it) in the table they borrow
        self.ctxs.clear();
        unsafe {
            drop(Box::from_raw(self.bufs));
            drop(Box::from_raw(self.subs));
            drop(Box::from_raw(self.pool));
        }
    }
}

impl Boot {
    fn new() -> Self {
        Boot {
            pool: Box::into_raw(Box::new(Pool::new())),
            subs: Box::into_raw(Box::new(Subscriptions::<N>::new())),
            bufs: Box::into_raw(Box::new(SubscriptionsBuffers::new())),
            ctxs: Vec::new(),
            meta: Vec::new(),
        }
    }
    fn pool(&self) -> &'static Pool {
        unsafe { &*self.pool }
    }
    fn subs(&self) -> &'static Subscriptions<N> {
        unsafe { &*self.subs }
    }
    fn bufs(&self) -> &'static SubscriptionsBuffers<'static, Pool, N> {
        unsafe { &*self.bufs }
    }

    fn ctx_index(&self, sid: u32) -> Option<usize> {
        self.ctxs.iter().position(|c| c.0 == sid)
    }

    fn report_slot_free(&self) -> bool {
        !self.ctxs.iter().any(|c| !c.1) && self.subs().verif_report_slot_free()
    }
}

struct Machine {
    boot: Boot,
    kv: MemKv,
    evn: u64,
    clock: u64,
}

fn sub_words(v: &VerifSub, mask: u64, out: &mut Vec<u64>) {
    out.extend_from_slice(&[
        v.id as u64,
        v.fab_idx as u64,
        v.peer_node_id,
        v.min_int_secs as u64,
        v.max_int_secs as u64,
        ms(v.reported_at),
        ms(v.accepted_at),
        ms(v.retry_at),
        v.fail_count as u64,
        v.max_seen_attr_change_id,
        v.max_seen_event_number,
        mask,
    ]);
}

fn sub_text(v: &VerifSub, mask: u64) -> String {
    format!(
        "{}.{}.{}.{}.{}.{}.{}.{}.{}.{}.{}.{}",
        v.id,
        v.fab_idx,
        v.peer_node_id,
        v.min_int_secs,
        v.max_int_secs,
        ims(ms(v.reported_at)),
        ims(ms(v.accepted_at)),
        ims(ms(v.retry_at)),
        v.fail_count,
        v.max_seen_attr_change_id,
        v.max_seen_event_number,
        mask
    )
}

impl Machine {
    fn new() -> Self {
        Machine { boot: Boot::new(), kv: MemKv::default(), evn: 0, clock: 0 }
    }

    /// Executes one operation on the real table. Returns (out token, `should_report_attr` answer).
    fn exec(&mut self, op: &Op) -> (String, Option<bool>) {
        if let Some(n) = op.now() {
            self.clock = self.clock.max(n);
        }
        let subs = self.boot.subs();
        let bufs = self.boot.bufs();
        match op {
            Op::Change(e, c, a) => {
                if *a == WILD_AT {
                    if *c == WILD_CL {
                        if *e == WILD_EP {
                            subs.verif_notify_all_changed();
                        } else {
                            subs.verif_notify_endpoint_changed(*e as u16);
                        }
                    } else {
                        subs.verif_notify_cluster_changed(*e as u16, *c as u32);
                    }
                } else {
                    subs.verif_notify_attr_changed(*e as u16, *c as u32, *a as u32);
                }
                ("-".into(), None)
            }
            Op::Event => {
                self.evn += 1;
                subs.notify_event_emitted(0, 0, 0);
                ("-".into(), None)
            }
            Op::Sub { fab, peer, min, max, mask, now, lag } => {
                let mut rx = self.boot.pool().get_immediate().expect("pool exhausted");
                rx.clear();
                rx.extend_from_slice(&mask.to_le_bytes()).unwrap();
                let r = subs.verif_add(
                    inst(*now),
                    NonZeroU8::new(*fab).unwrap(),
                    *peer,
                    *min,
                    *max,
                    self.evn.saturating_sub(*lag),
                    rx,
                    bufs,
                );
                match r {
                    Some(rctx) => {
                        let id = rctx.subscription().ids().id;
                        self.boot.ctxs.push((id, true, rctx));
                        self.boot.meta.push((false, 0));
                        (format!("s{}", id), None)
                    }
                    None => ("s-".into(), None),
                }
            }
            Op::Read(sid, k) => match self.boot.ctx_index(*sid) {
                Some(i) => {
                    let (e, c, a) = path_of_index(*k);
                    let b = self.boot.ctxs[i].2.should_report_attr(e, c, a);
                    if self.boot.meta[i].1 & (1 << k) == 0 {
                        self.boot.meta[i].1 |= 1 << k;
                        self.boot.meta[i].0 |= b;
                    }
                    ((if b { "t" } else { "f" }).into(), Some(b))
                }
                None => ("-".into(), None),
            },
            Op::End(sid, r) => match self.boot.ctx_index(*sid) {
                Some(i) => {
                    let (_, _, mut rctx) = self.boot.ctxs.remove(i);
                    let (mut emitted, passed) = self.boot.meta.remove(i);
                    let mut sent = None;
                    match r {
                        'o' => rctx.set_keep(),
                        'f' => rctx.set_keep_retry(),
                        's' => {
                            // what im.rs does with a report that found no event to send: the rest of the request is
                            // passed; the report is sent if an attribute was emitted or it is the liveness report,
                            // else it is skipped (set_unsent) - and kept either way
                            let mask = mask_of(rctx.rx()) & ALL_PATHS;
                            for k in 0..NPATHS {
                                if mask & (1 << k) != 0 && passed & (1 << k) == 0 {
                                    let (e, c, a) = path_of_index(k);
                                    emitted |= rctx.should_report_attr(e, c, a);
                                }
                            }
                            let s = rctx.should_send_if_empty() || emitted;
                            if !s {
                                rctx.set_unsent();
                            }
                            rctx.set_keep();
                            sent = Some(s);
                        }
                        _ => {}
                    }
                    drop(rctx);
                    match sent {
                        Some(s) => ((if s { "t" } else { "f" }).into(), Some(s)),
                        None => ("t".into(), None),
                    }
                }
                None => ("-".into(), None),
            },
            Op::Begin(now, lag) => {
                if !self.boot.report_slot_free() {
                    return ("-".into(), None);
                }
                match subs.verif_report(inst(*now), self.evn.saturating_sub(*lag), bufs) {
                    Some(rctx) => {
                        let id = rctx.subscription().ids().id;
                        self.boot.ctxs.push((id, false, rctx));
                        self.boot.meta.push((false, 0));
                        (format!("s{}", id), None)
                    }
                    None => ("s-".into(), None),
                }
            }
            Op::Purge => {
                subs.verif_purge_reported_changes();
                ("-".into(), None)
            }
            Op::Remove(fab, peer) => {
                let b = subs.verif_remove(bufs, |v, _| {
                    v.fab_idx == *fab && peer.map_or(true, |p| v.peer_node_id == p)
                });
                ((if b { "t" } else { "f" }).into(), None)
            }
            Op::Wake(now) => {
                let t = inst(*now);
                let b = subs.verif_remove(bufs, |_, s| s.is_expired(t));
                ((if b { "t" } else { "f" }).into(), None)
            }
            Op::Persist => {
                let mut buf = [0u8; 512];
                subs.verif_persist_all(bufs, &mut self.kv, &mut buf).unwrap();
                ("-".into(), None)
            }
            Op::Restart(now, lag) => {
                self.boot = Boot::new();
                let mut buf = [0u8; 512];
                let boot = &self.boot;
                boot.subs()
                    .verif_load_persist(
                        boot.pool(),
                        boot.bufs(),
                        &mut self.kv,
                        &mut buf,
                        inst(*now),
                        self.evn.saturating_sub(*lag),
                    )
                    .unwrap();
                ("-".into(), None)
            }
        }
    }

    /// (digest of the non-ghost state + every timing decision at (clock, evn), snapshot text)
    fn observe(&self) -> (u64, String) {
        let subs = self.boot.subs();
        let bufs = self.boot.bufs();
        let snap = subs.verif_snapshot();
        let mut masks = Vec::new();
        subs.verif_buffers(bufs, |_, rx| masks.push(mask_of(rx)));
        let dec = subs.verif_decisions(inst(self.clock), self.evn);
        let nra = ms(subs.verif_next_report_at(self.evn, bufs));

        let mut w: Vec<u64> = vec![
            snap.next_subscription_id as u64,
            snap.subscriptions_count as u64,
            snap.next_change_id,
            snap.reporting.as_ref().map_or(0, |s| s.id as u64),
            snap.reporting_cancelled as u64,
            snap.changed_attrs.len() as u64,
        ];
        for e in &snap.changed_attrs {
            w.extend_from_slice(&[e.0 as u64, e.1 as u64, e.2 as u64, e.3]);
        }
        w.push(snap.subscriptions.len() as u64);
        for (i, s) in snap.subscriptions.iter().enumerate() {
            let mask = masks.get(i).copied().unwrap_or(u64::MAX);
            sub_words(s, mask, &mut w);
            let d = &dec[i];
            assert_eq!(d.id, s.id);
            w.extend_from_slice(&[
                ms(d.report_allowed_at),
                ms(d.report_due_at),
                ms(d.next_report_at),
                d.is_reportable as u64,
                d.is_expired as u64,
            ]);
        }
        w.push(self.boot.ctxs.len() as u64);
        let mut xs = Vec::new();
        for (_, prim, rctx) in &self.boot.ctxs {
            let v = rctx.verif_snapshot();
            let mask = mask_of(rctx.rx());
            sub_words(&v.subscription, mask, &mut w);
            w.extend_from_slice(&[
                *prim as u64,
                v.next_max_seen_attr_change_id,
                v.next_max_seen_event_number,
                ms(v.next_reported_at),
            ]);
            xs.push(format!(
                "{}.{}.{}.{}.{}",
                sub_text(&v.subscription, mask),
                *prim as u8,
                v.next_max_seen_attr_change_id,
                v.next_max_seen_event_number,
                ims(ms(v.next_reported_at))
            ));
        }
        w.push(nra);
        let mut d = Digest::new();
        for x in &w {
            d.push(*x);
        }

        let text = format!(
            "n{}.{}.{}.{}.{}/T{}/S{}/X{}",
            snap.next_subscription_id,
            snap.subscriptions_count,
            snap.next_change_id,
            snap.reporting.as_ref().map_or("-".to_string(), |s| s.id.to_string()),
            snap.reporting_cancelled as u8,
            snap.changed_attrs
                .iter()
                .map(|e| format!("{}.{}.{}.{}", e.0, e.1, e.2, e.3))
                .collect::<Vec<_>>()
                .join(","),
            snap.subscriptions
                .iter()
                .enumerate()
                .map(|(i, s)| sub_text(s, masks.get(i).copied().unwrap_or(u64::MAX)))
                .collect::<Vec<_>>()
                .join(","),
            xs.join(",")
        );
        (d.0, text)
    }
}

// ------------------------------------------------------------------ event queue (stream V)

const VCAP: usize = 256;

struct EvMachine {
    matter: rs_matter::Matter<'static>,
    events: Box<rs_matter::im::events::Events<VCAP>>,
}

impl EvMachine {
    fn new() -> Self {
        EvMachine {
            matter: rsm_harness::e2e::new_matter(rsm_harness::e2e::dev_det(None, None), false),
            events: Box::new(rs_matter::im::events::Events::new()),
        }
    }

    /// pushes an event with `pay` bytes of payload; (accepted, dump text, encoded length of the new event)
    fn push(&self, prio: u64, pay: usize) -> (bool, String, Option<usize>) {
        use rs_matter::tlv::TLVWrite;
        let kv = self.matter.kv(rs_matter::persist::DummyKvBlobStore);
        let prio_e = match prio {
            0 => rs_matter::im::EventPriority::Debug,
            1 => rs_matter::im::EventPriority::Info,
            _ => rs_matter::im::EventPriority::Critical,
        };
        let fill = vec![0x44u8; pay];
        let r = self.events.verif_push_at(1, 10, 1, prio_e, 77, &kv, |mut tw| {
            tw.str(&rs_matter::im::events::EVENT_DATA_TAG, &fill)
        });
        let dump = self.events.verif_dump();
        let tier = |t: u8| {
            dump.iter()
                .filter(|e| e.0 == t)
                .map(|e| format!("{}.{}.{}", e.1, e.2, e.3))
                .collect::<Vec<_>>()
                .join(",")
        };
        let text = format!("c[{}]i[{}]d[{}]n{}", tier(2), tier(1), tier(0), self.events.verif_next_event_number());
        let len = if r.is_ok() { dump.iter().filter(|e| e.0 == 0).last().map(|e| e.3) } else { None };
        (r.is_ok(), text, len)
    }
}

fn run_v(line: &str, out: &mut String) {
    let f: Vec<&str> = line.split(' ').filter(|t| !t.is_empty()).collect();
    let m = EvMachine::new();
    write!(out, "V {}", f[1]).unwrap();
    for tok in &f[2..] {
        let p: Vec<u64> = tok.split(':').map(|x| x.parse().unwrap()).collect();
        let (ok, text, len) = m.push(p[0], p[1] as usize);
        // the length the case was generated with must be the one the encoder produces
        let tag = match len {
            Some(l) if l as u64 != p[2] => "?",
            _ if ok => "+",
            _ => "!",
        };
        write!(out, " {}{}", tag, text).unwrap();
    }
    out.push('\n');
}

fn run_line(line: &str, out: &mut String) {
    if line.starts_with("V ") {
        return run_v(line, out);
    }
    if line.starts_with("U ") {
        return c13_e2e::run_scenario(line, out);
    }
    let mut it = line.split(' ');
    if it.next() != Some("Q") {
        return;
    }
    let id = it.next().unwrap();
    let mut m = Machine::new();
    let mut q = format!("Q {}", id);
    let mut t = format!("T {}", id);
    let mut last = m.observe().1;
    for tok in it.filter(|t| !t.is_empty()) {
        let op = Op::parse(tok);
        let (o, ob) = m.exec(&op);
        let (d, text) = m.observe();
        write!(q, " {}#{:016x}", o, d).unwrap();
        write!(
            t,
            " {}~{}~{}",
            tok,
            text,
            match ob {
                Some(true) => "t",
                Some(false) => "f",
                None => "-",
            }
        )
        .unwrap();
        last = text;
    }
    writeln!(out, "{} | {}", q, last).unwrap();
    writeln!(out, "{}", t).unwrap();
}

// ------------------------------------------------------------------ generation

struct Gen {
    rng: Rng,
    m: Machine,
    ops: Vec<Op>,
    now: u64,
    hist: BTreeMap<String, u64>,
}

impl Gen {
    fn new(rng: Rng) -> Self {
        Gen { rng, m: Machine::new(), ops: Vec::new(), now: 0, hist: BTreeMap::new() }
    }

    fn push(&mut self, op: Op) -> String {
        // a case is at most 60 operations
        if self.ops.len() >= 60 {
            return "-".into();
        }
        let k = op.text().split(':').next().unwrap().to_string();
        let k = match &op {
            Op::End(_, r) => format!("X{}", r),
            Op::Change(_, c, a) if *a == WILD_AT => {
                if *c == WILD_CL {
                    "Cwild2".to_string()
                } else {
                    "Cwild1".to_string()
                }
            }
            _ => k,
        };
        *self.hist.entry(k).or_insert(0) += 1;
        let (o, _) = self.m.exec(&op);
        self.ops.push(op);
        o
    }

    fn tick(&mut self, max_ms: u64) {
        self.now += self.rng.below(max_ms + 1);
    }

    fn lag(&mut self) -> u64 {
        if self.rng.chance(1, 8) {
            self.rng.below(3)
        } else {
            0
        }
    }

    fn rand_path(&mut self, hot: u64) -> u64 {
        if self.rng.chance(1, 8) {
            NEAR + self.rng.below(NPATHS - NEAR)
        } else if self.rng.chance(1, 2) {
            self.rng.below(hot.min(NEAR))
        } else {
            self.rng.below(NEAR)
        }
    }

    fn change(&mut self, hot: u64) {
        let r = self.rng.below(40);
        let op = if r == 0 {
            Op::Change(WILD_EP, WILD_CL, WILD_AT)
        } else if r <= 2 {
            Op::Change(self.rng.below(3), WILD_CL, WILD_AT)
        } else if r <= 5 {
            Op::Change(self.rng.below(3), 10 + self.rng.below(2), WILD_AT)
        } else {
            let (e, c, a) = path_of_index(self.rand_path(hot));
            Op::Change(e as u64, c as u64, a as u64)
        };
        self.push(op);
    }

    fn rand_mask(&mut self) -> u64 {
        match self.rng.below(6) {
            0 => 0xff_ffff,
            5 => ALL_PATHS,
            1 => 1 << self.rng.below(NPATHS),
            2 => 0xff << (8 * self.rng.below(3)),
            _ => {
                let mut m = 0u64;
                for _ in 0..self.rng.range(1, 6) {
                    m |= 1 << self.rng.below(NPATHS);
                }
                m
            }
        }
    }

    fn subscribe(&mut self, min: Option<u16>, max: Option<u16>) -> Option<u32> {
        let mask = self.rand_mask();
        self.subscribe_mask(min, max, mask)
    }

    fn subscribe_mask(&mut self, min: Option<u16>, max: Option<u16>, mask: u64) -> Option<u32> {
        let min = min.unwrap_or_else(|| *self.rng.pick(&[0u16, 0, 1, 2, 5, 30]));
        let max = max.unwrap_or_else(|| *self.rng.pick(&[40u16, 40, 41, 60, 120, 3600, 65535]));
        let op = Op::Sub {
            fab: self.rng.range(1, 2) as u8,
            peer: 100 + self.rng.below(3),
            min,
            max,
            mask,
            now: self.now,
            lag: self.lag(),
        };
        let o = self.push(op);
        o[1..].parse::<u32>().ok()
    }

    fn ctx_ids(&self, prim: bool) -> Vec<u32> {
        self.m.boot.ctxs.iter().filter(|c| c.1 == prim).map(|c| c.0).collect()
    }

    fn ctx_mask(&self, sid: u32) -> u64 {
        self.m.boot.ctxs.iter().find(|c| c.0 == sid).map_or(0, |c| mask_of(c.2.rx())) & ALL_PATHS
    }

    /// some or all paths of the context's request
    fn reads(&mut self, sid: u32, all: bool) {
        let mask = self.ctx_mask(sid);
        let mut n = 0;
        for k in 0..NPATHS {
            if mask & (1 << k) != 0 && (all || self.rng.chance(1, 2)) && n < 26 {
                self.push(Op::Read(sid, k));
                n += 1;
            }
        }
    }

    fn end(&mut self, sid: u32, r: char) {
        if r == 'o' && self.rng.chance(3, 4) {
            self.reads(sid, true);
        }
        self.push(Op::End(sid, r));
    }

    /// one reporter iteration as in im.rs: wake, sweep, report while reportable, purge
    fn reporter_round(&mut self, fail_pct: u64, interleave: bool) {
        self.push(Op::Wake(self.now));
        for _ in 0..4 {
            let lag = self.lag();
            let o = self.push(Op::Begin(self.now, lag));
            let Some(sid) = o[1..].parse::<u32>().ok() else { break };
            self.reads(sid, false);
            if interleave && self.rng.chance(1, 2) {
                self.change(8);
            }
            let r = if self.rng.below(100) < fail_pct {
                'f'
            } else if self.rng.chance(1, 20) {
                'd'
            } else if self.rng.chance(1, 4) {
                's'
            } else {
                'o'
            };
            self.end(sid, r);
            if self.ops.len() > 52 {
                break;
            }
        }
        self.push(Op::Purge);
    }

    fn random_step(&mut self, hot: u64) {
        let prim = self.ctx_ids(true);
        let rep = self.ctx_ids(false);
        let r = self.rng.below(100);
        match r {
            0..=24 => self.change(hot),
            25..=29 => {
                self.push(Op::Event);
            }
            30..=37 => {
                self.subscribe(None, None);
            }
            38..=49 => {
                if let Some(&sid) = prim.first().or(rep.first()) {
                    let sid = if self.rng.chance(1, 2) { sid } else { *self.rng.pick(&[prim.clone(), rep.clone()].concat()) };
                    let k = self.rand_path(hot);
                    self.push(Op::Read(sid, k));
                } else {
                    self.change(hot);
                }
            }
            50..=59 => {
                let all = [prim.clone(), rep.clone()].concat();
                if !all.is_empty() {
                    let sid = *self.rng.pick(&all);
                    let r = *self.rng.pick(&['o', 'o', 'o', 's', 's', 'f', 'f', 'd']);
                    self.end(sid, r);
                } else {
                    self.tick(3000);
                }
            }
            60..=71 => {
                let lag = self.lag();
                self.push(Op::Begin(self.now, lag));
            }
            72..=79 => {
                self.push(Op::Purge);
            }
            80..=82 => {
                let peer = if self.rng.chance(1, 2) { Some(100 + self.rng.below(3)) } else { None };
                let fab = self.rng.range(1, 2) as u8;
                self.push(Op::Remove(fab, peer));
            }
            83..=87 => {
                self.push(Op::Wake(self.now));
            }
            88..=89 => {
                self.push(Op::Persist);
            }
            90 => {
                self.push(Op::Persist);
                self.tick(5000);
                let lag = self.lag();
                self.push(Op::Restart(self.now, lag));
            }
            91 => {
                let lag = self.lag();
                self.push(Op::Restart(self.now, lag));
            }
            _ => {
                let d = *self.rng.pick(&[10u64, 500, 1000, 2000, 5000, 20000, 45000]);
                self.tick(d);
            }
        }
    }

    fn finish(self, id: u64, stream: &str) -> (String, BTreeMap<String, u64>, usize) {
        let mut s = format!("Q {}{}", stream, id);
        for op in &self.ops {
            s.push(' ');
            s.push_str(&op.text());
        }
        let n = self.ops.len();
        (s, self.hist, n)
    }
}

fn gen_case(stream: &str, id: u64, rng: Rng) -> (String, BTreeMap<String, u64>, usize) {
    let mut g = Gen::new(rng);
    match stream {
        // free interleaving of everything
        "r" => {
            let hot = *g.rng.pick(&[4u64, 8, 24]);
            let len = g.rng.range(10, 58);
            while g.ops.len() < len as usize {
                g.random_step(hot);
            }
        }
        // a change races with a priming that spans several round trips, next to other subscribers
        "p" => {
            g.now = g.rng.below(100_000);
            for _ in 0..g.rng.below(3) {
                if let Some(sid) = g.subscribe(Some(0), None) {
                    g.end(sid, 'o');
                }
            }
            let sid = g.subscribe(None, None);
            for _ in 0..g.rng.range(1, 4) {
                if let Some(sid) = sid {
                    g.reads(sid, false);
                }
                g.change(4);
                if g.rng.chance(2, 3) {
                    g.tick(1500);
                    g.reporter_round(10, false);
                }
            }
            if let Some(sid) = sid {
                let r = *g.rng.pick(&['o', 'o', 'o', 'd']);
                g.end(sid, r);
            }
            for _ in 0..2 {
                g.tick(40_000);
                g.reporter_round(0, true);
            }
        }
        // more than 16 distinct pending changes with a slow subscriber: coalescing at every level
        "o" => {
            for _ in 0..g.rng.range(1, 3) {
                if let Some(sid) = g.subscribe(Some(0), Some(3600)) {
                    g.end(sid, 'o');
                }
            }
            let start = g.rng.below(NPATHS);
            let n = g.rng.range(14, 30);
            for i in 0..n {
                let k = if g.rng.chance(3, 4) { (start + i) % NPATHS } else { g.rng.below(NPATHS) };
                let (e, c, a) = path_of_index(k);
                g.push(Op::Change(e as u64, c as u64, a as u64));
                if g.rng.chance(1, 10) {
                    g.tick(2000);
                    g.reporter_round(30, true);
                }
            }
            g.tick(2000);
            g.reporter_round(20, true);
            g.tick(2000);
            g.reporter_round(0, false);
        }
        // branch stream for the overflow arms of record_raw / promote_and_insert: a full table (16 pending
        // changes pinned by a lagging subscriber - quiet in its min interval, or with its report in flight),
        // a second subscriber that is caught up, then the 17th change, chosen so that the overflow is resolved by
        // (0) the global wildcard (no two entries share an endpoint), (1) a level-2 promotion, (2) a level-1
        // promotion, (3)/(4) a promotion after which the new change is already covered
        "g" => {
            g.now = g.rng.below(50_000);
            let arm = g.rng.below(5);
            let in_flight = g.rng.chance(1, 3);
            // the 16 entries and the 17th change
            let mut far: Vec<u64> = (NEAR..NPATHS).collect();
            for i in (1..far.len()).rev() {
                let j = g.rng.below(i as u64 + 1) as usize;
                far.swap(i, j);
            }
            let ep = g.rng.below(3);
            let near = |c: u64, a: u64| ep * 8 + c * 4 + a;
            let (mut fill, last): (Vec<u64>, u64) = match arm {
                0 => (far[..16].to_vec(), far[16]),
                1 => ([&far[..14], &[near(0, g.rng.below(4)), near(1, g.rng.below(4))][..]].concat(), far[16]),
                2 => ([&far[..14], &[near(0, 0), near(0, 2)][..]].concat(), far[16]),
                3 => ([&far[..14], &[near(1, 1), near(1, 3)][..]].concat(), near(1, 0)),
                _ => ([&far[..14], &[near(0, 1), near(1, 1)][..]].concat(), near(1, 2)),
            };
            for i in (1..fill.len()).rev() {
                let j = g.rng.below(i as u64 + 1) as usize;
                fill.swap(i, j);
            }
            let concrete = fill.iter().fold(1u64 << last, |m, k| m | (1 << k));
            let mask_a = *g.rng.pick(&[ALL_PATHS, ALL_PATHS, concrete, 1u64 << last]);
            let mask_b = *g.rng.pick(&[ALL_PATHS, concrete, 1u64 << fill[0]]);
            let (first_lagging, min_b) = (g.rng.chance(1, 2), if in_flight { 0 } else { 600 });
            let mut ids = Vec::new();
            for who in 0..2 {
                let lagging = (who == 0) == first_lagging;
                let (min, mask) = if lagging { (min_b, mask_b) } else { (0, mask_a) };
                if let Some(sid) = g.subscribe_mask(Some(min), Some(3600), mask) {
                    g.push(Op::End(sid, 'o'));
                    ids.push((sid, lagging));
                }
            }
            for k in &fill {
                let (e, c, a) = path_of_index(*k);
                g.push(Op::Change(e as u64, c as u64, a as u64));
            }
            // the caught-up subscriber is reported on; the lagging one stays quiet / is left in flight
            g.tick(1500);
            g.push(Op::Wake(g.now));
            let mut held = None;
            for _ in 0..2 {
                let o = g.push(Op::Begin(g.now, 0));
                let Some(sid) = o[1..].parse::<u32>().ok() else { break };
                if ids.iter().any(|(i, l)| *i == sid && *l) {
                    held = Some(sid);
                    break;
                }
                g.push(Op::End(sid, 'o'));
            }
            g.push(Op::Purge);
            // the 17th change
            let (e, c, a) = path_of_index(last);
            g.push(Op::Change(e as u64, c as u64, a as u64));
            if g.rng.chance(1, 3) {
                g.change(8);
            }
            // everybody is served
            for round in 0..2 {
                g.tick(2000);
                if let Some(sid) = held.take() {
                    let r = *g.rng.pick(&['o', 'o', 'f']);
                    g.push(Op::Read(sid, last));
                    g.push(Op::End(sid, r));
                }
                g.push(Op::Wake(g.now));
                for _ in 0..2 {
                    let o = g.push(Op::Begin(g.now, 0));
                    let Some(sid) = o[1..].parse::<u32>().ok() else { break };
                    g.push(Op::Read(sid, last));
                    g.push(Op::Read(sid, fill[0]));
                    g.push(Op::End(sid, 'o'));
                }
                g.push(Op::Purge);
                if round == 0 {
                    g.tick(700_000);
                }
            }
        }
        // liveness under changes that do not concern the subscriber: attributes outside every subscription keep
        // changing at a third of the maximum interval; every report they trigger is empty and skipped - until the
        // liveness report falls due, which must go out (and must not have been postponed by the skipped ones)
        "l" => {
            g.now = g.rng.below(100_000);
            let max = *g.rng.pick(&[40u16, 60, 90]);
            let masks = [0x0000ffu64, 0x00ff00, 0x000f0f];
            let m = *g.rng.pick(&masks);
            for _ in 0..g.rng.range(1, 2) {
                let min = *g.rng.pick(&[0u16, 0, 5]);
                if let Some(sid) = g.subscribe_mask(Some(min), Some(max), m) {
                    g.push(Op::End(sid, 'o'));
                }
            }
            let step = max as u64 * 1000 / 3 - g.rng.below(3000);
            for _ in 0..9 {
                if g.ops.len() >= 56 {
                    break;
                }
                g.tick(0);
                g.now += step;
                // a path of endpoint 2 (bits 16..23): outside all the masks above
                let k = 16 + g.rng.below(8);
                let (e, c, a) = path_of_index(k);
                g.push(Op::Change(e as u64, c as u64, a as u64));
                if g.rng.chance(1, 6) {
                    // ... and now and then one that does concern it
                    let k = (0..16).filter(|k| m & (1 << k) != 0).nth(g.rng.below(4) as usize).unwrap_or(0);
                    let (e, c, a) = path_of_index(k);
                    g.push(Op::Change(e as u64, c as u64, a as u64));
                }
                g.push(Op::Wake(g.now));
                for _ in 0..2 {
                    let o = g.push(Op::Begin(g.now, 0));
                    let Some(sid) = o[1..].parse::<u32>().ok() else { break };
                    g.push(Op::End(sid, 's'));
                }
                g.push(Op::Purge);
            }
        }
        // failing reports, back-off, expiry; restart with persisted subscriptions
        _ => {
            let max = *g.rng.pick(&[40u16, 40, 60, 90]);
            for _ in 0..g.rng.range(1, 3) {
                let min = *g.rng.pick(&[0u16, 1, 10]);
                if let Some(sid) = g.subscribe(Some(min), Some(max)) {
                    g.end(sid, 'o');
                }
            }
            if g.rng.chance(1, 2) {
                g.push(Op::Persist);
            }
            if g.rng.chance(1, 3) {
                g.tick(3000);
                let lag = g.lag();
                g.push(Op::Restart(g.now, lag));
            }
            let fail = *g.rng.pick(&[100u64, 100, 80, 50]);
            for _ in 0..12 {
                if g.ops.len() >= 60 {
                    break;
                }
                if g.rng.chance(1, 3) {
                    g.change(8);
                }
                let d = *g.rng.pick(&[1000u64, 2000, 4000, 9000, 17000, 33000, 41000]);
                g.tick(d);
                g.reporter_round(fail, false);
            }
        }
    }
    g.finish(id, stream)
}

fn generate(tier: &str, seed: u64) -> (Vec<String>, BTreeMap<String, u64>) {
    let scale = if tier == "thorough" { 40 } else { 1 };
    let plan: [(&str, u64); 6] =
        [("r", 2200 * scale), ("p", 1200 * scale), ("o", 800 * scale), ("x", 800 * scale), ("g", 600 * scale), ("l", 400 * scale)];
    let mut rng = Rng::new(seed);
    let mut cases = Vec::new();
    let mut hist: BTreeMap<String, u64> = BTreeMap::new();
    let mut lens: BTreeMap<String, u64> = BTreeMap::new();
    for (stream, count) in plan {
        for i in 0..count {
            let sub = Rng::new(rng.next());
            let (line, h, n) = gen_case(stream, i, sub);
            for (k, v) in h {
                *hist.entry(format!("op_{}", k)).or_insert(0) += v;
            }
            *lens.entry(format!("len_{}", (n / 10) * 10)).or_insert(0) += 1;
            *hist.entry(format!("cases_{}", stream)).or_insert(0) += 1;
            cases.push(line);
        }
    }
    // ---- stream V: the event queue alone (capacity 256), random priorities and sizes; the encoded length
    // of every event is measured on the real encoder while generating
    let nv = 300 * scale;
    for i in 0..nv {
        let mut r = Rng::new(rng.next());
        let m = EvMachine::new();
        let mut line = format!("V v{}", i);
        let profile = r.below(4);
        for _ in 0..r.range(4, 40) {
            let prio = match profile {
                0 => r.below(3),
                1 => *r.pick(&[0u64, 0, 0, 1, 2]),
                2 => *r.pick(&[1u64, 1, 2, 2, 2]),
                _ => 1,
            };
            let pay = match r.below(12) {
                0 => r.range(200, 300),
                1 => r.range(150, 230),
                _ => r.range(0, 90),
            } as usize;
            let (ok, _, len) = m.push(prio, pay);
            let len = len.unwrap_or(if ok { 0 } else { pay + 1000 });
            write!(line, " {}:{}:{}", prio, pay, len).unwrap();
        }
        *hist.entry("cases_v".into()).or_insert(0) += 1;
        cases.push(line);
    }
    // ---- stream U: end-to-end scenarios (two real nodes, real clock); see c13_e2e.rs for the steps
    for (i, l) in gen_e2e(&mut rng, tier).into_iter().enumerate() {
        *hist.entry("cases_u".into()).or_insert(0) += 1;
        cases.push(format!("U u{} {}", i, l));
    }
    hist.extend(lens);
    (cases, hist)
}

/// the scripted and random end-to-end scenarios
fn gen_e2e(rng: &mut Rng, tier: &str) -> Vec<String> {
    const ALL: u64 = 16777215;
    let reps = if tier == "thorough" { 12 } else { 1 };
    let mut v = Vec::new();
    let mask = |r: &mut Rng| -> (u64, Vec<u64>) {
        let mut ks = Vec::new();
        let mut m = 0u64;
        for _ in 0..r.range(1, 5) {
            let k = r.below(24);
            if m & (1 << k) == 0 {
                m |= 1 << k;
                ks.push(k);
            }
        }
        (m, ks)
    };
    for _ in 0..reps {
        // a change while a chunked (wildcard) priming is unanswered, before and after the chunk that carries it
        for _ in 0..10 {
            let (k1, k2, k3) = (rng.below(24), rng.below(24), rng.below(24));
            let mid = *rng.pick(&["a", "a a", "a a a"]);
            v.push(format!("L s:0:60:{}:1:0 c:{} {} c:{} c:{} A q", ALL, k1, mid, k2, k3));
        }
        // changes between a report and its StatusResponse
        for _ in 0..12 {
            let (m, ks) = mask(rng);
            let (a, b) = (*rng.pick(&ks), *rng.pick(&ks));
            v.push(format!("L s:0:60:{}:1:0 A c:{} r:100 c:{} c:{} k c:{} q", m, a, b, a, b));
        }
        // changes while the device retransmits a report into a lossy network
        for _ in 0..8 {
            let (m, ks) = mask(rng);
            let (a, b) = (*rng.pick(&ks), *rng.pick(&ks));
            v.push(format!("L s:0:60:{}:1:0 A m:{} c:{} c:{} c:{} r:400 K q", m, rng.range(1, 3), a, b, a));
        }
        // the peer subscribes anew (not keeping its subscriptions) while a report is in flight
        for _ in 0..8 {
            let (m1, k1) = mask(rng);
            let (m2, k2) = mask(rng);
            let (a, b) = (*rng.pick(&k1), *rng.pick(&k2));
            let order = *rng.pick(&["A k", "a k A", "A K"]);
            v.push(format!("L s:0:60:{}:1:0 A c:{} r:100 s:0:60:{}:0:0 {} c:{} q c:{} q", m1, a, m2, order, b, b));
        }
        // a second subscription (kept) next to the first, different minimum intervals
        for _ in 0..4 {
            let (m1, k1) = mask(rng);
            let a = *rng.pick(&k1);
            v.push(format!("L s:0:60:{}:1:0 A s:1:60:{}:1:0 A c:{} r:100 K c:{} q:1300", m1, m1 | 1, a, a));
        }
        // the subscriber ends the subscription with InvalidSubscription
        for _ in 0..4 {
            let (m, ks) = mask(rng);
            let a = *rng.pick(&ks);
            v.push(format!("L s:0:60:{}:1:0 A c:{} r:100 n c:{} r:60 q", m, a, a));
        }
        // events: emitted during priming, between report and status, in bursts
        for _ in 0..10 {
            let (m, ks) = mask(rng);
            let a = *rng.pick(&ks);
            v.push(format!(
                "L e:1 s:0:60:{}:1:1 e:{} A e:{} r:100 e:{} c:{} e:{} K q",
                m,
                rng.below(3),
                rng.below(3),
                rng.below(3),
                a,
                rng.below(3)
            ));
        }
        // a small event buffer: events evicted while the subscriber holds a report back
        for _ in 0..6 {
            let n = rng.range(6, 12);
            let burst: Vec<String> = (0..n).map(|_| format!("e:{}", *rng.pick(&[0u64, 0, 1]))).collect();
            v.push(format!("S s:0:60:1:1:1 A e:0 r:100 {} K q", burst.join(" ")));
        }
        // minimum interval edges (1 s): a change right after the priming, and right after a report
        for _ in 0..4 {
            let (m, ks) = mask(rng);
            let (a, b) = (*rng.pick(&ks), *rng.pick(&ks));
            v.push(format!("L s:1:60:{}:1:0 A c:{} r:{} r:1300 K c:{} r:300 q:1200", m, a, rng.range(100, 800), b));
        }
        // the subscriber falls silent during a report: the device gives up, backs off 2 s, retries with the same content
        for _ in 0..3 {
            let (m, ks) = mask(rng);
            let (a, b) = (*rng.pick(&ks), *rng.pick(&ks));
            v.push(format!("L s:0:60:{}:1:0 A c:{} r:100 x c:{} r:3000 K q", m, a, b));
        }
        // DataVersionFilters of the subscribe request apply to the priming only: a filter one step ahead of a
        // cluster's version (the cluster reaches it with the next change), and a filter equal to the current
        // version (the priming legitimately leaves that cluster out; its later changes must be reported)
        for i in 0..10u64 {
            let (m, ks) = mask(rng);
            let a = *rng.pick(&ks);
            let b = *rng.pick(&ks);
            let (ca, cb) = (a / 4, b / 4);
            let filt = match i % 3 {
                0 => format!("f{}+1", ca),
                1 => format!("f{}+1/f{}+0", ca, (ca + 1) % 6),
                _ => format!("f{}+0", ca),
            };
            let tail = match i % 4 {
                0 => format!("A c:{} r:100 K q", a),
                1 => format!("A c:{} r:100 c:{} K q", a, b),
                2 => format!("c:{} A q c:{} q", a, b),
                _ => format!("A c:{} q c:{} c:{} q", a, a, b),
            };
            let _ = cb;
            v.push(format!("L s:0:60:{}:1:0:{} {}", m, filt, tail));
        }
        // changes that do not concern the subscriber: the reports they trigger are empty and not sent; they
        // must not move the instant liveness is measured from (and a change that does concern it still arrives)
        for _ in 0..6 {
            let m = *rng.pick(&[0x0000ffu64, 0x00ff00, 0x000f0f]);
            let inside = (0..16).filter(|k| m & (1 << k) != 0).nth(rng.below(4) as usize).unwrap_or(0);
            let (o1, o2) = (16 + rng.below(8), 16 + rng.below(8));
            v.push(format!("L s:0:60:{}:1:0 A w:30 c:{} w:20 c:{} q c:{} q c:{} q", m, o1, o2, inside, o1));
        }
        // free interleavings of the steps
        for _ in 0..40 {
            let (m, ks) = mask(rng);
            let wild = rng.chance(1, 4);
            let ev = rng.below(2);
            let mut s = format!("L s:0:60:{}:1:{}", if wild { ALL } else { m }, ev);
            let mut primed = false;
            for _ in 0..rng.range(6, 16) {
                let k = if wild { rng.below(24) } else { *rng.pick(&ks) };
                let step = match rng.below(12) {
                    0..=3 => format!("c:{}", k),
                    // (events only for a subscription that asked for them: a report that turns out empty is
                    // not sent, and what the reporter did cannot be told from outside)
                    4 if ev == 1 => format!("e:{}", rng.below(3)),
                    4 => format!("c:{}", k),
                    5 => "a".to_string(),
                    6 => {
                        primed = true;
                        "A".to_string()
                    }
                    7 => "r:60".to_string(),
                    8 => "k".to_string(),
                    9 => "K".to_string(),
                    10 => format!("m:{}", rng.range(1, 2)),
                    _ => format!("w:{}", rng.range(1, 30)),
                };
                s.push(' ');
                s.push_str(&step);
            }
            let _ = primed;
            s.push_str(" A q");
            v.push(s);
        }
    }
    v
}

fn main() {
    let args: Vec<String> = std::env::args().collect();
    match args.get(1).map(|s| s.as_str()) {
        Some("gen") => {
            let tier = &args[2];
            let seed: u64 = args[3].parse().unwrap();
            let outdir = std::path::PathBuf::from(&args[4]);
            std::fs::create_dir_all(&outdir).unwrap();
            let (cases, hist) = generate(tier, seed);
            let mut cf = std::io::BufWriter::new(std::fs::File::create(outdir.join("cases.txt")).unwrap());
            for c in &cases {
                writeln!(cf, "{}", c).unwrap();
            }
            let mut sj = String::from("{");
            for (i, (k, v)) in hist.iter().enumerate() {
                if i > 0 {
                    sj.push(',');
                }
                write!(sj, "\"{}\":{}", k, v).unwrap();
            }
            sj.push('}');
            std::fs::write(outdir.join("stats.json"), sj).unwrap();
        }
        Some("run") => {
            let text = std::fs::read_to_string(&args[2]).unwrap();
            let mut out = String::new();
            let stdout = std::io::stdout();
            let mut lock = stdout.lock();
            rsm_harness::silence_panics();
            for line in text.lines() {
                // a panic in the code under test (or in the rig) is an outcome of the case, not of the run
                let mut one = String::new();
                let r = std::panic::catch_unwind(std::panic::AssertUnwindSafe(|| run_line(line, &mut one)));
                match r {
                    Ok(()) => out.push_str(&one),
                    Err(e) => {
                        let msg = e
                            .downcast_ref::<&str>()
                            .map(|s| s.to_string())
                            .or_else(|| e.downcast_ref::<String>().cloned())
                            .unwrap_or_else(|| "panic".to_string())
                            .replace([' ', '|', '~'], "_");
                        let f: Vec<&str> = line.split(' ').collect();
                        if f.len() >= 2 {
                            match f[0] {
                                "U" => writeln!(out, "U {} panic:{} | |", f[1], msg).unwrap(),
                                "V" => writeln!(out, "V {} panic:{}", f[1], msg).unwrap(),
                                _ => {
                                    writeln!(out, "Q {} panic:{} | -", f[1], msg).unwrap();
                                    writeln!(out, "T {} panic:{}", f[1], msg).unwrap();
                                }
                            }
                        }
                    }
                }
                if out.len() > 1 << 20 {
                    lock.write_all(out.as_bytes()).unwrap();
                    out.clear();
                }
            }
            lock.write_all(out.as_bytes()).unwrap();
        }
        _ => {
            eprintln!("usage: c13 gen <tier> <seed> <outdir> | c13 run <cases>");
            std::process::exit(2);
        }
    }
}
