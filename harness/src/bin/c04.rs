//! C04 correspondence harness: generates cases, runs the real
//! `RxCtrState` / `GroupCtrStore` / `Session` receive window on them and
//! writes `cases.txt` + `impl.out` (+ `stats.json`) into the out dir.
//!
//! usage: c04 gen <quick|thorough> <seed> <outdir>
//!        c04 run <cases-file>            (re-run given cases, print impl lines)
use std::collections::BTreeMap;
use std::fmt::Write as _;
use std::io::Write as _;

use rs_matter::crypto::{test_only_crypto, Aead, CanonAeadKey, Crypto, AEAD_NONCE_ZEROED};
use rs_matter::dm::devices::test::{TEST_DEV_ATT, TEST_DEV_COMM, TEST_DEV_DET};
use rs_matter::error::ErrorCode;
use rs_matter::fabric::GroupKeyMapping;
use rs_matter::group_keys::{GroupEpochKeyEntry, GroupKeySet, KeySet};
use rs_matter::transport::network::Address;
use rs_matter::transport::packet::PacketHdr;
use rs_matter::transport::plain_hdr::PlainHdr;
use rs_matter::transport::proto_hdr::ProtoHdr;
use rs_matter::transport::session::{derive_group_session_id, Session, SessionMode};
use rs_matter::transport::TransportRunner;
use rs_matter::utils::storage::WriteBuf;
use rs_matter::Matter;
use rs_matter::transport::verif_hooks::{GroupCtrStore, RxCtrState};
use rsm_harness::{Digest, Rng};

fn fresh_session_rx() -> RxCtrState {
    // the receive window exactly as a new session holds it
    let mut s = Session::new(1, 0, false, Address::new(), None, 300, 300, 4000);
    let fresh = s.verif_rx_ctr_state();
    let (synced, m, b) = fresh.verif_raw();
    RxCtrState::verif_from_raw(synced, m, b)
}

fn rx_str(s: &RxCtrState) -> String {
    let (synced, m, b) = s.verif_raw();
    format!("{} {} {}", synced as u8, m, b)
}

// ------------------------------------------------------------------ Y: the real group receive path
//
// A node with one fabric and one group key receives group data messages from several senders
// through `TransportRunner::decode_packet`: authentic ones (`a`), and forged ones that carry the
// right header (group session id, source node id, counter) but do not authenticate - a garbage
// body (`f`), an authentic message with one ciphertext bit flipped (`t`), a message sealed under
// another key (`w`). The group sender table must be moved by authentic messages only.

const Y_EPOCH_KEY: [u8; 16] = [0x11; 16];
const Y_OTHER_KEY: [u8; 16] = [0x22; 16];
const Y_GROUP: u16 = 0x0101;
const Y_GROUP2: u16 = 0x0102;

fn y_canon(bytes: &[u8; 16]) -> CanonAeadKey {
    let mut k = CanonAeadKey::new();
    k.load_from_array(bytes);
    k
}

fn y_op_key<C: Crypto>(crypto: &C, epoch: &[u8; 16]) -> [u8; 16] {
    let mut ks = KeySet::new();
    ks.update(crypto, y_canon(epoch).reference(), &0u64).unwrap();
    let mut out = [0u8; 16];
    out.copy_from_slice(ks.op_key().access());
    out
}

fn y_seal<C: Crypto>(crypto: &C, key: &[u8; 16], node: u64, hdr: &PacketHdr, payload: &[u8]) -> Vec<u8> {
    let mut buf = [0u8; 64];
    let mut wb = WriteBuf::new(&mut buf);
    hdr.plain.encode(&mut wb).unwrap();
    let aad = wb.as_slice().to_vec();
    let mut buf2 = [0u8; 64];
    let mut wb2 = WriteBuf::new(&mut buf2);
    hdr.proto.encode(&mut wb2).unwrap();
    let mut pt = wb2.as_slice().to_vec();
    pt.extend_from_slice(payload);
    let (_, _, sec, ctr, _, _) = hdr.plain.verif_raw();
    let mut nonce = vec![sec];
    nonce.extend_from_slice(&ctr.to_le_bytes());
    nonce.extend_from_slice(&node.to_le_bytes());
    let mut iv = AEAD_NONCE_ZEROED;
    iv.access_mut().copy_from_slice(&nonce);
    let n = pt.len();
    let mut data = pt;
    data.extend_from_slice(&[0u8; 16]);
    let mut aead = crypto.aead().unwrap();
    let ct = aead.encrypt_in_place(y_canon(key).reference(), iv.reference(), &aad, &mut data, n).unwrap().to_vec();
    let mut wire = aad;
    wire.extend_from_slice(&ct);
    wire
}

fn run_y(ops: &str) -> String {
    let crypto = test_only_crypto();
    let matter: &'static Matter<'static> = Box::leak(Box::new(Matter::new(&TEST_DEV_DET, TEST_DEV_COMM, &TEST_DEV_ATT, 5540)));
    matter.with_state(|state| {
        state.fabrics.add_with_post_init(|_| Ok(())).unwrap();
        let fabric = state.fabrics.fabric_mut(core::num::NonZeroU8::new(1).unwrap()).unwrap();
        let mut epoch_keys = rs_matter::utils::storage::Vec::new();
        epoch_keys
            .push(GroupEpochKeyEntry { epoch_key: y_canon(&Y_EPOCH_KEY), epoch_start_time: 0 })
            .map_err(|_| ())
            .unwrap();
        fabric
            .groups_mut()
            .key_set_add(GroupKeySet { group_key_set_id: 100, group_key_security_policy: 0, epoch_keys })
            .unwrap();
        fabric.groups_mut().key_map_add(GroupKeyMapping { group_id: Y_GROUP, group_key_set_id: 100 }).unwrap();
        fabric.groups_mut().key_map_add(GroupKeyMapping { group_id: Y_GROUP2, group_key_set_id: 100 }).unwrap();
    });
    let op_key = y_op_key(&crypto, &Y_EPOCH_KEY);
    let other_key = y_op_key(&crypto, &Y_OTHER_KEY);
    let gsid = derive_group_session_id(&crypto, y_canon(&op_key).reference()).unwrap();
    let from = Address::Udp(std::net::SocketAddr::V6(std::net::SocketAddrV6::new(
        std::net::Ipv6Addr::new(0xfe80, 0, 0, 0, 0, 0, 0, 0x0a),
        5541,
        0,
        0,
    )));
    let runner = TransportRunner::new(matter, &crypto);
    let payload = [0x15u8, 0x28, 0x00, 0x28, 0x01, 0x18];
    let mut flags = String::new();
    for (i, op) in ops.split(',').filter(|x| !x.is_empty()).enumerate() {
        let p: Vec<&str> = op.split(':').collect();
        let node: u64 = p[1].parse().unwrap();
        let ctr: u32 = p[2].parse().unwrap();
        let mut hdr = PacketHdr::new();
        hdr.plain = PlainHdr::verif_from_raw(0, gsid, 0x01, ctr, 0, 0).unwrap();
        hdr.plain.set_src_nodeid(Some(node));
        // kinds `b` / `B`: the same sender and key, addressed to the SECOND group mapped to the key set
        let to_group2 = p[0] == "b" || p[0] == "B";
        hdr.plain.set_dst_groupcast_nodeid(Some(if to_group2 { Y_GROUP2 } else { Y_GROUP }));
        hdr.proto = ProtoHdr::verif_from_raw(80 + i as u16, 0x01, 1, 8, 0, 0).unwrap();
        let mut wire = match p[0] {
            "w" => y_seal(&crypto, &other_key, node, &hdr, &payload),
            _ => y_seal(&crypto, &op_key, node, &hdr, &payload),
        };
        match p[0] {
            "f" => {
                // the right header, a body that is not a sealing of anything
                let hl = wire.len() - (6 + payload.len() + 16);
                for (j, b) in wire[hl..].iter_mut().enumerate() {
                    *b = 0xa5 ^ (j as u8);
                }
            }
            "t" => {
                let hl = wire.len() - (6 + payload.len() + 16);
                wire[hl + (ctr as usize % (6 + payload.len() + 16))] ^= 0x10;
            }
            _ => {}
        }
        let mut pl = [0u8; 64];
        let (res, _, _) = runner.verif_decode_packet(from, &wire, &mut pl);
        flags.push(match res {
            Ok(_) => '1',
            Err(e) if e.code() == ErrorCode::Duplicate => '0',
            Err(_) => 'x',
        });
        // the handler is done with the message at once: the ephemeral session of the sender goes
        // (kind `A`: the handler is still busy with it - the session stays until an `r` operation)
        if p[0] != "a" && p[0] != "b" {
            continue;
        }
        matter.with_state(|state| {
            let sessions = state.verif_sessions();
            let ids: Vec<u32> = sessions.iter().map(|s| s.id()).collect();
            for id in ids {
                sessions.remove(id);
            }
        });
    }
    let mut ents = Vec::new();
    let clock = matter.with_state(|state| {
        state.verif_sessions().verif_group_ctr_store().verif_for_each(|f, n, m, b, l| {
            ents.push(format!("{}:{}:{}:{}:{}", f, n, m, b, l));
        })
    });
    ents.sort();
    // the sessions left at the end, each labelled with the group it stands for (the subject its
    // messages are evaluated with) and its sender
    let mut live: Vec<String> = matter.with_state(|state| {
        state
            .verif_sessions()
            .iter()
            .map(|s| match s.get_session_mode() {
                SessionMode::Group { group_id, .. } => format!("{}/{}", s.get_peer_node_id().unwrap_or(0), group_id),
                _ => "?".to_string(),
            })
            .collect()
    });
    live.sort();
    format!("{} {} {} live={}", flags, clock, ents.join(";"), live.join(","))
}

fn run_line(line: &str, out: &mut String) {
    let f: Vec<&str> = line.split(' ').collect();
    match f[0] {
        "H" => {
            let (id, enc, roll, init, cs) = (f[1], f[2] == "1", f[3] == "1", f[4], f[5]);
            let mut s = if init == "U" {
                fresh_session_rx()
            } else {
                RxCtrState::new(init.parse::<u32>().unwrap())
            };
            let mut flags = String::new();
            for c in cs.split(',').filter(|x| !x.is_empty()) {
                let c: u32 = c.parse().unwrap();
                flags.push(if s.post_recv(c, enc, roll) { '1' } else { '0' });
            }
            writeln!(out, "H {} {} {}", id, flags, rx_str(&s)).unwrap();
        }
        "T" => {
            // transport level: Session::post_recv answers Duplicate exactly when the window rejects
            let (id, mode, cs) = (f[1], f[2], f[3]);
            let mut s = Session::new(1, 0, false, Address::new(), None, 300, 300, 4000);
            match mode {
                "case" => s.verif_set_session_mode(SessionMode::Case {
                    fab_idx: core::num::NonZeroU8::new(1).unwrap(),
                    cat_ids: Default::default(),
                }),
                "pase" => s.verif_set_session_mode(SessionMode::Pase { fab_idx: 0 }),
                _ => {}
            }
            let mut flags = String::new();
            for (p, c) in cs.split(',').filter(|x| !x.is_empty()).enumerate() {
                let mut hdr = PacketHdr::new();
                hdr.plain.ctr = c.parse::<u32>().unwrap();
                hdr.proto.exch_id = 100 + p as u16;
                if p % 3 == 0 {
                    // an initiator message that opens a new exchange (IM ReadRequest)
                    hdr.proto.set_initiator();
                    hdr.proto.proto_id = 1;
                    hdr.proto.proto_opcode = 2;
                }
                let dup = match s.verif_post_recv(&hdr) {
                    Err(e) => e.code() == ErrorCode::Duplicate,
                    Ok(_) => false,
                };
                flags.push(if dup { '0' } else { '1' });
            }
            writeln!(out, "T {} {} {}", id, flags, rx_str(s.verif_rx_ctr_state())).unwrap();
        }
        "B" => {
            // group sender with true (unwrapped) counters: first, then history
            let (id, first, cs) = (f[1], f[2], f[3]);
            let first: u64 = first.parse().unwrap();
            let mut st = GroupCtrStore::new();
            assert!(st.post_recv(3, 77, first as u32));
            let mut flags = String::new();
            for c in cs.split(',').filter(|x| !x.is_empty()) {
                let c: u64 = c.parse().unwrap();
                flags.push(if st.post_recv(3, 77, c as u32) { '1' } else { '0' });
            }
            writeln!(out, "B {} {}", id, flags).unwrap();
        }
        "V" => {
            let (id, mx, bm, ctr, enc, roll) = (
                f[1],
                f[2].parse::<u32>().unwrap(),
                f[3].parse::<u16>().unwrap(),
                f[4].parse::<u32>().unwrap(),
                f[5] == "1",
                f[6] == "1",
            );
            let mut s = RxCtrState::verif_from_raw(true, mx, bm);
            let a = s.post_recv(ctr, enc, roll);
            writeln!(out, "V {} {} {}", id, a as u8, rx_str(&s)).unwrap();
        }
        "S" => {
            let (id, mx, enc, roll, off) = (
                f[1],
                f[2].parse::<u32>().unwrap(),
                f[3] == "1",
                f[4] == "1",
                f[5].parse::<i64>().unwrap(),
            );
            let ctr = ((mx as i64 + off) & 0xffff_ffff) as u32;
            let mut d = Digest::new();
            for bm in 0..=65535u16 {
                let mut s = RxCtrState::verif_from_raw(true, mx, bm);
                let a = s.post_recv(ctr, enc, roll);
                let (_, m2, b2) = s.verif_raw();
                d.push(a as u64);
                d.push(m2 as u64);
                d.push(b2 as u64);
            }
            writeln!(out, "S {} {:016x}", id, d.0).unwrap();
        }
        "Y" => writeln!(out, "Y {} {}", f[1], run_y(f[2])).unwrap(),
        "G" => {
            let (id, ops) = (f[1], f[2]);
            let mut st = GroupCtrStore::new();
            let mut flags = String::new();
            for op in ops.split(',').filter(|x| !x.is_empty()) {
                let p: Vec<&str> = op.split(':').collect();
                let a = st.post_recv(
                    p[0].parse::<u8>().unwrap(),
                    p[1].parse::<u64>().unwrap(),
                    p[2].parse::<u32>().unwrap(),
                );
                flags.push(if a { '1' } else { '0' });
            }
            let mut ents = Vec::new();
            let clock = st.verif_for_each(|f, n, m, b, l| {
                ents.push(format!("{}:{}:{}:{}:{}", f, n, m, b, l));
            });
            ents.sort();
            writeln!(out, "G {} {} {} {}", id, flags, clock, ents.join(";")).unwrap();
        }
        _ => {}
    }
}

const EDGES: [u64; 12] = [
    0,
    1,
    15,
    16,
    17,
    0x0fff_ffff,
    0x7fff_ffff,
    0x8000_0000,
    0x8000_0001,
    0xffff_ffef,
    0xffff_fffe,
    0xffff_ffff,
];

/// A history that exercises the window: mostly small steps around the
/// running maximum, with duplicates, overtaken values, big jumps and
/// boundary distances.
fn gen_history(rng: &mut Rng, len: usize, hist: &mut BTreeMap<&'static str, u64>, lo: u64, hi: u64) -> Vec<u64> {
    let mut h: Vec<u64> = Vec::with_capacity(len);
    let mut max = if rng.chance(1, 3) {
        *rng.pick(&EDGES)
    } else {
        rng.below(1 << 28)
    };
    max = max.clamp(lo, hi);
    let mut bump = |k: &'static str| *hist.entry(k).or_insert(0) += 1;
    for i in 0..len {
        let kind = rng.below(100);
        let v: i128 = if i == 0 {
            bump("first");
            max as i128
        } else if kind < 30 {
            bump("next");
            max as i128 + 1
        } else if kind < 45 {
            bump("small_jump");
            max as i128 + rng.range(2, 15) as i128
        } else if kind < 52 {
            bump("edge_jump");
            max as i128 + *rng.pick(&[15u64, 16, 17, 18, 31, 32, 33]) as i128
        } else if kind < 57 {
            bump("big_jump");
            max as i128 + rng.range(19, 100_000) as i128
        } else if kind < 75 {
            bump("behind_in_window");
            max as i128 - rng.range(1, 16) as i128
        } else if kind < 82 {
            bump("behind_edge");
            max as i128 - *rng.pick(&[15u64, 16, 17, 18]) as i128
        } else if kind < 87 {
            bump("behind_far");
            max as i128 - rng.range(17, 5000) as i128
        } else if kind < 97 && !h.is_empty() {
            bump("repeat_earlier");
            h[rng.below(h.len() as u64) as usize] as i128
        } else {
            bump("edge_value");
            *rng.pick(&EDGES) as i128
        };
        let v = v.clamp(lo as i128, hi as i128) as u64;
        if v > max {
            max = v;
        }
        h.push(v);
    }
    h
}

fn join(h: &[u64]) -> String {
    h.iter().map(|x| x.to_string()).collect::<Vec<_>>().join(",")
}

fn generate(tier: &str, seed: u64) -> (Vec<String>, BTreeMap<&'static str, u64>) {
    let thorough = tier == "thorough";
    let mut rng = Rng::new(seed);
    let mut cases = Vec::new();
    let mut hist: BTreeMap<&'static str, u64> = BTreeMap::new();
    let mut id = 0u64;
    let mut next_id = || {
        id += 1;
        id
    };

    // --- corpus-like fixed histories (branch stream)
    let fixed: [&[u64]; 10] = [
        &[100, 120, 119, 119, 104, 103],
        &[0],
        &[5, 0, 0],
        &[0, 1, 0],
        &[16, 0],
        &[17, 0, 1],
        &[1000, 1016, 1000, 1001, 1017],
        &[1000, 1017, 1000, 1001],
        &[4294967295, 4294967294, 4294967279, 4294967278],
        &[2147483647, 2147483648, 2147483647, 2147483632],
    ];
    for h in fixed {
        for (enc, roll) in [(1, 0), (0, 0)] {
            cases.push(format!("H {} {} {} U {}", next_id(), enc, roll, join(h)));
        }
        cases.push(format!("H {} 1 1 {} {}", next_id(), h[0], join(&h[1..])));
    }

    // --- exhaustive short histories around a window (every 3-step history over
    //     offsets -18..=18 of a base, every 4-step history over boundary offsets)
    let bases: &[u64] = if thorough { &[1000, 20, 0xffff_ffe0] } else { &[1000] };
    for &b in bases {
        let offs: Vec<i64> = (-18..=18).collect();
        for &o1 in &offs {
            for &o2 in &offs {
                for &o3 in &offs {
                    let h = [b, (b as i64 + o1) as u64, (b as i64 + o2) as u64, (b as i64 + o3) as u64];
                    cases.push(format!("H {} 1 0 U {}", next_id(), join(&h)));
                }
            }
        }
        let offs4: [i64; 11] = [-17, -16, -15, -1, 0, 1, 2, 15, 16, 17, 18];
        for &o1 in &offs4 {
            for &o2 in &offs4 {
                for &o3 in &offs4 {
                    for &o4 in &offs4 {
                        let h = [(b as i64 + o1) as u64, (b as i64 + o2) as u64, (b as i64 + o3) as u64, (b as i64 + o4) as u64];
                        cases.push(format!("H {} 1 0 U {}", next_id(), join(&h)));
                    }
                }
            }
        }
    }

    // --- random histories, secure unicast from the fresh state
    let n_hist = if thorough { 40_000 } else { 3_000 };
    for _ in 0..n_hist {
        let len = rng.range(1, 60) as usize;
        let h = gen_history(&mut rng, len, &mut hist, 0, 0xffff_ffff);
        cases.push(format!("H {} 1 0 U {}", next_id(), join(&h)));
    }
    // --- transport level (Session::post_recv), all session modes
    for i in 0..n_hist / 3 {
        let len = rng.range(1, 40) as usize;
        let h = gen_history(&mut rng, len, &mut hist, 0, 0xffff_ffff);
        let mode = ["case", "pase", "plain"][i % 3];
        cases.push(format!("T {} {} {}", next_id(), mode, join(&h)));
    }
    // --- unsecured unicast
    for _ in 0..n_hist / 3 {
        let len = rng.range(1, 60) as usize;
        let h = gen_history(&mut rng, len, &mut hist, 0, 0xffff_ffff);
        cases.push(format!("H {} 0 0 U {}", next_id(), join(&h)));
    }
    // --- roll-over mode from new(first), arbitrary wire values
    for _ in 0..n_hist / 3 {
        let len = rng.range(2, 60) as usize;
        let h = gen_history(&mut rng, len, &mut hist, 0, 0xffff_ffff);
        cases.push(format!("H {} 1 1 {} {}", next_id(), h[0], join(&h[1..])));
    }
    // --- group sender, true counters within a band crossing 2^32
    for _ in 0..n_hist / 3 {
        let len = rng.range(2, 60) as usize;
        let base = *rng.pick(&[0xffff_ff00u64, 0xffff_fff0, 0x1_0000_0000 - 40, 0x7fff_ff00, 5, 0x2_ffff_ffe0]);
        let h = gen_history(&mut rng, len, &mut hist, base, base + 0x7fff_fff0);
        cases.push(format!("B {} {} {}", next_id(), h[0], join(&h[1..])));
    }
    // --- group store: senders x interleavings x evictions
    let n_g = if thorough { 8_000 } else { 800 };
    for _ in 0..n_g {
        let nsend = rng.range(1, 24);
        let len = rng.range(1, 120) as usize;
        let mut ctrs: Vec<u64> = (0..nsend).map(|_| if rng.chance(1, 4) { *rng.pick(&EDGES) } else { rng.below(1 << 32) }).collect();
        let mut ops = Vec::new();
        for _ in 0..len {
            let s = if rng.chance(3, 4) { rng.below(nsend.min(6)) } else { rng.below(nsend) } as usize;
            let k = rng.below(100);
            let c = if k < 50 {
                ctrs[s] = (ctrs[s] + 1) & 0xffff_ffff;
                ctrs[s]
            } else if k < 70 {
                ctrs[s].wrapping_sub(rng.range(0, 20)) & 0xffff_ffff
            } else if k < 85 {
                ctrs[s] = (ctrs[s] + rng.range(2, 40)) & 0xffff_ffff;
                ctrs[s]
            } else if s % 4 == 3 {
                // every fourth sender is "wild": arbitrary values (the ring wraps around; compared with
                // the model only, the table monitor skips senders outside a half-ring band)
                rng.below(1 << 32)
            } else {
                ctrs[s].wrapping_sub(rng.range(0, 40)) & 0xffff_ffff
            };
            // a few senders share node ids across fabrics
            let fab = 1 + (s as u64 % 3);
            let node = 1000 + (s as u64 / 3);
            ops.push(format!("{}:{}:{}", fab, node, c));
        }
        cases.push(format!("G {} {}", next_id(), ops.join(",")));
    }

    // --- long runs: the table's use-time clock after hundreds of messages (a full table, one busy
    //     sender, then a 17th sender and copies of the busy sender's messages)
    for talk in [10u64, 200, 239, 240, 255, 256, 300, 600] {
        let mut ops = Vec::new();
        for s in 0..16u64 {
            ops.push(format!("1:{}:{}", 2000 + s, 100));
        }
        for k in 0..talk {
            ops.push(format!("1:{}:{}", 2000 + (k % 3), 101 + k));
        }
        ops.push("1:9999:5".to_string());
        for s in 0..3u64 {
            ops.push(format!("1:{}:{}", 2000 + s, 100 + talk));
            ops.push(format!("1:{}:{}", 2000 + s, 100));
        }
        ops.push("1:9998:5".to_string());
        ops.push("1:2000:100".to_string());
        cases.push(format!("G {} {}", next_id(), ops.join(",")));
    }

    // --- the real group receive path: authentic and forged group messages of up to three senders
    for n in 0..(if thorough { 1500 } else { 250 }) {
        let nsend = rng.range(1, 3) as usize;
        let mut ctrs: Vec<u64> = (0..nsend).map(|_| if rng.chance(1, 4) { *rng.pick(&EDGES) } else { rng.below(1 << 30) }).collect();
        let mut ops = Vec::new();
        let len = rng.range(2, 14);
        for _ in 0..len {
            let s = rng.below(nsend as u64) as usize;
            let node = 7000 + s as u64;
            let kind = rng.below(10);
            if kind < 6 {
                // authentic: next, small jump, behind, repeat
                let c = match rng.below(6) {
                    0 | 1 => ctrs[s].wrapping_add(1),
                    2 => ctrs[s].wrapping_add(rng.range(2, 20)),
                    3 => ctrs[s].wrapping_sub(rng.range(1, 18)),
                    4 => ctrs[s],
                    _ => ctrs[s].wrapping_add(rng.range(15, 40)),
                } & 0xffff_ffff;
                if c.wrapping_sub(ctrs[s]) & 0xffff_ffff < 0x8000_0000 {
                    ctrs[s] = c;
                }
                // one authentic message in three leaves the sender's ephemeral session behind (its
                // handler is still busy): the next messages of the sender find that session
                let kind = match (rng.chance(1, 3), rng.chance(1, 4)) {
                    (true, false) => "A",
                    (true, true) => "B",
                    (false, true) => "b",
                    _ => "a",
                };
                ops.push(format!("{}:{}:{}", kind, node, c));
            } else {
                // forged: the counter the sender will use next, far ahead (window poisoning), or one already used
                let c = match rng.below(4) {
                    0 | 1 => ctrs[s].wrapping_add(1),
                    2 => ctrs[s].wrapping_add(rng.range(16, 100_000)),
                    _ => ctrs[s],
                } & 0xffff_ffff;
                ops.push(format!("{}:{}:{}", *rng.pick(&["f", "t", "w"]), node, c));
            }
        }
        // a forged first message of a sender never seen, then its authentic first message
        if n % 5 == 0 {
            ops.push("f:7900:500".to_string());
            ops.push("a:7900:480".to_string());
            ops.push("a:7900:500".to_string());
        }
        cases.push(format!("Y {} {}", next_id(), ops.join(",")));
    }
    // messages that reach the sender's ephemeral session, then copies of them once it is gone
    cases.push(format!("Y {} A:7000:10,A:7000:11,a:7000:12,a:7000:11,a:7000:12,a:7000:10", next_id()));
    cases.push(format!("Y {} A:7000:4294967290,A:7000:4294967291,a:7001:5,a:7000:4294967291,a:7000:4294967290", next_id()));
    cases.push(format!("Y {} A:7000:100,f:7000:101,A:7000:101,a:7000:99,a:7000:101,a:7000:99,a:7000:100", next_id()));
    // two groups on one key set: a message for the second group while the sender's session for the
    // first is alive gets a session of its own (the group is the subject its access is evaluated with)
    cases.push(format!("Y {} A:7000:10,B:7000:11", next_id()));
    cases.push(format!("Y {} B:7000:10,A:7000:11,A:7001:5,B:7001:6", next_id()));
    cases.push(format!("Y {} A:7000:10,B:7000:11,A:7000:12,B:7000:13,B:7000:11,A:7000:10", next_id()));

    // --- exhaustive one-step sweep: all 2^16 bitmaps per (max, enc, roll, offset)
    let maxes: [u64; 8] = [0, 16, 40, 0x7fff_ffff, 0x8000_0000, 0xffff_ffef, 0xffff_ffff, 0x1234_5678];
    let offs: Vec<i64> = if thorough {
        (-40..=40).collect()
    } else {
        vec![-40, -18, -17, -16, -15, -9, -2, -1, 0, 1, 2, 7, 15, 16, 17, 18, 40]
    };
    for &mx in &maxes {
        for (enc, roll) in [(1, 0), (0, 0), (1, 1)] {
            for &off in &offs {
                cases.push(format!("S {} {} {} {} {}", next_id(), mx, enc, roll, off));
            }
        }
    }
    // antipode and far values for the modular comparison
    for &mx in &maxes {
        for off in [0x7fff_fffei64, 0x7fff_ffff, 0x8000_0000, 0x8000_0001, -0x7fff_ffff] {
            for (enc, roll) in [(1, 0), (0, 0), (1, 1)] {
                cases.push(format!("S {} {} {} {} {}", next_id(), mx, enc, roll, off));
            }
        }
    }
    (cases, hist)
}

fn main() {
    let args: Vec<String> = std::env::args().collect();
    match args.get(1).map(|s| s.as_str()) {
        Some("gen") => {
            let tier = &args[2];
            let seed: u64 = args[3].parse().unwrap();
            let outdir = std::path::PathBuf::from(&args[4]);
            std::fs::create_dir_all(&outdir).unwrap();
            let (cases, hist) = generate(tier, seed);
            let mut cf = std::io::BufWriter::new(std::fs::File::create(outdir.join("cases.txt")).unwrap());
            for c in &cases {
                writeln!(cf, "{}", c).unwrap();
            }
            let mut sj = String::from("{");
            for (i, (k, v)) in hist.iter().enumerate() {
                if i > 0 {
                    sj.push(',');
                }
                write!(sj, "\"{}\":{}", k, v).unwrap();
            }
            sj.push('}');
            std::fs::write(outdir.join("stats.json"), sj).unwrap();
        }
        Some("run") => {
            let text = std::fs::read_to_string(&args[2]).unwrap();
            let mut out = String::new();
            for line in text.lines() {
                run_line(line, &mut out);
                if out.len() > 1 << 20 {
                    print!("{}", out);
                    out.clear();
                }
            }
            print!("{}", out);
        }
        _ => {
            eprintln!("usage: c04 gen <tier> <seed> <outdir> | c04 run <cases>");
            std::process::exit(2);
        }
    }
}
