//! C02 correspondence harness: PASE admits only a peer that knows the passcode, only while a
//! commissioning window is open.
//!
//! usage: c02 gen <quick|thorough> <seed> <outdir>   -> cases.txt (+ stats.json)
//!        c02 run <cases-file>                        -> one canonical line per case from the REAL code
//!
//! Case kinds (the line format is shared with ocaml/c02/driver.ml)
//!   S <id> <op>;<op>;...      a real device (Matter + SecureChannel responder) driven message by message by a
//!                              scripted wire-level initiator, with window operations interleaved
//!   E <id> k=v ...            two real nodes (PaseInitiator::perform against the responder) with a
//!                              man-in-the-middle rewriting handshake messages on the in-memory network
//!   K <id> <class>            the spake2p primitive (setup_verifier) fed one prover share of the class
//!
//! S ops (`:`-separated fields, `e` = handshake label = its own exchange, node id and session id)
//!   open:<b|e>:<pw>:<saltid>:<saltlen>:<iters>:<timeout>   open_basic_comm_window / open_comm_window on `Pase`
//!   close | poll | adv:<ms>                                   close_comm_window / check_comm_window_timeout / time passes
//!   req:<e>:<variant>:<hview>     PBKDFParamRequest (variant = what is sent, hview = what the initiator hashes)
//!   p1:<e>:<pw>:<pt>:<rview>      Pake1 (initiator passcode, prover share class, how it saw the PBKDFParamResponse)
//!   p3:<e>:<ca>:<bview>           Pake3 (confirmation class, how the initiator saw pB)
//!   ack:<e> | st:<e> | abort:<e>  stand-alone ack / StatusReport(InvalidParameter) / go silent until the device gives up
//! Output per op: `<reply>/<window>,<marker>,<sessions>,<failsafe>,<advertised>`.
#![allow(unused_imports, dead_code)]
use std::cell::RefCell;
use std::collections::{BTreeMap, VecDeque};
use std::fmt::Write as _;
use std::io::Write as _;
use std::rc::Rc;

use embassy_futures::select::{select, select3, Either};
use embassy_time::{Duration, Timer};

use rs_matter::crypto::{test_only_crypto, Crypto, CanonEcPointRef, HmacHashRef, EC_POINT_ZEROED, HMAC_HASH_ZEROED};
use rs_matter::error::{Error, ErrorCode};
use rs_matter::respond::Responder;
use rs_matter::sc::pase::verif_spake2p::{
    Spake2P, Spake2pVerifierData, Spake2pVerifierPasswordRef, Spake2pVerifierStr, Spake2pVerifierStrRef,
};
use rs_matter::sc::pase::PaseInitiator;
use rs_matter::sc::SecureChannel;
use rs_matter::transport::exchange::Exchange;
use rs_matter::transport::network::{Address, NetworkReceive, NetworkSend, NoNetwork};
use rs_matter::transport::session::SessionMode;
use rs_matter::utils::select::Coalesce;
use rs_matter::transport::network::MatterLocalService;
use rs_matter::Matter;

use rsm_harness::e2e;
use rsm_harness::Rng;

const A: u16 = 1; // the initiator side of the network
const B: u16 = 2; // the device
const SAI_MS: u32 = 60;

// ------------------------------------------------------------------ network with a rewriting man in the middle

/// What the man in the middle does with one datagram: the datagrams to hand to the receiver instead.
type Mitm = Box<dyn FnMut(u16, u16, usize, &[u8]) -> Vec<Vec<u8>>>;

struct NetInner {
    queues: BTreeMap<u16, VecDeque<(Vec<u8>, u16)>>,
    wakers: BTreeMap<u16, Option<core::task::Waker>>,
    counts: BTreeMap<(u16, u16), usize>,
    mitm: Option<Mitm>,
}

#[derive(Clone)]
struct MNet(Rc<RefCell<NetInner>>);

impl MNet {
    fn new(mitm: Option<Mitm>) -> Self {
        MNet(Rc::new(RefCell::new(NetInner {
            queues: BTreeMap::new(),
            wakers: BTreeMap::new(),
            counts: BTreeMap::new(),
            mitm,
        })))
    }

    fn attach(&self, n: u16) -> (MSend, MRecv) {
        let mut i = self.0.borrow_mut();
        i.queues.insert(n, VecDeque::new());
        i.wakers.insert(n, None);
        (MSend { net: self.clone(), me: n }, MRecv { net: self.clone(), me: n })
    }

    fn enqueue(i: &mut NetInner, src: u16, dst: u16, bytes: Vec<u8>) {
        if let Some(q) = i.queues.get_mut(&dst) {
            q.push_back((bytes, src));
            if let Some(Some(w)) = i.wakers.get_mut(&dst).map(|w| w.take()) {
                w.wake();
            }
        }
    }

    /// Hand a datagram to `dst` directly (not seen by the man in the middle).
    fn inject(&self, src: u16, dst: u16, bytes: &[u8]) {
        let mut i = self.0.borrow_mut();
        Self::enqueue(&mut i, src, dst, bytes.to_vec());
    }

    fn send(&self, src: u16, addr: Address, data: &[u8]) {
        let dst = if addr == e2e::node_addr(A) {
            A
        } else if addr == e2e::node_addr(B) {
            B
        } else {
            return;
        };
        // take the script out while it runs: it may touch the device state, never the network
        let (idx, mitm) = {
            let mut i = self.0.borrow_mut();
            let c = i.counts.entry((src, dst)).or_insert(0);
            let v = *c;
            *c += 1;
            (v, i.mitm.take())
        };
        let out = match mitm {
            Some(mut m) => {
                let o = m(src, dst, idx, data);
                self.0.borrow_mut().mitm = Some(m);
                o
            }
            None => vec![data.to_vec()],
        };
        let mut i = self.0.borrow_mut();
        for d in out {
            Self::enqueue(&mut i, src, dst, d);
        }
    }

    fn try_recv(&self, me: u16) -> Option<Vec<u8>> {
        self.0.borrow_mut().queues.get_mut(&me).and_then(|q| q.pop_front()).map(|x| x.0)
    }
}

struct MSend {
    net: MNet,
    me: u16,
}

struct MRecv {
    net: MNet,
    me: u16,
}

impl NetworkSend for MSend {
    async fn send_to(&mut self, data: &[u8], addr: Address) -> Result<(), Error> {
        self.net.send(self.me, addr, data);
        Ok(())
    }
}

impl NetworkReceive for MRecv {
    async fn wait_available(&mut self) -> Result<(), Error> {
        core::future::poll_fn(|cx| {
            let mut i = self.net.0.borrow_mut();
            if i.queues.get(&self.me).map(|q| !q.is_empty()).unwrap_or(false) {
                core::task::Poll::Ready(())
            } else {
                i.wakers.insert(self.me, Some(cx.waker().clone()));
                core::task::Poll::Pending
            }
        })
        .await;
        Ok(())
    }

    async fn recv_from(&mut self, buffer: &mut [u8]) -> Result<(usize, Address), Error> {
        self.wait_available().await?;
        let mut i = self.net.0.borrow_mut();
        let (bytes, src) = i.queues.get_mut(&self.me).unwrap().pop_front().unwrap();
        let n = bytes.len().min(buffer.len());
        buffer[..n].copy_from_slice(&bytes[..n]);
        Ok((n, e2e::node_addr(src)))
    }
}

// ------------------------------------------------------------------ wire format of unsecured messages

const OP_ACK: u8 = 0x10;
const OP_REQ: u8 = 0x20;
const OP_RESP: u8 = 0x21;
const OP_P1: u8 = 0x22;
const OP_P2: u8 = 0x23;
const OP_P3: u8 = 0x24;
const OP_STATUS: u8 = 0x40;

#[derive(Debug, Clone)]
struct Msg {
    ctr: u32,
    src_node: Option<u64>,
    dst_node: Option<u64>,
    flags: u8, // exchange flags: I=1 A=2 R=4
    opcode: u8,
    exch: u16,
    proto: u16,
    ack: Option<u32>,
    payload: Vec<u8>,
    /// offset of the payload in the datagram
    off: usize,
}

fn parse_msg(d: &[u8]) -> Option<Msg> {
    if d.len() < 8 {
        return None;
    }
    let mflags = d[0];
    let sess = u16::from_le_bytes([d[1], d[2]]);
    if sess != 0 {
        return None;
    }
    let ctr = u32::from_le_bytes([d[4], d[5], d[6], d[7]]);
    let mut p = 8;
    let mut src_node = None;
    let mut dst_node = None;
    if mflags & 0x04 != 0 {
        src_node = Some(u64::from_le_bytes(d.get(p..p + 8)?.try_into().ok()?));
        p += 8;
    }
    match mflags & 0x03 {
        1 => {
            dst_node = Some(u64::from_le_bytes(d.get(p..p + 8)?.try_into().ok()?));
            p += 8;
        }
        2 => p += 2,
        _ => {}
    }
    let flags = *d.get(p)?;
    let opcode = *d.get(p + 1)?;
    let exch = u16::from_le_bytes([*d.get(p + 2)?, *d.get(p + 3)?]);
    let proto = u16::from_le_bytes([*d.get(p + 4)?, *d.get(p + 5)?]);
    p += 6;
    if flags & 0x10 != 0 {
        p += 2;
    }
    let mut ack = None;
    if flags & 0x02 != 0 {
        ack = Some(u32::from_le_bytes(d.get(p..p + 4)?.try_into().ok()?));
        p += 4;
    }
    Some(Msg { ctr, src_node, dst_node, flags, opcode, exch, proto, ack, payload: d.get(p..)?.to_vec(), off: p })
}

fn build_msg(src_node: u64, ctr: u32, exch: u16, opcode: u8, ack: Option<u32>, reliable: bool, payload: &[u8]) -> Vec<u8> {
    let mut d = vec![0x04u8, 0, 0, 0];
    d.extend_from_slice(&ctr.to_le_bytes());
    d.extend_from_slice(&src_node.to_le_bytes());
    let mut fl = 0x01u8; // initiator
    if ack.is_some() {
        fl |= 0x02;
    }
    if reliable {
        fl |= 0x04;
    }
    d.push(fl);
    d.push(opcode);
    d.extend_from_slice(&exch.to_le_bytes());
    d.extend_from_slice(&0u16.to_le_bytes());
    if let Some(a) = ack {
        d.extend_from_slice(&a.to_le_bytes());
    }
    d.extend_from_slice(payload);
    d
}

// ---- TLV by hand (anonymous structure of context-tagged members)

#[derive(Debug, Clone, PartialEq)]
enum Tv {
    Bytes(Vec<u8>),
    U(u64),
    Bool(bool),
    Struct(Vec<(u8, Tv)>),
}

fn tlv_member(out: &mut Vec<u8>, tag: Option<u8>, v: &Tv) {
    let tc = if tag.is_some() { 0x20u8 } else { 0 };
    let push_tag = |out: &mut Vec<u8>| {
        if let Some(t) = tag {
            out.push(t)
        }
    };
    match v {
        Tv::Bytes(b) => {
            out.push(tc | 0x10);
            push_tag(out);
            out.push(b.len() as u8);
            out.extend_from_slice(b);
        }
        Tv::U(x) => {
            if *x < 0x100 {
                out.push(tc | 0x04);
                push_tag(out);
                out.push(*x as u8);
            } else if *x < 0x1_0000 {
                out.push(tc | 0x05);
                push_tag(out);
                out.extend_from_slice(&(*x as u16).to_le_bytes());
            } else {
                out.push(tc | 0x06);
                push_tag(out);
                out.extend_from_slice(&(*x as u32).to_le_bytes());
            }
        }
        Tv::Bool(b) => {
            out.push(tc | if *b { 0x09 } else { 0x08 });
            push_tag(out);
        }
        Tv::Struct(ms) => {
            out.push(tc | 0x15);
            push_tag(out);
            for (t, m) in ms {
                tlv_member(out, Some(*t), m);
            }
            out.push(0x18);
        }
    }
}

fn tlv_struct(ms: &[(u8, Tv)]) -> Vec<u8> {
    let mut out = Vec::new();
    tlv_member(&mut out, None, &Tv::Struct(ms.to_vec()));
    out
}

/// Parse an anonymous structure of context-tagged members (only the element kinds the PASE messages use).
fn tlv_parse(d: &[u8]) -> Option<Vec<(u8, Tv)>> {
    fn members(d: &[u8], p: &mut usize) -> Option<Vec<(u8, Tv)>> {
        let mut out = Vec::new();
        loop {
            let c = *d.get(*p)?;
            *p += 1;
            if c == 0x18 {
                return Some(out);
            }
            if c & 0xe0 != 0x20 {
                return None;
            }
            let tag = *d.get(*p)?;
            *p += 1;
            let v = match c & 0x1f {
                0x04 => {
                    let v = *d.get(*p)? as u64;
                    *p += 1;
                    Tv::U(v)
                }
                0x05 => {
                    let v = u16::from_le_bytes(d.get(*p..*p + 2)?.try_into().ok()?) as u64;
                    *p += 2;
                    Tv::U(v)
                }
                0x06 => {
                    let v = u32::from_le_bytes(d.get(*p..*p + 4)?.try_into().ok()?) as u64;
                    *p += 4;
                    Tv::U(v)
                }
                0x08 => Tv::Bool(false),
                0x09 => Tv::Bool(true),
                0x10 => {
                    let n = *d.get(*p)? as usize;
                    *p += 1;
                    let b = d.get(*p..*p + n)?.to_vec();
                    *p += n;
                    Tv::Bytes(b)
                }
                0x15 => Tv::Struct(members(d, p)?),
                _ => return None,
            };
            out.push((tag, v));
        }
    }
    if *d.first()? != 0x15 {
        return None;
    }
    let mut p = 1;
    members(d, &mut p)
}

fn tv_get<'a>(ms: &'a [(u8, Tv)], tag: u8) -> Option<&'a Tv> {
    ms.iter().find(|(t, _)| *t == tag).map(|(_, v)| v)
}

// ------------------------------------------------------------------ symbolic ids -> concrete values

fn passcode(id: u64) -> u32 {
    20202021 + (id as u32) * 7919
}

fn salt_bytes(id: u64, len: usize) -> Vec<u8> {
    (0..len).map(|i| (id as u8).wrapping_mul(31).wrapping_add(i as u8).wrapping_add(1)).collect()
}

// ------------------------------------------------------------------ the device

struct Device {
    matter: &'static Matter<'static>,
}

#[derive(Debug, Clone, PartialEq)]
struct Obs {
    window: String,
    marker: String,
    sessions: Vec<(u16, bool)>,
    failsafe: bool,
    advertised: bool,
}

impl Device {
    fn new() -> Self {
        let det = e2e::dev_det(Some(SAI_MS), Some(SAI_MS));
        let matter: &'static Matter<'static> = Box::leak(Box::new(e2e::new_matter(det, false)));
        Device { matter }
    }

    fn open(&self, kind: &str, pw: u64, saltid: u64, saltlen: usize, iters: u32, timeout: u16) -> &'static str {
        let crypto = test_only_crypto();
        let salt = salt_bytes(saltid, saltlen);
        let pwb = passcode(pw).to_le_bytes();
        let r = self.matter.with_state(|st| {
            let pase = st.verif_pase();
            if kind == "b" {
                pase.open_basic_comm_window(0x1234, &salt, Spake2pVerifierPasswordRef::new(&pwb), 3840, timeout, None, || {}, |_, _| {})
            } else {
                let mut v = Spake2pVerifierStr::new();
                if (16..=32).contains(&saltlen) {
                    Spake2P::verif_compute_verifier(&crypto, Spake2pVerifierPasswordRef::new(&pwb), iters, &salt, &mut v)?;
                }
                pase.open_comm_window(0x1234, Spake2pVerifierStrRef::new(v.access()), &salt, iters, 3840, timeout, None, || {}, |_, _| {})
            }
        });
        match r {
            Ok(()) => "ok",
            Err(e) => match e.code() {
                ErrorCode::Busy => "busy",
                ErrorCode::InvalidCommand => "invcmd",
                ErrorCode::ConstraintError => "constraint",
                _ => "err",
            },
        }
    }

    fn close(&self) -> &'static str {
        match self.matter.close_comm_window(&()) {
            Ok(true) => "closed",
            Ok(false) => "-",
            Err(_) => "err",
        }
    }

    fn poll(&self) -> &'static str {
        match self.matter.with_state(|st| st.verif_pase().check_comm_window_timeout(|| {}, |_, _| {})) {
            Ok(true) => "closed",
            Ok(false) => "-",
            Err(_) => "err",
        }
    }

    fn age(&self, ms: u64) {
        self.matter.with_state(|st| st.verif_pase().verif_age(Duration::from_millis(ms)));
    }

    /// `owner` maps the peer session id of a completed PASE session / the wire exchange id of the marker to a label.
    fn observe(&self) -> Obs {
        let mut advertised = false;
        let _ = self.matter.mdns_services(|s| {
            if matches!(s, MatterLocalService::Commissionable { .. }) {
                advertised = true;
            }
            Ok(())
        });
        self.matter.with_state(|st| {
            let view = st.verif_pase().verif_view();
            let failsafe = st.verif_failsafe().is_armed();
            let snaps: Vec<_> = st.verif_sessions().iter().map(|s| s.verif_snapshot()).collect();
            let window = match &view.window {
                None => "n".to_string(),
                Some(w) => format!("o{}{}", w.pake_failures, if w.expired { "x" } else { "" }),
            };
            let marker = match view.marker {
                None => "n".to_string(),
                Some((sid, idx, expired)) => {
                    let e = snaps
                        .iter()
                        .find(|s| s.id == sid)
                        .and_then(|s| s.exchanges.iter().find(|x| x.index == idx))
                        .map(|x| x.exch_id);
                    match e {
                        Some(x) => format!("{}{}", x as i32 - 100, if expired { "x" } else { "" }),
                        None => format!("?{}", if expired { "x" } else { "" }),
                    }
                }
            };
            // committed PASE sessions: usable ones and the ones still reserved by their handler
            let mut sessions: Vec<(u16, bool)> = snaps
                .iter()
                .filter(|s| matches!(s.mode, SessionMode::Pase { .. }))
                .map(|s| (s.peer_sess_id, !s.reserved))
                .collect();
            sessions.sort();
            Obs { window, marker, sessions, failsafe, advertised }
        })
    }
}

fn fmt_obs(o: &Obs) -> String {
    format!(
        "{},{},[{}],{},{}",
        o.window,
        o.marker,
        o.sessions.iter().map(|(s, live)| format!("{}{}", s, if *live { "" } else { "r" })).collect::<Vec<_>>().join("+"),
        o.failsafe as u8,
        o.advertised as u8
    )
}

// ------------------------------------------------------------------ the scripted initiator

struct Hs {
    node: u64,
    exch: u16,
    ssid: u16,
    ctr: u32,
    last_rx: Option<u32>,
    seen: Vec<u32>,
    /// request bytes as hashed by the initiator, response bytes as received
    req_hashed: Vec<u8>,
    resp: Vec<u8>,
    salt: Vec<u8>,
    iters: u32,
    spake: Spake2P,
    pa_own: Vec<u8>,
    pb: Vec<u8>,
    cb: Vec<u8>,
    ca: Vec<u8>,
}

fn label_exch(e: u64) -> u16 {
    100 + e as u16
}
fn label_ssid(e: u64) -> u16 {
    2000 + e as u16
}

struct Script<'a> {
    net: &'a MNet,
    dev: &'a Device,
    hs: BTreeMap<u64, Hs>,
    /// cA of the latest handshake that was accepted (for replay)
    last_good_ca: Vec<u8>,
}

impl<'a> Script<'a> {
    fn hs(&mut self, e: u64) -> &mut Hs {
        self.hs.entry(e).or_insert_with(|| Hs {
            node: 0xA000 + e,
            exch: label_exch(e),
            ssid: label_ssid(e),
            ctr: 1000 * (e as u32 + 1),
            last_rx: None,
            seen: Vec::new(),
            req_hashed: Vec::new(),
            resp: Vec::new(),
            salt: Vec::new(),
            iters: 0,
            spake: Spake2P::new(),
            pa_own: Vec::new(),
            pb: Vec::new(),
            cb: Vec::new(),
            ca: Vec::new(),
        })
    }

    fn send(&mut self, e: u64, opcode: u8, reliable: bool, payload: &[u8]) {
        let h = self.hs(e);
        h.ctr += 1;
        let d = build_msg(h.node, h.ctr, h.exch, opcode, h.last_rx, reliable, payload);
        self.net.inject(A, B, &d);
    }

    /// Let the device run until it has answered on handshake `e` or is quiescent.
    async fn settle(&mut self, e: u64) -> Option<Msg> {
        let (node, exch) = {
            let h = self.hs(e);
            (h.node, h.exch)
        };
        let mut reply = None;
        let mut quiet = 0;
        for round in 0..400 {
            if round < 60 {
                futures_lite::future::yield_now().await;
            } else {
                Timer::after(Duration::from_micros(250)).await;
            }
            let mut got = false;
            while let Some(d) = self.net.try_recv(A) {
                got = true;
                if let Some(m) = parse_msg(&d) {
                    // route by destination node id (each handshake label has its own)
                    let owner = self.hs.iter().find(|(_, h)| Some(h.node) == m.dst_node && h.exch == m.exch).map(|(k, _)| *k);
                    if let Some(k) = owner {
                        let h = self.hs.get_mut(&k).unwrap();
                        if h.seen.contains(&m.ctr) {
                            continue; // retransmission
                        }
                        h.seen.push(m.ctr);
                        if m.flags & 0x04 != 0 {
                            h.last_rx = Some(m.ctr);
                        }
                        if k == e && m.opcode != OP_ACK && m.node_match(node, exch) {
                            reply = Some(m);
                        }
                    }
                }
            }
            if got {
                quiet = 0;
            } else {
                quiet += 1;
            }
            // a reply and a few more rounds (the device finishes the step), or a long silence
            if (reply.is_some() && quiet >= 12) || quiet >= 90 {
                break;
            }
        }
        reply
    }
}

impl Msg {
    fn node_match(&self, node: u64, exch: u16) -> bool {
        self.dst_node == Some(node) && self.exch == exch
    }
}

fn status_class(m: &Msg) -> String {
    if m.payload.len() < 8 {
        return "status?".into();
    }
    let general = u16::from_le_bytes([m.payload[0], m.payload[1]]);
    let code = u16::from_le_bytes([m.payload[6], m.payload[7]]);
    match (general, code) {
        (0, 0) => "success".into(),
        (1, 2) => "invparam".into(),
        (8, 4) => "busy".into(),
        (1, 5) => "notfound".into(),
        (g, c) => format!("status{}:{}", g, c),
    }
}

fn reply_class(m: &Option<Msg>) -> String {
    match m {
        None => "none".into(),
        Some(m) => match m.opcode {
            OP_RESP => {
                let has_params = tlv_parse(&m.payload).map(|ms| tv_get(&ms, 4).is_some()).unwrap_or(false);
                if has_params { "resp".into() } else { "respnp".into() }
            }
            OP_P2 => "pake2".into(),
            OP_STATUS => status_class(m),
            o => format!("op{:x}", o),
        },
    }
}

fn flip_bit(v: &mut [u8], bit: usize) {
    let n = v.len() * 8;
    if n > 0 {
        let b = bit % n;
        v[b / 8] ^= 1 << (b % 8);
    }
}

/// An off-range x coordinate: the field prime p of P-256 itself.
const P256_P: [u8; 32] = [
    0xff, 0xff, 0xff, 0xff, 0x00, 0x00, 0x00, 0x01, 0x00, 0x00, 0x00, 0x00, 0x00, 0x00, 0x00, 0x00, 0x00, 0x00, 0x00, 0x00, 0xff, 0xff,
    0xff, 0xff, 0xff, 0xff, 0xff, 0xff, 0xff, 0xff, 0xff, 0xff,
];

fn point_variant(own: &[u8], other: &[u8], pt: &str) -> Vec<u8> {
    let mut v = own.to_vec();
    match pt {
        "own" => {}
        "other" => v = other.to_vec(),
        "ident0" => v = vec![0u8; 65],
        "ident4" => {
            v = vec![0u8; 65];
            v[0] = 4;
        }
        "offc" => {
            let n = v.len();
            v[n - 1] ^= 1;
        }
        "offx" => v[7] ^= 0x10,
        "xrange" => v[1..33].copy_from_slice(&P256_P),
        "fmt" => v[0] = 2,
        "short" => {
            v.pop();
        }
        "long" => v.push(0),
        "empty" => v.clear(),
        _ => {}
    }
    v
}

impl<'a> Script<'a> {
    async fn op(&mut self, op: &str) -> String {
        let crypto = test_only_crypto();
        let f: Vec<&str> = op.split(':').collect();
        let num = |i: usize| -> u64 { f.get(i).and_then(|x| x.parse().ok()).unwrap_or(0) };
        match f[0] {
            "open" => self.dev.open(f[1], num(2), num(3), num(4) as usize, num(5) as u32, num(6) as u16).to_string(),
            "close" => self.dev.close().to_string(),
            "poll" => self.dev.poll().to_string(),
            "adv" => {
                self.dev.age(num(1));
                "none".to_string()
            }
            "req" => {
                let e = num(1);
                let variant = f.get(2).copied().unwrap_or("ok");
                let hview = f.get(3).copied().unwrap_or("s");
                // a new request on a label restarts the initiator's side of it
                if let Some(old) = self.hs.remove(&e) {
                    let h = self.hs(e);
                    h.ctr = old.ctr + 50;
                    h.seen = old.seen;
                    h.last_rx = old.last_rx;
                }
                let ssid = self.hs(e).ssid as u64;
                let random: Vec<u8> = (0..32).map(|i| (e as u8).wrapping_mul(17).wrapping_add(i)).collect();
                let base = vec![(1u8, Tv::Bytes(random.clone())), (2, Tv::U(ssid)), (3, Tv::U(0)), (4, Tv::Bool(false))];
                let mut ms = base.clone();
                let mut bytes: Option<Vec<u8>> = None;
                match variant {
                    "ok" => {}
                    "pid1" => ms[2].1 = Tv::U(1),
                    "hasp" => ms[3].1 = Tv::Bool(true),
                    "norand" => {
                        ms.remove(0);
                    }
                    "nossid" => {
                        ms.remove(1);
                    }
                    "nopid" => {
                        ms.remove(2);
                    }
                    "nohasp" => {
                        ms.remove(3);
                    }
                    "rand16" => ms[0].1 = Tv::Bytes(random[..16].to_vec()),
                    "rand33" => {
                        let mut r = random.clone();
                        r.push(9);
                        ms[0].1 = Tv::Bytes(r)
                    }
                    "sp" => ms.push((5, Tv::Struct(vec![(1, Tv::U(500)), (2, Tv::U(300)), (3, Tv::U(4000))]))),
                    // small MRP intervals: the device gives up retransmitting to us quickly
                    "spf" => ms.push((5, Tv::Struct(vec![(1, Tv::U(20)), (2, Tv::U(20)), (3, Tv::U(4000))]))),
                    "duprand" => ms.insert(1, (1, Tv::Bytes(vec![7u8; 32]))),
                    "extra" => ms.push((9, Tv::U(5))),
                    "empty" => bytes = Some(Vec::new()),
                    "junk" => bytes = Some(vec![0xff, 0x00, 0x13, 0x37]),
                    "noend" => {
                        let mut b = tlv_struct(&ms);
                        b.pop();
                        bytes = Some(b);
                    }
                    v if v.starts_with("trunc") => {
                        let n: usize = v[5..].parse().unwrap_or(1);
                        let b = tlv_struct(&ms);
                        bytes = Some(b[..n.min(b.len())].to_vec());
                    }
                    v if v.starts_with("flip") => {
                        let n: usize = v[4..].parse().unwrap_or(0);
                        let mut b = tlv_struct(&ms);
                        flip_bit(&mut b, n);
                        bytes = Some(b);
                    }
                    _ => {}
                }
                let sent = bytes.unwrap_or_else(|| tlv_struct(&ms));
                let hashed = if hview == "a" {
                    // the initiator built (and hashed) the unmodified request: somebody changed it on the way
                    let mut b = base.clone();
                    b[0].1 = Tv::Bytes(vec![0x5a; 32]);
                    tlv_struct(&b)
                } else {
                    sent.clone()
                };
                self.hs(e).req_hashed = hashed;
                self.send(e, OP_REQ, true, &sent);
                let m = self.settle(e).await;
                if let Some(m) = &m {
                    if m.opcode == OP_RESP {
                        let h = self.hs(e);
                        h.resp = m.payload.clone();
                        if let Some(ms) = tlv_parse(&m.payload) {
                            if let Some(Tv::Struct(p)) = tv_get(&ms, 4) {
                                if let Some(Tv::U(i)) = tv_get(p, 1) {
                                    h.iters = *i as u32;
                                }
                                if let Some(Tv::Bytes(s)) = tv_get(p, 2) {
                                    h.salt = s.clone();
                                }
                            }
                        }
                    }
                }
                reply_class(&m)
            }
            "p1" => {
                let e = num(1);
                let pw = num(2);
                let pt = f.get(3).copied().unwrap_or("own");
                let rview = f.get(4).copied().unwrap_or("s");
                // the initiator's view of the PBKDFParamResponse
                let (req_hashed, mut resp, mut salt, mut iters, ssid) = {
                    let h = self.hs(e);
                    (h.req_hashed.clone(), h.resp.clone(), h.salt.clone(), h.iters, h.ssid)
                };
                if salt.is_empty() {
                    // no response was seen (the device did not answer): any parameters will do
                    salt = vec![1u8; 16];
                    iters = 1000;
                }
                match rview {
                    "salt" => salt[0] ^= 1,
                    "iter" => iters += 1,
                    "hash" => {
                        if !resp.is_empty() {
                            let n = resp.len();
                            resp[n / 2] ^= 0x40;
                        }
                    }
                    _ => {}
                }
                let pwb = passcode(pw).to_le_bytes();
                let mut pa = EC_POINT_ZEROED;
                let mut other = EC_POINT_ZEROED;
                {
                    let mut sp2 = Spake2P::new();
                    let _ = sp2.setup_prover(&crypto, Spake2pVerifierPasswordRef::new(&pwb), &salt, iters, &mut other);
                }
                let h = self.hs(e);
                h.spake = Spake2P::new();
                set_context(&mut h.spake, &crypto, ssid, &req_hashed, &resp);
                let pctx = h.spake.setup_prover(&crypto, Spake2pVerifierPasswordRef::new(&pwb), &salt, iters, &mut pa).unwrap();
                h.pa_own = pa.access().to_vec();
                let payload = match pt {
                    p if p.starts_with("flip") => {
                        let mut b = tlv_struct(&[(1, Tv::Bytes(pa.access().to_vec()))]);
                        // bits of the 65-byte value only (TLV framing is covered by construction)
                        let n: usize = p[4..].parse().unwrap_or(0);
                        let mut v = b[4..69].to_vec();
                        flip_bit(&mut v, n);
                        b[4..69].copy_from_slice(&v);
                        b
                    }
                    "notlv" => vec![0x15, 0x30],
                    "nofield" => tlv_struct(&[]),
                    "wrongtag" => tlv_struct(&[(2, Tv::Bytes(pa.access().to_vec()))]),
                    _ => tlv_struct(&[(1, Tv::Bytes(point_variant(pa.access(), other.access(), pt)))]),
                };
                let opcode = if pt == "wrongop" { OP_P3 } else { OP_P1 };
                self.send(e, opcode, true, &payload);
                let m = self.settle(e).await;
                if let Some(m) = &m {
                    if m.opcode == OP_P2 {
                        if let Some(ms) = tlv_parse(&m.payload) {
                            let h = self.hs(e);
                            if let (Some(Tv::Bytes(pb)), Some(Tv::Bytes(cb))) = (tv_get(&ms, 1), tv_get(&ms, 2)) {
                                h.pb = pb.clone();
                                h.cb = cb.clone();
                            }
                        }
                    }
                }
                // keep the prover context for the confirmation
                let h = self.hs(e);
                h.ca.clear();
                PROVER.with(|p| p.borrow_mut().insert(e, pctx));
                reply_class(&m)
            }
            "p3" => {
                let e = num(1);
                let cav = f.get(2).copied().unwrap_or("own");
                let bview = f.get(3).copied().unwrap_or("s");
                let last_good = self.last_good_ca.clone();
                let h = self.hs(e);
                let mut ca = vec![0x33u8; 32];
                if h.pb.len() == 65 && h.cb.len() == 32 && h.pa_own.len() == 65 {
                    let mut pb = h.pb.clone();
                    if bview == "a" {
                        // the initiator saw another (valid) point as pB
                        pb = h.pa_own.clone();
                    }
                    let pctx = PROVER.with(|p| p.borrow_mut().remove(&e));
                    if let Some(pctx) = pctx {
                        let mut out = HMAC_HASH_ZEROED;
                        let pa: CanonEcPointRef<'_> = h.pa_own.as_slice().try_into().unwrap();
                        let pbr: CanonEcPointRef<'_> = pb.as_slice().try_into().unwrap();
                        let cbr: HmacHashRef<'_> = h.cb.as_slice().try_into().unwrap();
                        // a failing cB check does not stop an attacker from sending its cA
                        let _ = h.spake.complete_prover(&crypto, &pctx, pa, pbr, cbr, &mut out);
                        ca = h.spake.verif_ca().access().to_vec();
                    }
                }
                h.ca = ca.clone();
                let mut v = ca.clone();
                let mut payload = None;
                match cav {
                    "own" => {}
                    "zero" => v = vec![0u8; 32],
                    "short" => {
                        v.pop();
                    }
                    "long" => v.push(0),
                    "empty" => v.clear(),
                    "replay" => {
                        v = if last_good.is_empty() { vec![0x77; 32] } else { last_good };
                    }
                    "notlv" => payload = Some(vec![0x15, 0x30]),
                    "nofield" => payload = Some(tlv_struct(&[])),
                    "wrongtag" => payload = Some(tlv_struct(&[(2, Tv::Bytes(ca.clone()))])),
                    c if c.starts_with("flip") => {
                        let n: usize = c[4..].parse().unwrap_or(0);
                        flip_bit(&mut v, n);
                    }
                    _ => {}
                }
                let payload = payload.unwrap_or_else(|| tlv_struct(&[(1, Tv::Bytes(v))]));
                let opcode = if cav == "wrongop" { OP_P1 } else { OP_P3 };
                self.send(e, opcode, true, &payload);
                let m = self.settle(e).await;
                let r = reply_class(&m);
                if r == "success" {
                    self.last_good_ca = ca;
                }
                r
            }
            "ack" => {
                let e = num(1);
                self.send(e, OP_ACK, false, &[]);
                let m = self.settle(e).await;
                reply_class(&m)
            }
            "st" => {
                let e = num(1);
                // StatusReport(FAILURE, secure channel, INVALID_PARAMETER)
                let p = [1u8, 0, 0, 0, 0, 0, 2, 0];
                self.send(e, OP_STATUS, false, &p);
                let m = self.settle(e).await;
                reply_class(&m)
            }
            "abort" => {
                // say nothing until the device has given up retransmitting (or for at most 6 s)
                let e = num(1);
                let before = self.dev.observe();
                let mut waited = 0;
                while waited < 6000 {
                    Timer::after(Duration::from_millis(20)).await;
                    waited += 20;
                    while self.net.try_recv(A).is_some() {}
                    let now = self.dev.observe();
                    if now != before {
                        break;
                    }
                }
                let _ = e;
                "none".to_string()
            }
            _ => "?".to_string(),
        }
    }
}

fn set_context<C: Crypto>(sp: &mut Spake2P, crypto: &C, ssid: u16, req: &[u8], resp: &[u8]) {
    let ctx = sp.start_context(crypto, ssid, 0, req).unwrap();
    sp.finish_context::<&C>(ctx, resp).unwrap();
}

thread_local! {
    static PROVER: RefCell<BTreeMap<u64, rs_matter::sc::pase::verif_spake2p::ProverContext>> = RefCell::new(BTreeMap::new());
}

fn run_s(ops: &str) -> String {
    let dev = Device::new();
    let net = MNet::new(None);
    let crypto = test_only_crypto();
    let (b_tx, b_rx) = net.attach(B);
    let _a = net.attach(A);
    let sc = SecureChannel::new(&crypto, &());
    let responder = Responder::new("b-sc", sc, dev.matter, 0);
    PROVER.with(|p| p.borrow_mut().clear());
    let out = RefCell::new(String::new());
    e2e::block_on(async {
        let nodes = select(dev.matter.run(&crypto, b_tx, b_rx, NoNetwork), responder.run::<4>()).coalesce();
        let flow = async {
            let mut script = Script { net: &net, dev: &dev, hs: BTreeMap::new(), last_good_ca: Vec::new() };
            for op in ops.split(';').filter(|x| !x.is_empty()) {
                let r = script.op(op).await;
                let o = dev.observe();
                write!(out.borrow_mut(), "{}/{} ", r, fmt_obs(&o)).unwrap();
            }
        };
        match select3(core::pin::pin!(nodes), core::pin::pin!(flow), core::pin::pin!(Timer::after(Duration::from_secs(60)))).await {
            embassy_futures::select::Either3::First(r) => write!(out.borrow_mut(), "transport-exit:{:?}", r.map_err(|e| e.code())).unwrap(),
            embassy_futures::select::Either3::Second(_) => {}
            embassy_futures::select::Either3::Third(_) => out.borrow_mut().push_str("hang"),
        }
    });
    let s = out.borrow().trim_end().to_string();
    s
}

// ------------------------------------------------------------------ E: two real nodes and a man in the middle

fn field<'a>(f: &[&'a str], k: &str) -> &'a str {
    for kv in f {
        if let Some((a, b)) = kv.split_once('=') {
            if a == k {
                return b;
            }
        }
    }
    ""
}

/// Rewrite the payload of one handshake message. `how` = <op>[:<arg>].
fn mutate_payload(opcode: u8, payload: &[u8], how: &str, other_run: &OtherRun) -> Option<Vec<u8>> {
    let (op, arg) = how.split_once(':').unwrap_or((how, "0"));
    let n: usize = arg.parse().unwrap_or(0);
    let mut ms = tlv_parse(payload)?;
    match op {
        "flip" => {
            let mut b = payload.to_vec();
            flip_bit(&mut b, n);
            Some(b)
        }
        "trunc" => Some(payload[..n.min(payload.len())].to_vec()),
        "zero" => {
            // zero the value of member n
            let m = ms.get_mut(n)?;
            m.1 = match &m.1 {
                Tv::Bytes(b) => Tv::Bytes(vec![0; b.len()]),
                Tv::U(_) => Tv::U(0),
                Tv::Bool(_) => Tv::Bool(false),
                Tv::Struct(_) => Tv::Struct(vec![]),
            };
            Some(tlv_struct(&ms))
        }
        "del" => {
            if n < ms.len() {
                ms.remove(n);
            }
            Some(tlv_struct(&ms))
        }
        "dupf" => {
            let m = ms.get(n)?.clone();
            ms.insert(n, m);
            Some(tlv_struct(&ms))
        }
        "set" => {
            // numeric member n := its value + 1 (booleans toggled)
            let m = ms.get_mut(n)?;
            m.1 = match &m.1 {
                Tv::U(x) => Tv::U(x + 1),
                Tv::Bool(b) => Tv::Bool(!b),
                Tv::Bytes(b) => {
                    let mut b = b.clone();
                    if let Some(x) = b.first_mut() {
                        *x ^= 0x80;
                    }
                    Tv::Bytes(b)
                }
                Tv::Struct(p) => {
                    let mut p = p.clone();
                    if let Some((_, Tv::U(x))) = p.first_mut() {
                        *x += 1;
                    }
                    Tv::Struct(p)
                }
            };
            Some(tlv_struct(&ms))
        }
        "salt" => {
            // PBKDFParamResponse: another salt of the same length
            if let Some((_, Tv::Struct(p))) = ms.iter_mut().find(|(t, _)| *t == 4) {
                if let Some((_, Tv::Bytes(b))) = p.iter_mut().find(|(t, _)| *t == 2) {
                    b[0] ^= 1;
                }
            }
            Some(tlv_struct(&ms))
        }
        "other" => {
            // the value another run produced for this message
            let v = match opcode {
                OP_P1 => other_run.pa.clone(),
                OP_P2 => other_run.pb.clone(),
                OP_P3 => other_run.ca.clone(),
                _ => return None,
            };
            ms.first_mut()?.1 = Tv::Bytes(v);
            Some(tlv_struct(&ms))
        }
        _ => None,
    }
}

/// Handshake values of another (successful) run against a device with the same passcode.
#[derive(Default, Clone)]
struct OtherRun {
    pa: Vec<u8>,
    pb: Vec<u8>,
    ca: Vec<u8>,
}

thread_local! {
    static OTHER: RefCell<Option<OtherRun>> = const { RefCell::new(None) };
}

#[derive(Default)]
struct E2eOut {
    a_ok: bool,
    a_res: String,
    obs: Option<Obs>,
    seen: OtherRun,
    hang: bool,
}

fn run_e2e(pwb: u64, pwa: u64, msg: &str, how: &str, at: u64, wop: &str) -> E2eOut {
    let dev = Device::new();
    dev.open("b", pwb, 77, 32, 2000, 900);
    let det = e2e::dev_det(Some(SAI_MS), Some(SAI_MS));
    let matter_a: &'static Matter<'static> = Box::leak(Box::new(e2e::new_matter(det, false)));
    let crypto = test_only_crypto();
    let target_op = match msg {
        "req" => OP_REQ,
        "resp" => OP_RESP,
        "p1" => OP_P1,
        "p2" => OP_P2,
        "p3" => OP_P3,
        _ => 0,
    };
    let how = how.to_string();
    let wop = wop.to_string();
    let other = OTHER.with(|o| o.borrow().clone()).unwrap_or_default();
    let seen = Rc::new(RefCell::new(OtherRun::default()));
    let seen2 = seen.clone();
    let devm = dev.matter;
    // per (opcode, counter): the rewritten datagrams (a retransmission gets the same treatment)
    let mut cache: BTreeMap<(u16, u32), Vec<Vec<u8>>> = BTreeMap::new();
    let mut wop_done = false;
    let mitm: Mitm = Box::new(move |src, _dst, _idx, d| {
        let m = match parse_msg(d) {
            Some(m) => m,
            None => return vec![d.to_vec()],
        };
        if let Some(c) = cache.get(&(src, m.ctr)) {
            return c.clone();
        }
        // a window operation just before the `at`-th initiator message reaches the device
        if src == A && !wop_done {
            let k = match m.opcode {
                OP_REQ => 0,
                OP_P1 => 1,
                OP_P3 => 2,
                _ => 9,
            };
            if k == at {
                wop_done = true;
                let d2 = Device { matter: devm };
                match wop.as_str() {
                    "close" => {
                        d2.close();
                    }
                    "expire" => d2.age(1_000_000),
                    w if w.starts_with("reopen") => {
                        d2.close();
                        d2.open("b", w[6..].parse().unwrap_or(0), 78, 32, 2000, 900);
                    }
                    _ => {}
                }
            }
        }
        if let Some(ms) = tlv_parse(&m.payload) {
            let mut s = seen2.borrow_mut();
            match (m.opcode, ms.first()) {
                (OP_P1, Some((_, Tv::Bytes(b)))) => s.pa = b.clone(),
                (OP_P2, Some((_, Tv::Bytes(b)))) => s.pb = b.clone(),
                (OP_P3, Some((_, Tv::Bytes(b)))) => s.ca = b.clone(),
                _ => {}
            }
        }
        let out = if m.opcode == target_op && m.proto == 0 {
            match how.as_str() {
                "drop" => vec![],
                "dup" => vec![d.to_vec(), d.to_vec()],
                h => match mutate_payload(m.opcode, &m.payload, h, &other) {
                    Some(p) => {
                        let mut nd = d[..m.off].to_vec();
                        nd.extend_from_slice(&p);
                        vec![nd]
                    }
                    None => vec![d.to_vec()],
                },
            }
        } else {
            vec![d.to_vec()]
        };
        if m.opcode == target_op {
            // "drop" loses the first copy only
            cache.insert((src, m.ctr), if how == "drop" { vec![d.to_vec()] } else { out.clone() });
        }
        out
    });
    let net = MNet::new(Some(mitm));
    let (b_tx, b_rx) = net.attach(B);
    let (a_tx, a_rx) = net.attach(A);
    let sc = SecureChannel::new(&crypto, &());
    let responder = Responder::new("b-sc", sc, dev.matter, 0);
    let mut res = E2eOut::default();
    e2e::block_on(async {
        let nodes = select3(
            dev.matter.run(&crypto, b_tx, b_rx, NoNetwork),
            responder.run::<4>(),
            matter_a.run(&crypto, a_tx, a_rx, NoNetwork),
        )
        .coalesce();
        let flow = async {
            // the initiator has no timeout of its own for an answer that never comes
            let r: Result<(), Error> = match e2e::with_timeout(2500, async {
                let ex = Exchange::initiate_plaintext(matter_a, &crypto, e2e::node_addr(B)).await?;
                PaseInitiator::perform(ex, &crypto, passcode(pwa)).await
            })
            .await
            {
                Some(r) => r,
                None => Err(ErrorCode::RxTimeout.into()),
            };
            // let the device finish (its handler may still wait for an acknowledgement)
            let mut waited = 0;
            loop {
                Timer::after(Duration::from_millis(10)).await;
                waited += 10;
                let o = dev.observe();
                if (o.marker == "n" && waited >= 40) || waited > 4000 {
                    break;
                }
            }
            r
        };
        match select3(core::pin::pin!(nodes), core::pin::pin!(flow), core::pin::pin!(Timer::after(Duration::from_secs(30)))).await {
            embassy_futures::select::Either3::First(_) => res.a_res = "transport-exit".into(),
            embassy_futures::select::Either3::Second(r) => {
                res.a_ok = r.is_ok();
                res.a_res = match r {
                    Ok(()) => "ok".into(),
                    Err(_) => "fail".into(),
                };
            }
            embassy_futures::select::Either3::Third(_) => {
                res.hang = true;
                res.a_res = "hang".into();
            }
        }
    });
    // the initiator's own PASE session
    let a_sess = matter_a.with_state(|st| {
        st.verif_sessions().iter().map(|s| s.verif_snapshot()).filter(|s| matches!(s.mode, SessionMode::Pase { .. }) && !s.reserved).count()
    });
    if res.a_ok != (a_sess > 0) {
        res.a_res = format!("{}-but-{}-sessions", res.a_res, a_sess);
    }
    res.obs = Some(dev.observe());
    res.seen = seen.borrow().clone();
    res
}

fn run_e(f: &[&str]) -> String {
    let pwb: u64 = field(f, "pwb").parse().unwrap_or(1);
    let pwa: u64 = field(f, "pwa").parse().unwrap_or(1);
    let (msg, how) = field(f, "mitm").split_once(':').unwrap_or(("none", ""));
    let at: u64 = field(f, "at").parse().unwrap_or(3);
    let wop = field(f, "wop");
    if how.starts_with("other") && OTHER.with(|o| o.borrow().is_none()) {
        // a plain run first: its values are substituted into this one
        // (the test crypto's random numbers repeat from run to run: another passcode gives other values)
        let r = run_e2e(3, 3, "none", "", 3, "none");
        OTHER.with(|o| *o.borrow_mut() = Some(r.seen));
    }
    let r = run_e2e(pwb, pwa, msg, how, at, wop);
    let mut o = r.obs.unwrap();
    // the initiator's session id is allocated by its own Matter: canonicalise
    for s in o.sessions.iter_mut() {
        s.0 = 2001;
    }
    if o.marker != "n" {
        o.marker = format!("1{}", if o.marker.ends_with('x') { "x" } else { "" });
    }
    format!("a={} {}", r.a_res, fmt_obs(&o))
}

// ------------------------------------------------------------------ K: the spake2p primitive

fn run_k(class: &str) -> String {
    let crypto = test_only_crypto();
    let pwb = passcode(1).to_le_bytes();
    let salt = salt_bytes(1, 32);
    let mut own = EC_POINT_ZEROED;
    let mut other = EC_POINT_ZEROED;
    let mut sp = Spake2P::new();
    let _ = sp.setup_prover(&crypto, Spake2pVerifierPasswordRef::new(&pwb), &salt, 1000, &mut own).unwrap();
    let _ = sp.setup_prover(&crypto, Spake2pVerifierPasswordRef::new(&pwb), &salt, 1000, &mut other).unwrap();
    let v = point_variant(own.access(), other.access(), class);
    let a_pt: Result<CanonEcPointRef<'_>, _> = v.as_slice().try_into();
    let a_pt = match a_pt {
        Ok(p) => p,
        Err(_) => return "rej".into(),
    };
    let mut vstr = Spake2pVerifierStr::new();
    Spake2P::verif_compute_verifier(&crypto, Spake2pVerifierPasswordRef::new(&pwb), 1000, &salt, &mut vstr).unwrap();
    let mut data = Spake2pVerifierData {
        password: None,
        verifier: vstr,
        salt: rs_matter::sc::pase::verif_spake2p::Spake2pVerifierSalt::new(),
        salt_len: 32,
        count: 1000,
    };
    data.salt.access_mut().copy_from_slice(&salt);
    let mut verifier = Spake2P::new();
    let mut b_pt = EC_POINT_ZEROED;
    let mut cb = HMAC_HASH_ZEROED;
    match rsm_harness::catch(std::panic::AssertUnwindSafe(|| verifier.setup_verifier(&crypto, &data, a_pt, &mut b_pt, &mut cb))) {
        Ok(Ok(())) => "ok".into(),
        Ok(Err(_)) => "rej".into(),
        Err(_) => "panic".into(),
    }
}

fn run_line(line: &str, out: &mut String) {
    let f: Vec<&str> = line.splitn(3, ' ').collect();
    match f[0] {
        "S" => writeln!(out, "S {} {}", f[1], run_s(f.get(2).copied().unwrap_or(""))).unwrap(),
        "E" => {
            let kv: Vec<&str> = f.get(2).copied().unwrap_or("").split(' ').collect();
            writeln!(out, "E {} {}", f[1], run_e(&kv)).unwrap()
        }
        "K" => writeln!(out, "K {} {}", f[1], run_k(f.get(2).copied().unwrap_or(""))).unwrap(),
        _ => {}
    }
}

// ------------------------------------------------------------------ generation

const REQ_VARIANTS: &[&str] = &[
    "ok", "sp", "extra", "duprand", "hasp", "pid1", "rand16", "rand33", "norand", "nossid", "nopid", "nohasp", "empty", "junk", "noend", "trunc1",
    "trunc3", "trunc35", "trunc36", "trunc39", "trunc42",
];
const PT_VARIANTS: &[&str] = &[
    "own", "other", "ident0", "ident4", "offc", "offx", "xrange", "fmt", "short", "long", "empty", "notlv", "nofield", "wrongtag", "wrongop",
];
const CA_VARIANTS: &[&str] = &["own", "zero", "flip0", "flip255", "replay", "short", "long", "empty", "notlv", "nofield", "wrongtag", "wrongop"];
const K_CLASSES: &[&str] = &["own", "other", "ident0", "ident4", "offc", "offx", "xrange", "fmt", "short", "long", "empty"];

struct Gen {
    cases: Vec<String>,
    id: u64,
    streams: BTreeMap<String, u64>,
}

impl Gen {
    fn s(&mut self, stream: &str, ops: &[String]) {
        self.id += 1;
        *self.streams.entry(stream.to_string()).or_insert(0) += 1;
        self.cases.push(format!("S {} {}", self.id, ops.join(";")));
    }
    fn raw(&mut self, stream: &str, kind: &str, rest: String) {
        self.id += 1;
        *self.streams.entry(stream.to_string()).or_insert(0) += 1;
        self.cases.push(format!("{} {} {}", kind, self.id, rest));
    }
}

fn sv(v: &[&str]) -> Vec<String> {
    v.iter().map(|x| x.to_string()).collect()
}

fn generate(tier: &str, seed: u64) -> (Vec<String>, BTreeMap<String, u64>) {
    let thorough = tier == "thorough";
    let mut rng = Rng::new(seed);
    let mut g = Gen { cases: Vec::new(), id: 0, streams: BTreeMap::new() };
    let open_b = "open:b:1:1:32:2000:300".to_string();
    let hs = |e: u64, pw: u64| -> Vec<String> {
        vec![format!("req:{}:ok:s", e), format!("p1:{}:{}:own:s", e, pw), format!("p3:{}:own:s", e), format!("ack:{}", e)]
    };

    // --- branch stream: passcodes, salt and iteration bounds, window kinds
    for (kind, saltlen, iters) in [("b", 16u64, 2000u64), ("b", 32, 2000), ("b", 24, 2000), ("e", 16, 1000), ("e", 32, 1000), ("e", 17, 1001)] {
        for (pwb, pwa) in [(1u64, 1u64), (1, 2), (3, 3), (2, 1)] {
            let mut ops = vec![format!("open:{}:{}:{}:{}:{}:{}", kind, pwb, 1 + rng.below(5), saltlen, iters, 180 + rng.below(720))];
            ops.extend(hs(1, pwa));
            ops.push("req:2:ok:s".into());
            g.s("passcodes-salt-iterations", &ops);
        }
    }
    g.s("passcodes-salt-iterations", &[vec!["open:e:1:1:32:100000:300".to_string()], hs(1, 1)].concat());
    // open: argument checks
    g.s(
        "window-api",
        &sv(&[
            "req:1:ok:s", "close", "poll", "open:e:3:2:15:1000:180", "open:e:3:2:33:1000:180", "open:b:3:2:15:2000:180", "open:e:3:2:16:1000:179",
            "open:b:3:2:16:1000:901", "open:e:3:2:16:1000:900", "open:b:1:1:32:2000:300", "req:1:ok:s", "p1:1:3:own:s", "p3:1:own:s", "ack:1", "poll",
            "adv:899000", "poll", "adv:2000", "poll", "poll", "open:b:1:1:32:2000:180", "adv:179000", "poll", "adv:2000", "req:2:ok:s",
        ]),
    );
    // every request / Pake1 / Pake3 variant, followed by the rest of an otherwise honest handshake
    for v in REQ_VARIANTS {
        for hv in ["s", "a"] {
            g.s(
                "request-variants",
                &[vec![open_b.clone(), format!("req:1:{}:{}", v, hv)], sv(&["p1:1:1:own:s", "p3:1:own:s", "ack:1", "req:2:ok:s"])].concat(),
            );
        }
    }
    for v in PT_VARIANTS {
        g.s("pake1-variants", &[vec![open_b.clone(), "req:1:ok:s".into(), format!("p1:1:1:{}:s", v)], sv(&["p3:1:own:s", "ack:1", "req:2:ok:s"])].concat());
    }
    // an attacker who sends an unusable share and then the all-zero confirmation (what an unset cA would be)
    for v in ["ident0", "ident4", "offc", "xrange", "fmt", "short", "notlv", "wrongtag"] {
        g.s("invalid-share-then-zero-confirmation", &[vec![open_b.clone(), "req:1:ok:s".into(), format!("p1:1:1:{}:s", v)], sv(&["p3:1:zero:s", "ack:1", "req:2:ok:s"])].concat());
    }
    for v in CA_VARIANTS {
        g.s("pake3-variants", &[vec![open_b.clone()], sv(&["req:1:ok:s", "p1:1:1:own:s"]), vec![format!("p3:1:{}:s", v)], sv(&["ack:1", "req:2:ok:s"])].concat());
    }
    for rv in ["salt", "iter", "hash"] {
        g.s("views", &[vec![open_b.clone()], sv(&["req:1:ok:s"]), vec![format!("p1:1:1:own:{}", rv)], sv(&["p3:1:own:s", "ack:1"])].concat());
    }
    g.s("views", &[vec![open_b.clone()], sv(&["req:1:ok:s", "p1:1:1:own:s", "p3:1:own:a", "ack:1"])].concat());
    // a replayed confirmation of an earlier successful run
    g.s("replay", &[vec![open_b.clone()], hs(1, 1), sv(&["req:2:ok:s", "p1:2:1:own:s", "p3:2:replay:s", "ack:2", "req:3:ok:s", "p1:3:1:own:s", "p3:3:own:s", "ack:3"])].concat());
    // the initiator aborts with a StatusReport at every stage
    g.s(
        "status-abort",
        &[vec![open_b.clone()], sv(&["req:1:ok:s", "st:1", "req:2:ok:s", "p1:2:1:own:s", "st:2", "req:3:ok:s", "p1:3:1:own:s", "p3:3:zero:s", "st:3", "req:4:ok:s", "p1:4:1:own:s", "p3:4:own:s", "st:4"])].concat(),
    );
    // the initiator goes silent at every stage (the device's retransmissions run out)
    for k in 0..4 {
        let mut ops = vec![open_b.clone(), "req:1:spf:s".to_string()];
        if k >= 1 {
            ops.push("p1:1:1:own:s".into());
        }
        if k == 2 {
            ops.push("p3:1:zero:s".into());
        }
        if k == 3 {
            ops.push("p3:1:own:s".into());
        }
        ops.push("abort:1".into());
        ops.push("req:2:ok:s".into());
        g.s("silent-abort", &ops);
    }
    // 21 failing attempts in a row (wrong passcode), then an honest one
    {
        let mut ops = vec![open_b.clone()];
        for k in 1..=21 {
            ops.extend(hs(k, 2));
        }
        ops.extend(hs(22, 1));
        g.s("twenty-failures", &ops);
        // mixed kinds of failure
        let mut ops = vec![open_b.clone()];
        for k in 1..=21u64 {
            match k % 4 {
                0 => ops.extend(sv(&[&format!("req:{}:ok:s", k), &format!("p1:{}:1:offc:s", k)])),
                1 => ops.extend(sv(&[&format!("req:{}:ok:s", k), &format!("st:{}", k)])),
                2 => ops.extend(sv(&[&format!("req:{}:pid1:s", k)])),
                _ => ops.extend(sv(&[&format!("req:{}:ok:s", k), &format!("p1:{}:1:own:s", k), &format!("p3:{}:zero:s", k), &format!("ack:{}", k)])),
            }
        }
        g.s("twenty-failures", &ops);
        // a success in between does not reset and is not counted
        let mut ops = vec![open_b.clone()];
        for k in 1..=10 {
            ops.extend(hs(k, 2));
        }
        ops.extend(hs(11, 1));
        for k in 12..=22 {
            ops.extend(hs(k, 2));
        }
        g.s("twenty-failures", &ops);
    }
    // window operations between the messages
    let wops: Vec<Vec<String>> = vec![
        sv(&["close"]),
        sv(&["poll"]),
        sv(&["close", "open:b:1:1:32:2000:300"]),
        sv(&["close", "open:b:2:2:16:2000:300"]),
        sv(&["close", "open:e:1:1:32:1000:300"]),
        sv(&["adv:6000"]),            // the window (opened 175 s ago for 180 s) expires, the marker is live
        sv(&["adv:6000", "poll"]),
        sv(&["adv:61000"]),           // the marker's deadline passes too
        sv(&["adv:3000"]),            // nothing expires
        sv(&["open:b:2:2:16:2000:300"]), // Busy: a window is open
    ];
    for w in &wops {
        for pos in 0..5 {
            let base = sv(&["req:1:ok:s", "p1:1:1:own:s", "p3:1:own:s", "ack:1"]);
            let mut ops = vec!["open:b:1:1:32:2000:180".to_string(), "adv:175000".to_string()];
            for (i, b) in base.iter().enumerate() {
                if i == pos {
                    ops.extend(w.clone());
                }
                ops.push(b.clone());
            }
            if pos == 4 {
                ops.extend(w.clone());
            }
            ops.push("req:2:ok:s".into());
            ops.push("p1:2:1:own:s".into());
            g.s("window-ops-between-messages", &ops);
        }
    }
    // a second initiator at every step (and its own further messages)
    for pos in 0..5 {
        for second in [sv(&["req:2:ok:s"]), sv(&["req:2:ok:s", "p1:2:1:own:s", "p3:2:own:s"]), sv(&["req:2:junk:s"]), sv(&["p1:2:1:own:s"]), sv(&["st:2"])] {
            let base = sv(&["req:1:ok:s", "p1:1:1:own:s", "p3:1:own:s", "ack:1"]);
            let mut ops = vec![open_b.clone()];
            for (i, b) in base.iter().enumerate() {
                if i == pos {
                    ops.extend(second.clone());
                }
                ops.push(b.clone());
            }
            if pos == 4 {
                ops.extend(second.clone());
            }
            g.s("second-initiator", &ops);
        }
    }
    // marker expiry and take-over
    g.s("marker", &[vec![open_b.clone()], sv(&["req:1:ok:s", "adv:61000", "req:2:ok:s", "p1:1:1:own:s", "p1:2:1:own:s", "p3:2:own:s", "ack:2"])].concat());
    g.s("marker", &[vec![open_b.clone()], sv(&["req:1:ok:s", "p1:1:1:own:s", "adv:61000", "p3:1:own:s", "req:2:ok:s"])].concat());
    g.s("marker", &[vec![open_b.clone()], sv(&["req:1:ok:s", "adv:59000", "p1:1:1:own:s", "adv:59000", "p3:1:own:s", "ack:1"])].concat());
    g.s("marker", &[vec![open_b.clone()], sv(&["req:1:ok:s", "p1:1:1:own:s", "adv:61000", "req:2:ok:s", "p3:1:own:s", "p1:2:1:own:s", "p3:2:own:s", "ack:2"])].concat());
    g.s("marker", &[vec![open_b.clone()], sv(&["req:1:ok:s", "req:1:ok:s", "ack:1", "p1:1:1:own:s"])].concat());
    g.s("marker", &[vec![open_b.clone()], sv(&["p1:1:1:own:s", "p3:1:own:s", "ack:1", "st:1", "req:1:ok:s", "ack:1", "ack:1", "p1:1:1:own:s", "ack:1", "p3:1:own:s", "ack:1"])].concat());
    g.s("marker", &[vec![open_b.clone()], sv(&["req:1:ok:s", "p1:1:1:own:s", "p3:1:zero:s", "close", "ack:1"])].concat());
    g.s("marker", &[vec![open_b.clone()], sv(&["req:1:ok:s", "p1:1:1:own:s", "p3:1:own:s", "close", "ack:1", "open:b:1:1:32:2000:300", "req:2:ok:s"])].concat());

    // --- single-bit sweeps
    let ca_bits: Vec<u64> = if thorough { (0..256).collect() } else { (0..32).map(|_| rng.below(256)).collect() };
    for b in ca_bits {
        g.s("confirmation-bit-flips", &[vec![open_b.clone()], sv(&["req:1:ok:s", "p1:1:1:own:s"]), vec![format!("p3:1:flip{}:s", b)], sv(&["ack:1"])].concat());
    }
    let pa_bits: Vec<u64> = if thorough { (0..520).collect() } else { (0..32).map(|_| rng.below(520)).collect() };
    for b in pa_bits {
        g.s("share-bit-flips", &[vec![open_b.clone()], sv(&["req:1:ok:s"]), vec![format!("p1:1:1:flip{}:s", b)], sv(&["p3:1:own:s", "ack:1"])].concat());
    }
    // request bits: the class (accepted / refused) is not known by construction -> only the final state is compared
    let rq_bits: Vec<u64> = if thorough { (0..(45 * 8)).collect() } else { (0..40).map(|_| rng.below(45 * 8)).collect() };
    for b in rq_bits {
        g.s("request-bit-flips-weak", &[vec![open_b.clone()], vec![format!("req:1:flip{}:a", b)], sv(&["p1:1:1:own:s", "p3:1:own:s", "ack:1", "ack:1"])].concat());
    }

    // --- random sequences over up to three concurrent labels
    let n_random = if thorough { 8000 } else { 170 };
    for _ in 0..n_random {
        let mut ops: Vec<String> = Vec::new();
        let pwb = rng.range(1, 2);
        if rng.chance(9, 10) {
            ops.push(format!("open:{}:{}:{}:{}:{}:{}", if rng.chance(1, 2) { "b" } else { "e" }, pwb, rng.range(1, 3), rng.range(16, 32), 1000, 180 + rng.below(3) * 100));
        }
        // stage per label: 0 none, 1 after req, 2 after p1, 3 after p3
        let mut stage = [0u8; 4];
        let len = rng.range(4, 16);
        for _ in 0..len {
            let e = rng.range(1, 3) as usize;
            let roll = rng.below(100);
            if roll < 8 {
                // (amounts whose sums stay clear of the 60 s / 180 s / 280 s / 380 s deadlines: the device runs on the real clock)
                ops.push((*rng.pick(&["close", "poll", "adv:3100", "adv:29000", "adv:61000", "adv:200000"])).to_string());
            } else if roll < 12 {
                ops.push(format!("open:b:{}:{}:{}:2000:{}", rng.range(1, 2), rng.range(1, 3), rng.range(16, 32), 180 + rng.below(3) * 100));
            } else if roll < 80 {
                // the next step of label e, mostly well-formed
                match stage[e] {
                    0 => {
                        let v = if rng.chance(4, 5) { "ok" } else { *rng.pick(REQ_VARIANTS) };
                        ops.push(format!("req:{}:{}:{}", e, v, if rng.chance(9, 10) { "s" } else { "a" }));
                        stage[e] = 1;
                    }
                    1 => {
                        let v = if rng.chance(3, 4) { "own" } else { *rng.pick(PT_VARIANTS) };
                        let pw = if rng.chance(2, 3) { pwb } else { rng.range(1, 2) };
                        ops.push(format!("p1:{}:{}:{}:{}", e, pw, v, if rng.chance(9, 10) { "s" } else { *rng.pick(&["salt", "iter", "hash"]) }));
                        stage[e] = 2;
                    }
                    2 => {
                        let v = if rng.chance(3, 4) { "own" } else { *rng.pick(CA_VARIANTS) };
                        ops.push(format!("p3:{}:{}:{}", e, v, if rng.chance(9, 10) { "s" } else { "a" }));
                        stage[e] = 3;
                    }
                    _ => {
                        ops.push(format!("ack:{}", e));
                        stage[e] = 0;
                    }
                }
            } else if roll < 90 {
                // out of order
                let k = rng.below(5);
                ops.push(match k {
                    0 => format!("req:{}:ok:s", e),
                    1 => format!("p1:{}:{}:own:s", e, pwb),
                    2 => format!("p3:{}:own:s", e),
                    3 => format!("ack:{}", e),
                    _ => format!("st:{}", e),
                });
                if k == 4 || stage[e] == 3 {
                    stage[e] = 0;
                }
            } else {
                ops.push(format!("ack:{}", e));
                if stage[e] == 3 {
                    stage[e] = 0;
                }
            }
        }
        // never leave a handler waiting for an acknowledgement mid-sequence unobserved: finish with acks
        for e in 1..=3 {
            ops.push(format!("ack:{}", e));
        }
        g.s("random", &ops);
    }

    // --- two real nodes, man in the middle
    let mut e = |g: &mut Gen, stream: &str, pwb: u64, pwa: u64, mitm: &str, class: &str, at: u64, wop: &str| {
        g.raw(stream, "E", format!("pwb={} pwa={} mitm={} class={} at={} wop={}", pwb, pwa, mitm, class, at, wop));
    };
    for (pwb, pwa) in [(1u64, 1u64), (1, 2), (2, 2), (2, 1)] {
        e(&mut g, "e2e-passcodes", pwb, pwa, "none:", "none", 3, "none");
    }
    for msg in ["req", "resp", "p1", "p2", "p3"] {
        e(&mut g, "e2e-loss-duplication", 1, 1, &format!("{}:drop", msg), "none", 3, "none");
        e(&mut g, "e2e-loss-duplication", 1, 1, &format!("{}:dup", msg), "none", 3, "none");
    }
    // field mutations: (message, how, class)
    let mut muts: Vec<(&str, String, &str)> = Vec::new();
    for (n, c) in [(0, "req-altered"), (1, "req-altered"), (2, "req-broken"), (3, "req-altered")] {
        muts.push(("req", format!("set:{}", n), c));
    }
    for n in 0..4 {
        muts.push(("req", format!("del:{}", n), "req-broken"));
        muts.push(("req", format!("dupf:{}", n), "req-altered"));
    }
    muts.push(("req", "zero:0".into(), "req-altered"));
    for n in [1usize, 3, 35, 39, 42] {
        muts.push(("req", format!("trunc:{}", n), "req-broken"));
    }
    for n in 0..5 {
        muts.push(("resp", format!("set:{}", n), "resp-altered"));
        muts.push(("resp", format!("del:{}", n), "resp-altered"));
        muts.push(("resp", format!("zero:{}", n), "resp-altered"));
    }
    muts.push(("resp", "salt".into(), "resp-altered"));
    muts.push(("resp", "dupf:1".into(), "resp-altered"));
    for n in [1usize, 36, 70, 75] {
        muts.push(("resp", format!("trunc:{}", n), "resp-altered"));
    }
    muts.push(("p1", "zero:0".into(), "p1-invalid"));
    muts.push(("p1", "del:0".into(), "p1-invalid"));
    muts.push(("p1", "set:0".into(), "p1-invalid"));
    // the transcript covers the value of pA, not the bytes of Pake1: a repeated member changes nothing
    muts.push(("p1", "dupf:0".into(), "none"));
    muts.push(("p1", "other".into(), "p1-swapped"));
    for n in [1usize, 4, 68] {
        muts.push(("p1", format!("trunc:{}", n), "p1-invalid"));
    }
    for n in 0..2 {
        muts.push(("p2", format!("zero:{}", n), "p2-altered"));
        muts.push(("p2", format!("del:{}", n), "p2-altered"));
        muts.push(("p2", format!("set:{}", n), "p2-altered"));
    }
    muts.push(("p2", "other".into(), "p2-altered"));
    muts.push(("p2", "trunc:70".into(), "p2-altered"));
    muts.push(("p3", "zero:0".into(), "p3-altered"));
    muts.push(("p3", "set:0".into(), "p3-altered"));
    muts.push(("p3", "other".into(), "p3-altered"));
    muts.push(("p3", "del:0".into(), "p3-broken"));
    muts.push(("p3", "trunc:20".into(), "p3-broken"));
    muts.push(("p3", "trunc:3".into(), "p3-broken"));
    // single bits
    let nbits = if thorough { 24 } else { 3 };
    for (msg, len, class) in [("req", 45usize, "req-altered"), ("resp", 120, "resp-altered"), ("p1", 69, "p1-invalid"), ("p2", 104, "p2-altered"), ("p3", 37, "p3-altered")] {
        for _ in 0..nbits {
            // not the last byte (end of container): the reader tolerates its absence
            muts.push((msg, format!("flip:{}", rng.below((len as u64 - 1) * 8)), class));
        }
    }
    let keep = if thorough { muts.len() } else { 40 };
    let mut picked: Vec<usize> = (0..muts.len()).collect();
    // quick: a deterministic sample that always contains one mutation of each message
    if !thorough {
        let mut sel: Vec<usize> = Vec::new();
        for msg in ["req", "resp", "p1", "p2", "p3"] {
            let idx: Vec<usize> = picked.iter().copied().filter(|i| muts[*i].0 == msg).collect();
            for _ in 0..(keep / 5) {
                let c = idx[rng.below(idx.len() as u64) as usize];
                if !sel.contains(&c) {
                    sel.push(c);
                }
            }
        }
        picked = sel;
    }
    for i in picked {
        let (msg, how, class) = &muts[i];
        e(&mut g, "e2e-mutations", 1, 1, &format!("{}:{}", msg, how), class, 3, "none");
    }
    for at in 0..3 {
        for wop in ["close", "expire", "reopen1", "reopen2"] {
            e(&mut g, "e2e-window-ops", 1, 1, "none:", "none", at, wop);
        }
    }
    e(&mut g, "e2e-window-ops", 1, 2, "none:", "none", 1, "reopen2");

    // --- the primitive
    for c in K_CLASSES {
        g.raw("spake2p-primitive", "K", c.to_string());
    }
    (g.cases, g.streams)
}

fn main() {
    let args: Vec<String> = std::env::args().collect();
    match args.get(1).map(|s| s.as_str()) {
        Some("gen") => {
            let outdir = std::path::PathBuf::from(&args[4]);
            std::fs::create_dir_all(&outdir).unwrap();
            let (cases, streams) = generate(&args[2], args[3].parse().unwrap());
            let mut cf = std::io::BufWriter::new(std::fs::File::create(outdir.join("cases.txt")).unwrap());
            for c in &cases {
                writeln!(cf, "{}", c).unwrap();
            }
            let mut sf = std::fs::File::create(outdir.join("stats.json")).unwrap();
            let body: Vec<String> = streams.iter().map(|(k, v)| format!("\"{}\": {}", k, v)).collect();
            writeln!(sf, "{{\"cases\": {}, \"streams\": {{{}}}}}", cases.len(), body.join(", ")).unwrap();
        }
        Some("run") => {
            rsm_harness::silence_panics();
            let text = std::fs::read_to_string(&args[2]).unwrap();
            let mut out = String::new();
            for line in text.lines() {
                run_line(line, &mut out);
            }
            print!("{}", out);
        }
        _ => {
            eprintln!("usage: c02 gen <tier> <seed> <outdir> | c02 run <cases>");
            std::process::exit(2);
        }
    }
}
