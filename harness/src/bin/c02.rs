//! C02 correspondence harness: PASE admits only a peer that knows the passcode, only while a
//! commissioning window is open.
//!
//! usage: c02 gen <quick|thorough> <seed> <outdir>   -> cases.txt (+ stats.json)
//!        c02 run <cases-file>                        -> one canonical line per case from the REAL code
//!
//! Case kinds (the line format is shared with ocaml/c02/driver.ml)
//!   S <id> <op>;<op>;...      a real device (Matter + SecureChannel responder) driven message by message by a
//!                              scripted wire-level initiator, with window operations interleaved
//!   E <id> k=v ...            two real nodes (PaseInitiator::perform against the responder) with a
//!                              man-in-the-middle rewriting handshake messages on the in-memory network
//!   K <id> <class>            the spake2p primitive (setup_verifier) fed one prover share of the class
//!
//! S ops (`:`-separated fields, `e` = handshake label = its own exchange, node id and session id)
//!   open:<b|e>:<pw>:<saltid>:<saltlen>:<iters>:<timeout>   open_basic_comm_window / open_comm_window on `Pase`
//!   close | poll | adv:<ms>                                   close_comm_window / check_comm_window_timeout / time passes
//!   req:<e>:<variant>:<hview>     PBKDFParamRequest (variant = what is sent, hview = what the initiator hashes)
//!   p1:<e>:<pw>:<pt>:<rview>      Pake1 (initiator passcode, prover share class, how it saw the PBKDFParamResponse)
//!   p3:<e>:<ca>:<bview>           Pake3 (confirmation class, how the initiator saw pB)
//!   ack:<e> | st:<e> | abort:<e>  stand-alone ack / StatusReport(InvalidParameter) / go silent until the device gives up
//! Output per op: `<reply>/<window>,<marker>,<sessions>,<failsafe>,<advertised>`.
#![allow(unused_imports, dead_code)]
use std::cell::RefCell;
use std::collections::{BTreeMap, VecDeque};
use std::fmt::Write as _;
use std::io::Write as _;
use std::rc::Rc;

use embassy_futures::select::{select, select3, Either};
use embassy_time::{Duration, Timer};

use rs_matter::crypto::{test_only_crypto, Crypto, CanonEcPointRef, HmacHashRef, EC_POINT_ZEROED, HMAC_HASH_ZEROED};
use rs_matter::error::{Error, ErrorCode};
use rs_matter::respond::Responder;
use rs_matter::sc::pase::verif_spake2p::{
    Spake2P, Spake2pVerifierData, Spake2pVerifierPasswordRef, Spake2pVerifierStr, Spake2pVerifierStrRef,
};
use rs_matter::sc::pase::PaseInitiator;
use rs_matter::sc::SecureChannel;
use rs_matter::transport::exchange::Exchange;
use rs_matter::transport::network::{Address, NetworkReceive, NetworkSend, NoNetwork};
use rs_matter::transport::session::SessionMode;
use rs_matter::utils::select::Coalesce;
use rs_matter::transport::network::MatterLocalService;
use rs_matter::Matter;

use rsm_harness::e2e;
use rsm_harness::Rng;

const A: u16 = 1; // the initiator side of the network
const B: u16 = 2; // the device
const SAI_MS: u32 = 60;

// ------------------------------------------------------------------ network with a rewriting man in the middle

/// What the man in the middle does with one datagram: the datagrams to hand to the receiver instead.
type Mitm = Box<dyn FnMut(u16, u16, usize, &[u8]) -> Vec<Vec<u8>>>;

struct NetInner {
    queues: BTreeMap<u16, VecDeque<(Vec<u8>, u16)>>,
    wakers: BTreeMap<u16, Option<core::task::Waker>>,
    counts: BTreeMap<(u16, u16), usize>,
    mitm: Option<Mitm>,
}

#[derive(Clone)]
struct MNet(Rc<RefCell<NetInner>>);

impl MNet {
    fn new(mitm: Option<Mitm>) -> Self {
        MNet(Rc::new(RefCell::new(NetInner {
            queues: BTreeMap::new(),
            wakers: BTreeMap::new(),
            counts: BTreeMap::new(),
            mitm,
        })))
    }

    fn attach(&self, n: u16) -> (MSend, MRecv) {
        let mut i = self.0.borrow_mut();
        i.queues.insert(n, VecDeque::new());
        i.wakers.insert(n, None);
        (MSend { net: self.clone(), me: n }, MRecv { net: self.clone(), me: n })
    }

    fn enqueue(i: &mut NetInner, src: u16, dst: u16, bytes: Vec<u8>) {
        if let Some(q) = i.queues.get_mut(&dst) {
            q.push_back((bytes, src));
            if let Some(Some(w)) = i.wakers.get_mut(&dst).map(|w| w.take()) {
                w.wake();
            }
        }
    }

    /// Hand a datagram to `dst` directly (not seen by the man in the middle).
    fn inject(&self, src: u16, dst: u16, bytes: &[u8]) {
        let mut i = self.0.borrow_mut();
        Self::enqueue(&mut i, src, dst, bytes.to_vec());
    }

    fn send(&self, src: u16, addr: Address, data: &[u8]) {
        let dst = if addr == e2e::node_addr(A) {
            A
        } else if addr == e2e::node_addr(B) {
            B
        } else {
            return;
        };
        // take the script out while it runs: it may touch the device state, never the network
        let (idx, mitm) = {
            let mut i = self.0.borrow_mut();
            let c = i.counts.entry((src, dst)).or_insert(0);
            let v = *c;
            *c += 1;
            (v, i.mitm.take())
        };
        let out = match mitm {
            Some(mut m) => {
                let o = m(src, dst, idx, data);
                self.0.borrow_mut().mitm = Some(m);
                o
            }
            None => vec![data.to_vec()],
        };
        let mut i = self.0.borrow_mut();
        for d in out {
            Self::enqueue(&mut i, src, dst, d);
        }
    }

    fn try_recv(&self, me: u16) -> Option<Vec<u8>> {
        self.0.borrow_mut().queues.get_mut(&me).and_then(|q| q.pop_front()).map(|x| x.0)
    }
}

struct MSend {
    net: MNet,
    me: u16,
}

struct MRecv {
    net: MNet,
    me: u16,
}

impl NetworkSend for MSend {
    async fn send_to(&mut self, data: &[u8], addr: Address) -> Result<(), Error> {
        self.net.send(self.me, addr, data);
        Ok(())
    }
}

impl NetworkReceive for MRecv {
    async fn wait_available(&mut self) -> Result<(), Error> {
        core::future::poll_fn(|cx| {
            let mut i = self.net.0.borrow_mut();
            if i.queues.get(&self.me).map(|q| !q.is_empty()).unwrap_or(false) {
                core::task::Poll::Ready(())
            } else {
                i.wakers.insert(self.me, Some(cx.waker().clone()));
                core::task::Poll::Pending
            }
        })
        .await;
        Ok(())
    }

    async fn recv_from(&mut self, buffer: &mut [u8]) -> Result<(usize, Address), Error> {
        self.wait_available().await?;
        let mut i = self.net.0.borrow_mut();
        let (bytes, src) = i.queues.get_mut(&self.me).unwrap().pop_front().unwrap();
        let n = bytes.len().min(buffer.len());
        buffer[..n].copy_from_slice(&bytes[..n]);
        Ok((n, e2e::node_addr(src)))
    }
}

// ------------------------------------------------------------------ wire format of unsecured messages

const OP_ACK: u8 = 0x10;
const OP_REQ: u8 = 0x20;
const OP_RESP: u8 = 0x21;
const OP_P1: u8 = 0x22;
const OP_P2: u8 = 0x23;
const OP_P3: u8 = 0x24;
const OP_STATUS: u8 = 0x40;

#[derive(Debug, Clone)]
struct Msg {
    ctr: u32,
    src_node: Option<u64>,
    dst_node: Option<u64>,
    flags: u8, // exchange flags: I=1 A=2 R=4
    opcode: u8,
    exch: u16,
    proto: u16,
    ack: Option<u32>,
    payload: Vec<u8>,
    /// offset of the payload in the datagram
    off: usize,
}

fn parse_msg(d: &[u8]) -> Option<Msg> {
    if d.len() < 8 {
        return None;
    }
    let mflags = d[0];
    let sess = u16::from_le_bytes([d[1], d[2]]);
    if sess != 0 {
        return None;
    }
    let ctr = u32::from_le_bytes([d[4], d[5], d[6], d[7]]);
    let mut p = 8;
    let mut src_node = None;
    let mut dst_node = None;
    if mflags & 0x04 != 0 {
        src_node = Some(u64::from_le_bytes(d.get(p..p + 8)?.try_into().ok()?));
        p += 8;
    }
    match mflags & 0x03 {
        1 => {
            dst_node = Some(u64::from_le_bytes(d.get(p..p + 8)?.try_into().ok()?));
            p += 8;
        }
        2 => p += 2,
        _ => {}
    }
    let flags = *d.get(p)?;
    let opcode = *d.get(p + 1)?;
    let exch = u16::from_le_bytes([*d.get(p + 2)?, *d.get(p + 3)?]);
    let proto = u16::from_le_bytes([*d.get(p + 4)?, *d.get(p + 5)?]);
    p += 6;
    if flags & 0x10 != 0 {
        p += 2;
    }
    let mut ack = None;
    if flags & 0x02 != 0 {
        ack = Some(u32::from_le_bytes(d.get(p..p + 4)?.try_into().ok()?));
        p += 4;
    }
    Some(Msg { ctr, src_node, dst_node, flags, opcode, exch, proto, ack, payload: d.get(p..)?.to_vec(), off: p })
}

fn build_msg(src_node: u64, ctr: u32, exch: u16, opcode: u8, ack: Option<u32>, reliable: bool, payload: &[u8]) -> Vec<u8> {
    let mut d = vec![0x04u8, 0, 0, 0];
    d.extend_from_slice(&ctr.to_le_bytes());
    d.extend_from_slice(&src_node.to_le_bytes());
    let mut fl = 0x01u8; // initiator
    if ack.is_some() {
        fl |= 0x02;
    }
    if reliable {
        fl |= 0x04;
    }
    d.push(fl);
    d.push(opcode);
    d.extend_from_slice(&exch.to_le_bytes());
    d.extend_from_slice(&0u16.to_le_bytes());
    if let Some(a) = ack {
        d.extend_from_slice(&a.to_le_bytes());
    }
    d.extend_from_slice(payload);
    d
}

// ---- TLV by hand (anonymous structure of context-tagged members)

#[derive(Debug, Clone, PartialEq)]
enum Tv {
    Bytes(Vec<u8>),
    U(u64),
    Bool(bool),
    Struct(Vec<(u8, Tv)>),
}

fn tlv_member(out: &mut Vec<u8>, tag: Option<u8>, v: &Tv) {
    let tc = if tag.is_some() { 0x20u8 } else { 0 };
    let push_tag = |out: &mut Vec<u8>| {
        if let Some(t) = tag {
            out.push(t)
        }
    };
    match v {
        Tv::Bytes(b) => {
            out.push(tc | 0x10);
            push_tag(out);
            out.push(b.len() as u8);
            out.extend_from_slice(b);
        }
        Tv::U(x) => {
            if *x < 0x100 {
                out.push(tc | 0x04);
                push_tag(out);
                out.push(*x as u8);
            } else if *x < 0x1_0000 {
                out.push(tc | 0x05);
                push_tag(out);
                out.extend_from_slice(&(*x as u16).to_le_bytes());
            } else {
                out.push(tc | 0x06);
                push_tag(out);
                out.extend_from_slice(&(*x as u32).to_le_bytes());
            }
        }
        Tv::Bool(b) => {
            out.push(tc | if *b { 0x09 } else { 0x08 });
            push_tag(out);
        }
        Tv::Struct(ms) => {
            out.push(tc | 0x15);
            push_tag(out);
            for (t, m) in ms {
                tlv_member(out, Some(*t), m);
            }
            out.push(0x18);
        }
    }
}

fn tlv_struct(ms: &[(u8, Tv)]) -> Vec<u8> {
    let mut out = Vec::new();
    tlv_member(&mut out, None, &Tv::Struct(ms.to_vec()));
    out
}

/// Parse an anonymous structure of context-tagged members (only the element kinds the PASE messages use).
fn tlv_parse(d: &[u8]) -> Option<Vec<(u8, Tv)>> {
    fn members(d: &[u8], p: &mut usize) -> Option<Vec<(u8, Tv)>> {
        let mut out = Vec::new();
        loop {
            let c = *d.get(*p)?;
            *p += 1;
            if c == 0x18 {
                return Some(out);
            }
            if c & 0xe0 != 0x20 {
                return None;
            }
            let tag = *d.get(*p)?;
            *p += 1;
            let v = match c & 0x1f {
                0x04 => {
                    let v = *d.get(*p)? as u64;
                    *p += 1;
                    Tv::U(v)
                }
                0x05 => {
                    let v = u16::from_le_bytes(d.get(*p..*p + 2)?.try_into().ok()?) as u64;
                    *p += 2;
                    Tv::U(v)
                }
                0x06 => {
                    let v = u32::from_le_bytes(d.get(*p..*p + 4)?.try_into().ok()?) as u64;
                    *p += 4;
                    Tv::U(v)
                }
                0x08 => Tv::Bool(false),
                0x09 => Tv::Bool(true),
                0x10 => {
                    let n = *d.get(*p)? as usize;
                    *p += 1;
                    let b = d.get(*p..*p + n)?.to_vec();
                    *p += n;
                    Tv::Bytes(b)
                }
                0x15 => Tv::Struct(members(d, p)?),
                _ => return None,
            };
            out.push((tag, v));
        }
    }
    if *d.first()? != 0x15 {
        return None;
    }
    let mut p = 1;
    members(d, &mut p)
}

fn tv_get<'a>(ms: &'a [(u8, Tv)], tag: u8) -> Option<&'a Tv> {
    ms.iter().find(|(t, _)| *t == tag).map(|(_, v)| v)
}

// ------------------------------------------------------------------ symbolic ids -> concrete values

fn passcode(id: u64) -> u32 {
    20202021 + (id as u32) * 7919
}

fn salt_bytes(id: u64, len: usize) -> Vec<u8> {
    (0..len).map(|i| (id as u8).wrapping_mul(31).wrapping_add(i as u8).wrapping_add(1)).collect()
}

// ------------------------------------------------------------------ the device

struct Device {
    matter: &'static Matter<'static>,
}

#[derive(Debug, Clone, PartialEq)]
struct Obs {
    window: String,
    marker: String,
    sessions: Vec<(u16, bool)>,
    failsafe: bool,
    advertised: bool,
}

impl Device {
    fn new() -> Self {
        let det = e2e::dev_det(Some(SAI_MS), Some(SAI_MS));
        let matter: &'static Matter<'static> = Box::leak(Box::new(e2e::new_matter(det, false)));
        Device { matter }
    }

    fn open(&self, kind: &str, pw: u64, saltid: u64, saltlen: usize, iters: u32, timeout: u16) -> &'static str {
        let crypto = test_only_crypto();
        let salt = salt_bytes(saltid, saltlen);
        let pwb = passcode(pw).to_le_bytes();
        let r = self.matter.with_state(|st| {
            let pase = st.verif_pase();
            if kind == "b" {
                pase.open_basic_comm_window(0x1234, &salt, Spake2pVerifierPasswordRef::new(&pwb), 3840, timeout, None, || {}, |_, _| {})
            } else {
                let mut v = Spake2pVerifierStr::new();
                if (16..=32).contains(&saltlen) {
                    Spake2P::verif_compute_verifier(&crypto, Spake2pVerifierPasswordRef::new(&pwb), iters, &salt, &mut v)?;
                }
                pase.open_comm_window(0x1234, Spake2pVerifierStrRef::new(v.access()), &salt, iters, 3840, timeout, None, || {}, |_, _| {})
            }
        });
        match r {
            Ok(()) => "ok",
            Err(e) => match e.code() {
                ErrorCode::Busy => "busy",
                ErrorCode::InvalidCommand => "invcmd",
                ErrorCode::ConstraintError => "constraint",
                _ => "err",
            },
        }
    }

    fn close(&self) -> &'static str {
        match self.matter.close_comm_window(&()) {
            Ok(true) => "closed",
            Ok(false) => "-",
            Err(_) => "err",
        }
    }

    fn poll(&self) -> &'static str {
        match self.matter.with_state(|st| st.verif_pase().check_comm_window_timeout(|| {}, |_, _| {})) {
            Ok(true) => "closed",
            Ok(false) => "-",
            Err(_) => "err",
        }
    }

    fn age(&self, ms: u64) {
        self.matter.with_state(|st| st.verif_pase().verif_age(Duration::from_millis(ms)));
    }

    /// `owner` maps the peer session id of a completed PASE session / the wire exchange id of the marker to a label.
    fn observe(&self) -> Obs {
        let mut advertised = false;
        let _ = self.matter.mdns_services(|s| {
            if matches!(s, MatterLocalService::Commissionable { .. }) {
                advertised = true;
            }
            Ok(())
        });
        self.matter.with_state(|st| {
            let view = st.verif_pase().verif_view();
            let failsafe = st.verif_failsafe().is_armed();
            let snaps: Vec<_> = st.verif_sessions().iter().map(|s| s.verif_snapshot()).collect();
            let window = match &view.window {
                None => "n".to_string(),
                Some(w) => format!("o{}{}", w.pake_failures, if w.expired { "x" } else { "" }),
            };
            let marker = match view.marker {
                None => "n".to_string(),
                Some((sid, idx, expired)) => {
                    let e = snaps
                        .iter()
                        .find(|s| s.id == sid)
                        .and_then(|s| s.exchanges.iter().find(|x| x.index == idx))
                        .map(|x| x.exch_id);
                    match e {
                        Some(x) => format!("{}{}", x as i32 - 100, if expired { "x" } else { "" }),
                        None => format!("?{}", if expired { "x" } else { "" }),
                    }
                }
            };
            // committed PASE sessions: usable ones and the ones still reserved by their handler
            let mut sessions: Vec<(u16, bool)> = snaps
                .iter()
                .filter(|s| matches!(s.mode, SessionMode::Pase { .. }))
                .map(|s| (s.peer_sess_id, !s.reserved))
                .collect();
            sessions.sort();
            Obs { window, marker, sessions, failsafe, advertised }
        })
    }
}

fn fmt_obs(o: &Obs) -> String {
    format!(
        "{},{},[{}],{},{}",
        o.window,
        o.marker,
        o.sessions.iter().map(|(s, live)| format!("{}{}", s, if *live { "" } else { "r" })).collect::<Vec<_>>().join("+"),
        o.failsafe as u8,
        o.advertised as u8
    )
}

// ------------------------------------------------------------------ the scripted initiator

struct Hs {
    node: u64,
    exch: u16,
    ssid: u16,
    ctr: u32,
    last_rx: Option<u32>,
    seen: Vec<u32>,
    /// request bytes as hashed by the initiator, response bytes as received
    req_hashed: Vec<u8>,
    resp: Vec<u8>,
    salt: Vec<u8>,
    iters: u32,
    spake: Spake2P,
    pa_own: Vec<u8>,
    pb: Vec<u8>,
    cb: Vec<u8>,
    ca: Vec<u8>,
}

fn label_exch(e: u64) -> u16 {
    100 + e as u16
}
fn label_ssid(e: u64) -> u16 {
    2000 + e as u16
}

struct Script<'a> {
    net: &'a MNet,
    dev: &'a Device,
    hs: BTreeMap<u64, Hs>,
    /// cA of the latest handshake that was accepted (for replay)
    last_good_ca: Vec<u8>,
}

impl<'a> Script<'a> {
    fn hs(&mut self, e: u64) -> &mut Hs {
        self.hs.entry(e).or_insert_with(|| Hs {
            node: 0xA000 + e,
            exch: label_exch(e),
            ssid: label_ssid(e),
            ctr: 1000 * (e as u32 + 1),
            last_rx: None,
            seen: Vec::new(),
            req_hashed: Vec::new(),
            resp: Vec::new(),
            salt: Vec::new(),
            iters: 0,
            spake: Spake2P::new(),
            pa_own: Vec::new(),
            pb: Vec::new(),
            cb: Vec::new(),
            ca: Vec::new(),
        })
    }

    fn send(&mut self, e: u64, opcode: u8, reliable: bool, payload: &[u8]) {
        let h = self.hs(e);
        h.ctr += 1;
        let d = build_msg(h.node, h.ctr, h.exch, opcode, h.last_rx, reliable, payload);
        self.net.inject(A, B, &d);
    }

    /// Let the device run until it has answered on handshake `e` or is quiescent.
    async fn settle(&mut self, e: u64) -> Option<Msg> {
        let (node, exch) = {
            let h = self.hs(e);
            (h.node, h.exch)
        };
        let mut reply = None;
        let mut quiet = 0;
        for round in 0..400 {
            if round < 60 {
                futures_lite::future::yield_now().await;
            } else {
                Timer::after(Duration::from_micros(250)).await;
            }
            let mut got = false;
            while let Some(d) = self.net.try_recv(A) {
                got = true;
                if let Some(m) = parse_msg(&d) {
                    // route by destination node id (each handshake label has its own)
                    let owner = self.hs.iter().find(|(_, h)| Some(h.node) == m.dst_node && h.exch == m.exch).map(|(k, _)| *k);
                    if let Some(k) = owner {
                        let h = self.hs.get_mut(&k).unwrap();
                        if h.seen.contains(&m.ctr) {
                            continue; // retransmission
                        }
                        h.seen.push(m.ctr);
                        if m.flags & 0x04 != 0 {
                            h.last_rx = Some(m.ctr);
                        }
                        if k == e && m.opcode != OP_ACK && m.node_match(node, exch) {
                            reply = Some(m);
                        }
                    }
                }
            }
            if got {
                quiet = 0;
            } else {
                quiet += 1;
            }
            // a reply and a few more rounds (the device finishes the step), or a long silence
            if (reply.is_some() && quiet >= 12) || quiet >= 90 {
                break;
            }
        }
        reply
    }
}

impl Msg {
    fn node_match(&self, node: u64, exch: u16) -> bool {
        self.dst_node == Some(node) && self.exch == exch
    }
}

fn status_class(m: &Msg) -> String {
    if m.payload.len() < 8 {
        return "status?".into();
    }
    let general = u16::from_le_bytes([m.payload[0], m.payload[1]]);
    let code = u16::from_le_bytes([m.payload[6], m.payload[7]]);
    match (general, code) {
        (0, 0) => "success".into(),
        (1, 2) => "invparam".into(),
        (8, 4) => "busy".into(),
        (1, 5) => "notfound".into(),
        (g, c) => format!("status{}:{}", g, c),
    }
}

fn reply_class(m: &Option<Msg>) -> String {
    match m {
        None => "none".into(),
        Some(m) => match m.opcode {
            OP_RESP => {
                let has_params = tlv_parse(&m.payload).map(|ms| tv_get(&ms, 4).is_some()).unwrap_or(false);
                if has_params { "resp".into() } else { "respnp".into() }
            }
            OP_P2 => "pake2".into(),
            OP_STATUS => status_class(m),
            o => format!("op{:x}", o),
        },
    }
}

fn flip_bit(v: &mut [u8], bit: usize) {
    let n = v.len() * 8;
    if n > 0 {
        let b = bit % n;
        v[b / 8] ^= 1 << (b % 8);
    }
}

/// An off-range x coordinate: the field prime p of P-256 itself.
const P256_P: [u8; 32] = [
    0xff, 0xff, 0xff, 0xff, 0x00, 0x00, 0x00, 0x01, 0x00, 0x00, 0x00, 0x00, 0x00, 0x00, 0x00, 0x00, 0x00, 0x00, 0x00, 0x00, 0xff, 0xff,
    0xff, 0xff, 0xff, 0xff, 0xff, 0xff, 0xff, 0xff, 0xff, 0xff,
];

fn point_variant(own: &[u8], other: &[u8], pt: &str) -> Vec<u8> {
    let mut v = own.to_vec();
    match pt {
        "own" => {}
        "other" => v = other.to_vec(),
        "ident0" => v = vec![0u8; 65],
        "ident4" => {
            v = vec![0u8; 65];
            v[0] = 4;
        }
        "offc" => {
            let n = v.len();
            v[n - 1] ^= 1;
        }
        "offx" => v[7] ^= 0x10,
        "xrange" => v[1..33].copy_from_slice(&P256_P),
        "fmt" => v[0] = 2,
        "short" => {
            v.pop();
        }
        "long" => v.push(0),
        "empty" => v.clear(),
        _ => {}
    }
    v
}

impl<'a> Script<'a> {
    async fn op(&mut self, op: &str) -> String {
        let crypto = test_only_crypto();
        let f: Vec<&str> = op.split(':').collect();
        let num = |i: usize| -> u64 { f.get(i).and_then(|x| x.parse().ok()).unwrap_or(0) };
        match f[0] {
            "open" => self.dev.open(f[1], num(2), num(3), num(4) as usize, num(5) as u32, num(6) as u16).to_string(),
            "close" => self.dev.close().to_string(),
            "poll" => self.dev.poll().to_string(),
            "adv" => {
                self.dev.age(num(1));
                "none".to_string()
            }
            "req" => {
                let e = num(1);
                let variant = f.get(2).copied().unwrap_or("ok");
                let hview = f.get(3).copied().unwrap_or("s");
                // a new request on a label restarts the initiator's side of it
                if let Some(old) = self.hs.remove(&e) {
                    let h = self.hs(e);
                    h.ctr = old.ctr + 50;
                    h.seen = old.seen;
                    h.last_rx = old.last_rx;
                }
                let ssid = self.hs(e).ssid as u64;
                let random: Vec<u8> = (0..32).map(|i| (e as u8).wrapping_mul(17).wrapping_add(i)).collect();
                let base = vec![(1u8, Tv::Bytes(random.clone())), (2, Tv::U(ssid)), (3, Tv::U(0)), (4, Tv::Bool(false))];
                let mut ms = base.clone();
                let mut bytes: Option<Vec<u8>> = None;
                match variant {
                    "ok" => {}
                    "pid1" => ms[2].1 = Tv::U(1),
                    "hasp" => ms[3].1 = Tv::Bool(true),
                    "norand" => {
                        ms.remove(0);
                    }
                    "nossid" => {
                        ms.remove(1);
                    }
                    "nopid" => {
                        ms.remove(2);
                    }
                    "nohasp" => {
                        ms.remove(3);
                    }
                    "rand16" => ms[0].1 = Tv::Bytes(random[..16].to_vec()),
                    "rand33" => {
                        let mut r = random.clone();
                        r.push(9);
                        ms[0].1 = Tv::Bytes(r)
                    }
                    "sp" => ms.push((5, Tv::Struct(vec![(1, Tv::U(500)), (2, Tv::U(300)), (3, Tv::U(4000))]))),
                    "duprand" => ms.insert(1, (1, Tv::Bytes(vec![7u8; 32]))),
                    "extra" => ms.push((9, Tv::U(5))),
                    "empty" => bytes = Some(Vec::new()),
                    "junk" => bytes = Some(vec![0xff, 0x00, 0x13, 0x37]),
                    "noend" => {
                        let mut b = tlv_struct(&ms);
                        b.pop();
                        bytes = Some(b);
                    }
                    v if v.starts_with("trunc") => {
                        let n: usize = v[5..].parse().unwrap_or(1);
                        let b = tlv_struct(&ms);
                        bytes = Some(b[..n.min(b.len())].to_vec());
                    }
                    v if v.starts_with("flip") => {
                        let n: usize = v[4..].parse().unwrap_or(0);
                        let mut b = tlv_struct(&ms);
                        flip_bit(&mut b, n);
                        bytes = Some(b);
                    }
                    _ => {}
                }
                let sent = bytes.unwrap_or_else(|| tlv_struct(&ms));
                let hashed = if hview == "a" {
                    // the initiator built (and hashed) the unmodified request: somebody changed it on the way
                    let mut b = base.clone();
                    b[0].1 = Tv::Bytes(vec![0x5a; 32]);
                    tlv_struct(&b)
                } else {
                    sent.clone()
                };
                self.hs(e).req_hashed = hashed;
                self.send(e, OP_REQ, true, &sent);
                let m = self.settle(e).await;
                if let Some(m) = &m {
                    if m.opcode == OP_RESP {
                        let h = self.hs(e);
                        h.resp = m.payload.clone();
                        if let Some(ms) = tlv_parse(&m.payload) {
                            if let Some(Tv::Struct(p)) = tv_get(&ms, 4) {
                                if let Some(Tv::U(i)) = tv_get(p, 1) {
                                    h.iters = *i as u32;
                                }
                                if let Some(Tv::Bytes(s)) = tv_get(p, 2) {
                                    h.salt = s.clone();
                                }
                            }
                        }
                    }
                }
                reply_class(&m)
            }
            "p1" => {
                let e = num(1);
                let pw = num(2);
                let pt = f.get(3).copied().unwrap_or("own");
                let rview = f.get(4).copied().unwrap_or("s");
                // the initiator's view of the PBKDFParamResponse
                let (req_hashed, mut resp, mut salt, mut iters, ssid) = {
                    let h = self.hs(e);
                    (h.req_hashed.clone(), h.resp.clone(), h.salt.clone(), h.iters, h.ssid)
                };
                if salt.is_empty() {
                    // no response was seen (the device did not answer): any parameters will do
                    salt = vec![1u8; 16];
                    iters = 1000;
                }
                match rview {
                    "salt" => salt[0] ^= 1,
                    "iter" => iters += 1,
                    "hash" => {
                        if !resp.is_empty() {
                            let n = resp.len();
                            resp[n / 2] ^= 0x40;
                        }
                    }
                    _ => {}
                }
                let pwb = passcode(pw).to_le_bytes();
                let mut pa = EC_POINT_ZEROED;
                let mut other = EC_POINT_ZEROED;
                {
                    let mut sp2 = Spake2P::new();
                    let _ = sp2.setup_prover(&crypto, Spake2pVerifierPasswordRef::new(&pwb), &salt, iters, &mut other);
                }
                let h = self.hs(e);
                h.spake = Spake2P::new();
                set_context(&mut h.spake, &crypto, ssid, &req_hashed, &resp);
                let pctx = h.spake.setup_prover(&crypto, Spake2pVerifierPasswordRef::new(&pwb), &salt, iters, &mut pa).unwrap();
                h.pa_own = pa.access().to_vec();
                let payload = match pt {
                    "notlv" => vec![0x15, 0x30],
                    "nofield" => tlv_struct(&[]),
                    "wrongtag" => tlv_struct(&[(2, Tv::Bytes(pa.access().to_vec()))]),
                    _ => tlv_struct(&[(1, Tv::Bytes(point_variant(pa.access(), other.access(), pt)))]),
                };
                let opcode = if pt == "wrongop" { OP_P3 } else { OP_P1 };
                self.send(e, opcode, true, &payload);
                let m = self.settle(e).await;
                if let Some(m) = &m {
                    if m.opcode == OP_P2 {
                        if let Some(ms) = tlv_parse(&m.payload) {
                            let h = self.hs(e);
                            if let (Some(Tv::Bytes(pb)), Some(Tv::Bytes(cb))) = (tv_get(&ms, 1), tv_get(&ms, 2)) {
                                h.pb = pb.clone();
                                h.cb = cb.clone();
                            }
                        }
                    }
                }
                // keep the prover context for the confirmation
                let h = self.hs(e);
                h.ca.clear();
                PROVER.with(|p| p.borrow_mut().insert(e, pctx));
                reply_class(&m)
            }
            "p3" => {
                let e = num(1);
                let cav = f.get(2).copied().unwrap_or("own");
                let bview = f.get(3).copied().unwrap_or("s");
                let last_good = self.last_good_ca.clone();
                let h = self.hs(e);
                let mut ca = vec![0x33u8; 32];
                if h.pb.len() == 65 && h.cb.len() == 32 && h.pa_own.len() == 65 {
                    let mut pb = h.pb.clone();
                    if bview == "a" {
                        // the initiator saw another (valid) point as pB
                        pb = h.pa_own.clone();
                    }
                    let pctx = PROVER.with(|p| p.borrow_mut().remove(&e));
                    if let Some(pctx) = pctx {
                        let mut out = HMAC_HASH_ZEROED;
                        let pa: CanonEcPointRef<'_> = h.pa_own.as_slice().try_into().unwrap();
                        let pbr: CanonEcPointRef<'_> = pb.as_slice().try_into().unwrap();
                        let cbr: HmacHashRef<'_> = h.cb.as_slice().try_into().unwrap();
                        // a failing cB check does not stop an attacker from sending its cA
                        let _ = h.spake.complete_prover(&crypto, &pctx, pa, pbr, cbr, &mut out);
                        ca = h.spake.verif_ca().access().to_vec();
                    }
                }
                h.ca = ca.clone();
                let mut v = ca.clone();
                let mut payload = None;
                match cav {
                    "own" => {}
                    "zero" => v = vec![0u8; 32],
                    "short" => {
                        v.pop();
                    }
                    "long" => v.push(0),
                    "empty" => v.clear(),
                    "replay" => {
                        v = if last_good.is_empty() { vec![0x77; 32] } else { last_good };
                    }
                    "notlv" => payload = Some(vec![0x15, 0x30]),
                    "nofield" => payload = Some(tlv_struct(&[])),
                    "wrongtag" => payload = Some(tlv_struct(&[(2, Tv::Bytes(ca.clone()))])),
                    c if c.starts_with("flip") => {
                        let n: usize = c[4..].parse().unwrap_or(0);
                        flip_bit(&mut v, n);
                    }
                    _ => {}
                }
                let payload = payload.unwrap_or_else(|| tlv_struct(&[(1, Tv::Bytes(v))]));
                let opcode = if cav == "wrongop" { OP_P1 } else { OP_P3 };
                self.send(e, opcode, true, &payload);
                let m = self.settle(e).await;
                let r = reply_class(&m);
                if r == "success" {
                    self.last_good_ca = ca;
                }
                r
            }
            "ack" => {
                let e = num(1);
                self.send(e, OP_ACK, false, &[]);
                let m = self.settle(e).await;
                reply_class(&m)
            }
            "st" => {
                let e = num(1);
                // StatusReport(FAILURE, secure channel, INVALID_PARAMETER)
                let p = [1u8, 0, 0, 0, 0, 0, 2, 0];
                self.send(e, OP_STATUS, false, &p);
                let m = self.settle(e).await;
                reply_class(&m)
            }
            "abort" => {
                // say nothing until the device has given up retransmitting (or for at most 6 s)
                let e = num(1);
                let before = self.dev.observe();
                let mut waited = 0;
                while waited < 6000 {
                    Timer::after(Duration::from_millis(20)).await;
                    waited += 20;
                    while self.net.try_recv(A).is_some() {}
                    let now = self.dev.observe();
                    if now != before {
                        break;
                    }
                }
                let _ = e;
                "none".to_string()
            }
            _ => "?".to_string(),
        }
    }
}

fn set_context<C: Crypto>(sp: &mut Spake2P, crypto: &C, ssid: u16, req: &[u8], resp: &[u8]) {
    let ctx = sp.start_context(crypto, ssid, 0, req).unwrap();
    sp.finish_context::<&C>(ctx, resp).unwrap();
}

thread_local! {
    static PROVER: RefCell<BTreeMap<u64, rs_matter::sc::pase::verif_spake2p::ProverContext>> = RefCell::new(BTreeMap::new());
}

fn run_s(ops: &str) -> String {
    let dev = Device::new();
    let net = MNet::new(None);
    let crypto = test_only_crypto();
    let (b_tx, b_rx) = net.attach(B);
    let _a = net.attach(A);
    let sc = SecureChannel::new(&crypto, &());
    let responder = Responder::new("b-sc", sc, dev.matter, 0);
    PROVER.with(|p| p.borrow_mut().clear());
    let out = RefCell::new(String::new());
    e2e::block_on(async {
        let nodes = select(dev.matter.run(&crypto, b_tx, b_rx, NoNetwork), responder.run::<4>()).coalesce();
        let flow = async {
            let mut script = Script { net: &net, dev: &dev, hs: BTreeMap::new(), last_good_ca: Vec::new() };
            for op in ops.split(';').filter(|x| !x.is_empty()) {
                let r = script.op(op).await;
                let o = dev.observe();
                write!(out.borrow_mut(), "{}/{} ", r, fmt_obs(&o)).unwrap();
            }
        };
        match select3(core::pin::pin!(nodes), core::pin::pin!(flow), core::pin::pin!(Timer::after(Duration::from_secs(60)))).await {
            embassy_futures::select::Either3::First(r) => write!(out.borrow_mut(), "transport-exit:{:?}", r.map_err(|e| e.code())).unwrap(),
            embassy_futures::select::Either3::Second(_) => {}
            embassy_futures::select::Either3::Third(_) => out.borrow_mut().push_str("hang"),
        }
    });
    let s = out.borrow().trim_end().to_string();
    s
}

fn run_line(line: &str, out: &mut String) {
    let f: Vec<&str> = line.splitn(3, ' ').collect();
    match f[0] {
        "S" => writeln!(out, "S {} {}", f[1], run_s(f.get(2).copied().unwrap_or(""))).unwrap(),
        _ => {}
    }
}

fn main() {
    let args: Vec<String> = std::env::args().collect();
    match args.get(1).map(|s| s.as_str()) {
        Some("run") => {
            rsm_harness::silence_panics();
            let text = std::fs::read_to_string(&args[2]).unwrap();
            let mut out = String::new();
            for line in text.lines() {
                run_line(line, &mut out);
            }
            print!("{}", out);
        }
        _ => {
            eprintln!("usage: c02 gen <tier> <seed> <outdir> | c02 run <cases>");
            std::process::exit(2);
        }
    }
}
