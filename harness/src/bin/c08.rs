//! C08 correspondence harness: commissioning under the fail-safe is all-or-nothing.
//!
//! usage: c08 gen <quick|thorough> <seed> <outdir>   -> cases.txt (+ stats.json)
//!        c08 run <cases-file>                        -> one canonical line per case from the REAL code
//!
//! A case drives a real device (`Matter` + `InteractionModel` + the root-endpoint cluster
//! handlers of a Wi-Fi node) with real Interaction Model invokes / writes sent by a second
//! `Matter` over an in-memory datagram network. Sessions are installed without handshake:
//! `p` = PASE session, `1`,`2`,`3` = CASE sessions on fabric index 1, 2, 3 (peer node = the
//! administrator of every fabric). The key-value store is `e2e::MemKv` behind a wrapper that
//! fails chosen stores; a restart builds a new device from the store contents (or from a
//! prefix of the operation log = power loss inside a command).
//!
//! Case line:   S <id> <w><n><f><p> <op>,<op>,...
//!     w = commissioning window open (0/1); n = stored networks (0 none, 1 = [7] managed);
//!     f = number of commissioned fabrics (1/2); p = PASE session present (0/1)
//! ops (s = session: p,1,2,3):
//!     A<s>:<t>:<bc>    ArmFailSafe(expiry t, breadcrumb bc)      (t = 0: forced expiry)
//!     C<s>:<u>         CSRRequest(isForUpdateNOC = u)
//!     R<s>:<r>         AddTrustedRootCertificate(root r = 0,1,2)
//!     N<s>:<nid>       AddNOC(node id nid; chain of the last accepted root, key of the last CSR)
//!     U<s>:<nid>       UpdateNOC(node id nid; chain of the session fabric's root, key of the last CSR)
//!     L<s>:<k>:<f>     write ACL := [admin, view(subject k)]; f = 1: the store (if any) fails
//!     B<s>:<k>:<f>     UpdateFabricLabel("lab<k>", "" for k = 0); f as above
//!     I<s>:<v>:<f>     SetVIDVerificationStatement(vendorID = 0xFFF0 + v); f as above
//!     W<s>:<k>:<bc>    AddOrUpdateWiFiNetwork(ssid k, breadcrumb bc or -)
//!     D<s>:<k>         RemoveNetwork(ssid k)
//!     K<s>:<f>         CommissioningComplete; f = 0 no fault, 1 / 2 = its first / second store fails
//!     Q<s>:<j>         CommissioningComplete cut by a power loss after its j-th store (then restart)
//!     V<s>             RevokeCommissioning (timed)
//!     T                fail-safe timer expiry       X   restart       P   new PASE session
//!     E<f>             new CASE session of the administrator on fabric f (replaces the old one)
//! Output line: S <id> <status>@<state>;<status>@<state>;...   (one per op; see `snapshot`)
//! Other case kinds: H <id> (capacity constants), F <id> (F3 probe, not compared with the model).
use core::num::NonZeroU8;
use std::cell::{Cell, RefCell};
use std::collections::BTreeMap;
use std::fmt::Write as _;
use std::io::Write as _;
use std::rc::Rc;

use embassy_futures::select::{select, select3, Either};

use rs_matter::cert::gen::VALID_FOREVER;
use rs_matter::cert::{CertRef, MAX_CERT_TLV_AND_ASN1_LEN};
use rs_matter::crypto::{
    test_only_crypto, CanonAeadKey, CanonPkcSecretKey, Crypto, SecretKey, SigningSecretKey,
};
use rs_matter::dm::clusters::net_comm::{Networks, NetworkType, NetworksAccess, WirelessCreds};
use rs_matter::dm::endpoints;
use rs_matter::dm::networks::wireless::{NoopWirelessNetCtl, WifiNetworks};
use rs_matter::dm::Node;
use rs_matter::error::{Error, ErrorCode};
use rs_matter::fabric::{Fabric, FabricPersist, Fabrics};
use rs_matter::im::client::ImClient;
use rs_matter::im::{CmdResp, IMStatusCode, InteractionModel, InteractionModelState};
use rs_matter::onboard::cac::RcacGenerator;
use rs_matter::onboard::noc::NocGenerator;
use rs_matter::persist::{KvBlobStore, NETWORKS_KEY};
use rs_matter::respond::Responder;
use rs_matter::tlv::{FromTLV, OctetStr, TLVElement, TLVTag, TLVWrite};
use rs_matter::transport::exchange::{Exchange, MatterBuffers};
use rs_matter::transport::network::NoNetwork;
use rs_matter::transport::session::{ReservedSession, SessionMode};
use rs_matter::utils::select::Coalesce;
use rs_matter::utils::storage::WriteBuf;
use rs_matter::{root_endpoint, Matter};

use rsm_harness::e2e::{self, KvOp, MemKv, Net};
use rsm_harness::Rng;

const DEV: u16 = 1;
const CTL: u16 = 2;
const ADMIN: u64 = 0x1111;
const DEV_NODE: u64 = 0x2222;
const VENDOR: u16 = 0xFFF1;
const MAX_NETS: usize = 3;
const IPK: [u8; 16] = [7; 16];

const CL_GENCOMM: u32 = 0x30;
const CL_NETCOMM: u32 = 0x31;
const CL_ADMCOMM: u32 = 0x3C;
const CL_NOC: u32 = 0x3E;
const CL_ACL: u32 = 0x1F;

type Nets = WifiNetworks<MAX_NETS>;
type DevState = InteractionModelState<Nets>;

// ------------------------------------------------------------------ KV wrapper with per-command faults

fn in_scope_key(key: u16) -> bool {
    (1..=255).contains(&key) || key == NETWORKS_KEY
}

/// `MemKv` plus a fault plan for the command in flight: `fail_at = Some(k)` makes the k-th
/// (0-based) store to a fabric / networks key fail (old value kept). Stores to other keys
/// (event epoch, ...) are passed through and never counted.
#[derive(Clone)]
struct FaultKv {
    inner: MemKv,
    fail_at: Rc<Cell<Option<usize>>>,
    seen: Rc<Cell<usize>>,
    failed: Rc<Cell<usize>>,
}

impl FaultKv {
    fn new(inner: MemKv) -> Self {
        FaultKv {
            inner,
            fail_at: Rc::new(Cell::new(None)),
            seen: Rc::new(Cell::new(0)),
            failed: Rc::new(Cell::new(0)),
        }
    }
    fn plan(&self, fail_at: Option<usize>) {
        self.fail_at.set(fail_at);
        self.seen.set(0);
    }
}

impl KvBlobStore for FaultKv {
    fn load<'a>(&mut self, key: u16, buf: &'a mut [u8]) -> Result<Option<&'a [u8]>, Error> {
        self.inner.load(key, buf)
    }
    fn store(&mut self, key: u16, data: &[u8], buf: &mut [u8]) -> Result<(), Error> {
        if in_scope_key(key) {
            let n = self.seen.get();
            self.seen.set(n + 1);
            if self.fail_at.get() == Some(n) {
                self.failed.set(self.failed.get() + 1);
                return Err(ErrorCode::StdIoError.into());
            }
        }
        self.inner.store(key, data, buf)
    }
    fn remove(&mut self, key: u16, buf: &mut [u8]) -> Result<(), Error> {
        self.inner.remove(key, buf)
    }
}

/// the in-scope part of the operation log
fn scoped_log(kv: &MemKv) -> Vec<KvOp> {
    kv.log()
        .into_iter()
        .filter(|op| match op {
            KvOp::Store(k, _) | KvOp::Remove(k) | KvOp::StoreFailed(k) => in_scope_key(*k),
        })
        .collect()
}

// ------------------------------------------------------------------ certificate material (once per process)

struct Root {
    privkey: CanonPkcSecretKey,
    cert: Vec<u8>,
}

struct Base {
    roots: Vec<Root>,
    /// persisted blobs of the commissioned fabrics 1 and 2 (roots 0 and 1)
    fab_blobs: Vec<Vec<u8>>,
    /// public keys of the operational keys of fabrics 1 and 2
    fab_pubkeys: Vec<Vec<u8>>,
    net_blob: Vec<u8>,
}

fn pubkey_of<C: Crypto>(crypto: &C, sk: &CanonPkcSecretKey) -> Vec<u8> {
    let mut pk = rs_matter::crypto::CanonPkcPublicKey::new();
    use rs_matter::crypto::PublicKey;
    crypto
        .secret_key(sk.reference())
        .unwrap()
        .pub_key()
        .unwrap()
        .write_canon(&mut pk)
        .unwrap();
    pk.access().to_vec()
}

fn make_base() -> Base {
    let crypto = test_only_crypto();
    let mut roots = Vec::new();
    for r in 0..6u64 {
        let mut buf = vec![0u8; MAX_CERT_TLV_AND_ASN1_LEN];
        let mut g = RcacGenerator::new(&mut buf);
        let (privkey, cert) = g.generate(&crypto, 10 + r, VALID_FOREVER).unwrap();
        let cert = cert.to_vec();
        roots.push(Root { privkey, cert });
    }
    // fabrics 1 and 2, as a commissioned device would hold them
    let matter = e2e::new_matter(e2e::dev_det(None, None), false);
    let kv = MemKv::new();
    let mut fab_pubkeys = Vec::new();
    for r in 0..2usize {
        let sk = crypto.generate_secret_key().unwrap();
        let mut csr_buf = [0u8; 256];
        let csr = sk.csr(&mut csr_buf).unwrap();
        let mut sk_canon = CanonPkcSecretKey::new();
        sk.write_canon(&mut sk_canon).unwrap();
        let mut noc_buf = vec![0u8; MAX_CERT_TLV_AND_ASN1_LEN];
        let mut ng = NocGenerator::create(roots[r].privkey.reference(), &roots[r].cert, &[], &mut noc_buf).unwrap();
        let noc = ng.generate(&crypto, csr, DEV_NODE + r as u64, &[], VALID_FOREVER).unwrap().to_vec();
        let mut ipk = CanonAeadKey::new();
        ipk.access_mut().copy_from_slice(&IPK);
        let access = matter.kv(kv.clone());
        matter.with_state(|state| {
            let fabric = state
                .fabrics
                .add(&crypto, sk_canon.reference(), &roots[r].cert, &noc, &[], Some(ipk.reference()), VENDOR, ADMIN)
                .unwrap();
            let mut p = FabricPersist::new(&access);
            p.store(fabric).unwrap();
            p.run().unwrap();
        });
        fab_pubkeys.push(pubkey_of(&crypto, &sk_canon));
    }
    let blobs = kv.blobs();
    let fab_blobs = vec![blobs[&1].clone(), blobs[&2].clone()];
    // a committed network store: [ssid 7], managed
    let mut nets = Nets::new();
    Networks::add_or_update(&mut nets, &WirelessCreds::Wifi { ssid: &ssid(7), pass: b"password" }).map_err(|_| ()).unwrap();
    nets.set_managed(true);
    let mut nb = vec![0u8; 1024];
    let n = nets.store(&mut nb).unwrap();
    nb.truncate(n);
    Base { roots, fab_blobs, fab_pubkeys, net_blob: nb }
}

fn ssid(k: u64) -> Vec<u8> {
    format!("net{}", k).into_bytes()
}

fn ssid_num(id: &[u8]) -> String {
    let s = String::from_utf8_lossy(id);
    s.strip_prefix("net").unwrap_or(&s).to_string()
}

// ------------------------------------------------------------------ case description

#[derive(Clone, Copy, Debug, PartialEq, Eq)]
enum Sess {
    P,
    C(u8),
}

#[derive(Clone, Debug)]
enum Op {
    Arm(Sess, u16, u64),
    Csr(Sess, bool),
    Root(Sess, usize),
    AddNoc(Sess, u64),
    UpdNoc(Sess, u64),
    AclW(Sess, u64, bool),
    Label(Sess, u64, bool),
    Vid(Sess, u64, bool),
    NetAdd(Sess, u64, Option<u64>),
    NetDel(Sess, u64),
    Complete(Sess, u8),
    CompleteCrash(Sess, usize),
    Revoke(Sess),
    Timeout,
    Restart,
    NewPase,
    NewCase(u8),
}

fn parse_sess(c: char) -> Sess {
    match c {
        'p' => Sess::P,
        d => Sess::C(d.to_digit(10).unwrap() as u8),
    }
}

fn parse_op(t: &str) -> Op {
    let kind = t.chars().next().unwrap();
    match kind {
        'T' => return Op::Timeout,
        'X' => return Op::Restart,
        'P' => return Op::NewPase,
        'E' => return Op::NewCase(t.chars().nth(1).unwrap().to_digit(10).unwrap() as u8),
        _ => {}
    }
    let s = parse_sess(t.chars().nth(1).unwrap());
    let rest: Vec<&str> = if t.len() > 2 { t[3..].split(':').collect() } else { vec![] };
    let n = |i: usize| -> u64 { rest[i].parse().unwrap() };
    match kind {
        'A' => Op::Arm(s, n(0) as u16, n(1)),
        'C' => Op::Csr(s, n(0) == 1),
        'R' => Op::Root(s, n(0) as usize),
        'N' => Op::AddNoc(s, n(0)),
        'U' => Op::UpdNoc(s, n(0)),
        'L' => Op::AclW(s, n(0), n(1) == 1),
        'B' => Op::Label(s, n(0), n(1) == 1),
        'I' => Op::Vid(s, n(0), n(1) == 1),
        'W' => Op::NetAdd(s, n(0), if rest[1] == "-" { None } else { Some(n(1)) }),
        'D' => Op::NetDel(s, n(0)),
        'K' => Op::Complete(s, n(0) as u8),
        'Q' => Op::CompleteCrash(s, n(0) as usize),
        'V' => Op::Revoke(s),
        _ => panic!("bad op {}", t),
    }
}

struct Init {
    window: bool,
    nets: bool,
    nfab: usize,
    pase: bool,
}

fn parse_init(s: &str) -> Init {
    let b = s.as_bytes();
    Init { window: b[0] == b'1', nets: b[1] == b'1', nfab: (b[2] - b'0') as usize, pase: b[3] == b'1' }
}

// ------------------------------------------------------------------ controller-side memory across restarts

struct Ctl {
    /// DER CSRs returned by the device, in order (key id = index + 1)
    csrs: Vec<Vec<u8>>,
    csr_pubkeys: Vec<Vec<u8>>,
    /// the last root accepted by the device
    last_root: usize,
    pase_gen: u16,
}

// ------------------------------------------------------------------ one device incarnation

const NODE: Node<'static> = Node { endpoints: &[root_endpoint!(wifi)] };

fn sess_ids(s: Sess, pase_gen: u16) -> (u16, u16) {
    // (device local session id, controller local session id)
    match s {
        Sess::P => (20 + pase_gen, 120 + pase_gen),
        Sess::C(f) => (10 + f as u16, 110 + f as u16),
    }
}

fn remove_by_local_id(m: &Matter<'_>, local_id: u16) {
    m.with_state(|state| {
        let ids: Vec<u32> = state
            .verif_sessions()
            .iter()
            .filter(|s| s.get_local_sess_id() == local_id)
            .map(|s| s.id())
            .collect();
        for id in ids {
            state.verif_sessions().remove(id);
        }
    });
}

fn preset(m: &Matter<'_>, local_node: u64, peer_node: u64, local_id: u16, peer_id: u16, peer: u16, mode: SessionMode) {
    let crypto = test_only_crypto();
    let mut session = ReservedSession::reserve_now(m, &crypto).unwrap();
    session
        .update(local_node, peer_node, peer_id, local_id, e2e::node_addr(peer), mode, None, None, None, None)
        .unwrap();
    session.complete();
}

fn install(dev: &Matter<'_>, ctl: &Matter<'_>, s: Sess, pase_gen: u16) {
    let (d, c) = sess_ids(s, pase_gen);
    remove_by_local_id(dev, d);
    remove_by_local_id(ctl, c);
    let mode = || match s {
        Sess::P => SessionMode::Pase { fab_idx: 0 },
        Sess::C(f) => SessionMode::Case { fab_idx: NonZeroU8::new(f).unwrap(), cat_ids: Default::default() },
    };
    preset(dev, DEV_NODE, ADMIN, d, c, CTL, mode());
    preset(ctl, ADMIN, DEV_NODE, c, d, DEV, mode());
}

/// the device-side session of slot `s`: (exists and usable, mode)
fn dev_session(dev: &Matter<'_>, s: Sess, pase_gen: u16) -> Option<(bool, SessionMode)> {
    let (d, _) = sess_ids(s, pase_gen);
    dev.with_state(|state| {
        state
            .verif_sessions()
            .iter()
            .find(|x| x.get_local_sess_id() == d)
            .map(|x| {
                let snap = x.verif_snapshot();
                (!snap.expired, snap.mode)
            })
    })
}

fn ctl_session_id(ctl: &Matter<'_>, s: Sess, pase_gen: u16) -> Option<u32> {
    let (_, c) = sess_ids(s, pase_gen);
    ctl.with_state(|state| state.verif_sessions().iter().find(|x| x.get_local_sess_id() == c).map(|x| x.id()))
}

// ------------------------------------------------------------------ canonical state

fn root_index(base: &Base, root: &[u8]) -> String {
    match base.roots.iter().position(|r| r.cert == root) {
        Some(i) => i.to_string(),
        None => "?".to_string(),
    }
}

fn key_index(base: &Base, ctl: &Ctl, noc: &[u8]) -> String {
    let pk = match CertRef::new(TLVElement::new(noc)).pubkey() {
        Ok(p) => p.to_vec(),
        Err(_) => return "?".into(),
    };
    if let Some(i) = base.fab_pubkeys.iter().position(|k| *k == pk) {
        return (101 + i).to_string();
    }
    match ctl.csr_pubkeys.iter().position(|k| *k == pk) {
        Some(i) => (i + 1).to_string(),
        None => "?".into(),
    }
}

fn fabric_str(base: &Base, ctl: &Ctl, f: &Fabric) -> String {
    let acl: Vec<String> = f
        .acl_iter()
        .map(|e| {
            let subs = e.subjects();
            match subs.as_opt_ref() {
                Some(s) => s.iter().map(|x| x.to_string()).collect::<Vec<_>>().join("/"),
                None => "*".to_string(),
            }
        })
        .collect();
    let label = match f.label() {
        "" => "0".to_string(),
        l => l.strip_prefix("lab").unwrap_or(l).to_string(),
    };
    format!(
        "{}:{}:{}:{}:{}:{}:{}",
        f.fab_idx().get(),
        root_index(base, f.root_ca()),
        f.node_id(),
        key_index(base, ctl, f.noc()),
        acl.join("+"),
        label,
        f.vendor_id()
    )
}

fn fabrics_str(base: &Base, ctl: &Ctl, fabrics: &Fabrics) -> String {
    let mut v: Vec<(u8, String)> = fabrics.iter().map(|f| (f.fab_idx().get(), fabric_str(base, ctl, f))).collect();
    v.sort();
    v.into_iter().map(|x| x.1).collect::<Vec<_>>().join(" ")
}

fn nets_str(n: &Nets) -> String {
    let mut ids = Vec::new();
    n.networks(|w| {
        use rs_matter::dm::networks::wireless::WirelessNetwork;
        ids.push(ssid_num(w.id()));
        Ok(())
    })
    .unwrap();
    format!("{}:{}", n.managed() as u8, ids.join("+"))
}

fn kv_str(base: &Base, ctl: &Ctl, blobs: &BTreeMap<u16, Vec<u8>>) -> String {
    let mut fabrics = Fabrics::new();
    let mut buf = vec![0u8; 8192];
    let fs = match fabrics.load_persist(MemKv::from_blobs(blobs.clone()), &mut buf) {
        Ok(()) => fabrics_str(base, ctl, &fabrics),
        Err(_) => "undecodable".to_string(),
    };
    let ns = match blobs.get(&NETWORKS_KEY) {
        None => "-".to_string(),
        Some(b) => {
            let mut n = Nets::new();
            match n.load(b) {
                Ok(()) => nets_str(&n),
                Err(_) => "undecodable".to_string(),
            }
        }
    };
    format!("F[{}] N[{}]", fs, ns)
}

fn snapshot(base: &Base, ctl: &Ctl, dev: &Matter<'_>, st: &DevState, kv: &MemKv) -> String {
    let (fs, bc, win, fabs) = dev.with_state(|state| {
        let fsafe = state.verif_failsafe();
        let fs = match fsafe.verif_snapshot() {
            None => "idle".to_string(),
            Some((fab, flags, _t)) => format!("a{}/{}", fab, flags),
        };
        let bc = fsafe.breadcrumb();
        let win = state.verif_pase().comm_window().is_some() as u8;
        let fabs = fabrics_str(base, ctl, &state.fabrics);
        (fs, bc, win, fabs)
    });
    let pase = match dev_session(dev, Sess::P, ctl.pase_gen) {
        None => "-".to_string(),
        Some((live, SessionMode::Pase { fab_idx })) => format!("{}{}", if live { 'L' } else { 'E' }, fab_idx),
        Some(_) => "?".to_string(),
    };
    let nets = st.networks().access(|n| {
        let mut ids = Vec::new();
        n.networks(&mut |id| {
            ids.push(ssid_num(id));
            Ok(())
        })?;
        Ok::<_, Error>(format!("{}:{}", n.managed()? as u8, ids.join("+")))
    });
    let mut case = String::new();
    for f in 1..=3u8 {
        case.push(match dev_session(dev, Sess::C(f), 0) {
            None => '-',
            Some((true, _)) => 'L',
            Some((false, _)) => 'E',
        });
    }
    format!(
        "fs={} bc={} w={} p={} c={} F[{}] N[{}] | {}",
        fs,
        bc,
        win,
        pase,
        case,
        fabs,
        nets.unwrap_or_else(|_| "err".into()),
        kv_str(base, ctl, &kv.blobs())
    )
}

// ------------------------------------------------------------------ commands

fn im_class(code: IMStatusCode) -> String {
    match code {
        IMStatusCode::Success => "ok".into(),
        IMStatusCode::UnsupportedAccess => "access".into(),
        IMStatusCode::FailSafeRequired => "fsreq".into(),
        IMStatusCode::ConstraintError => "constraint".into(),
        IMStatusCode::InvalidCommand => "invcmd".into(),
        IMStatusCode::NotFound => "notfound".into(),
        IMStatusCode::Failure => "fail".into(),
        other => format!("im{}", other as u16),
    }
}

fn gencomm_class(code: u64) -> String {
    match code {
        0 => "ok".into(),
        2 => "auth".into(),
        3 => "fsreq".into(),
        4 => "busy".into(),
        n => format!("gc{}", n),
    }
}

fn noc_class(code: u64) -> String {
    match code {
        0 => "ok".into(),
        1 => "invpubkey".into(),
        3 => "invnoc".into(),
        4 => "missingcsr".into(),
        5 => "tablefull".into(),
        6 => "invadmin".into(),
        9 => "conflict".into(),
        10 => "labelconflict".into(),
        11 => "invfabidx".into(),
        n => format!("noc{}", n),
    }
}

fn net_class(code: u64) -> String {
    match code {
        0 => "ok".into(),
        1 => "outofrange".into(),
        2 => "bounds".into(),
        3 => "idnotfound".into(),
        n => format!("net{}", n),
    }
}

/// TLV elements written by `f`, as bytes (the fields of a command's request struct)
fn tlv(f: impl FnOnce(&mut WriteBuf<'_>) -> Result<(), Error>) -> Vec<u8> {
    let mut buf = vec![0u8; 2048];
    let n = {
        let mut wb = WriteBuf::new(&mut buf);
        f(&mut wb).unwrap();
        wb.get_tail()
    };
    buf.truncate(n);
    buf
}

enum Reply {
    /// response command data: value of field 0 (status enum) and, for CSR, the NOCSR elements
    Data(u64, Option<Vec<u8>>),
    Status(IMStatusCode),
    Err(String),
}

/// Send one invoke and decode the single answer.
async fn invoke(
    ctl: &Matter<'_>,
    sid: u32,
    cluster: u32,
    cmd: u32,
    timed: bool,
    payload: &[u8],
    want_octets: bool,
) -> Reply {
    let crypto = test_only_crypto();
    let exchange = match Exchange::initiate_for_session(ctl, &crypto, sid) {
        Ok(e) => e,
        Err(e) => return Reply::Err(format!("initiate:{:?}", e.code())),
    };
    let res = exchange
        .invoke_with(if timed { Some(5000) } else { None }, |b| {
            let b = if timed { b.timed_request(true)?.invoke_requests()? } else { b.invoke_requests()? };
            b.push()?
                .path(0, cluster, cmd)?
                .data(|w| {
                    w.start_struct(&TLVTag::Context(1))?;
                    w.write_raw_data(payload.iter().copied())?;
                    w.end_container()
                })?
                .end()?
                .end()?
                .end()
        })
        .await;
    let chunk = match res {
        Ok(c) => c,
        Err(e) => return Reply::Err(format!("{:?}", e.code())),
    };
    let reply = (|| -> Result<Reply, Error> {
        let resp = match chunk.response()? {
            Some(r) => r,
            None => return Ok(Reply::Status(IMStatusCode::Success)),
        };
        let arr = match resp.invoke_responses {
            Some(a) => a,
            None => return Ok(Reply::Err("empty".into())),
        };
        for r in arr.iter() {
            match r? {
                CmdResp::Cmd(data) => {
                    let s = data.data.structure()?;
                    if want_octets {
                        let o = OctetStr::from_tlv(&s.ctx(0)?)?;
                        return Ok(Reply::Data(0, Some(o.0.to_vec())));
                    }
                    let v = s.ctx(0)?.u64()?;
                    return Ok(Reply::Data(v, None));
                }
                CmdResp::Status(st) => return Ok(Reply::Status(st.status.status)),
            }
        }
        Ok(Reply::Err("empty".into()))
    })();
    let _ = chunk.complete().await;
    reply.unwrap_or_else(|e| Reply::Err(format!("decode:{:?}", e.code())))
}

async fn write_acl(ctl: &Matter<'_>, sid: u32, k: u64) -> String {
    let crypto = test_only_crypto();
    let exchange = match Exchange::initiate_for_session(ctl, &crypto, sid) {
        Ok(e) => e,
        Err(e) => return format!("initiate:{:?}", e.code()),
    };
    let entry = |w: &mut WriteBuf<'_>, privilege: u8, subject: u64| -> Result<(), Error> {
        w.start_struct(&TLVTag::Anonymous)?;
        w.u8(&TLVTag::Context(1), privilege)?;
        w.u8(&TLVTag::Context(2), 2)?; // CASE
        w.start_array(&TLVTag::Context(3))?;
        w.u64(&TLVTag::Anonymous, subject)?;
        w.end_container()?;
        w.null(&TLVTag::Context(4))?;
        w.end_container()
    };
    let entries = tlv(|w| {
        entry(w, 5, ADMIN)?;
        entry(w, 1, k)
    });
    let res = exchange
        .write_with(None, |b| {
            b.write_requests()?
                .push()?
                .path(0, CL_ACL, 0)?
                .data(|w| {
                    w.start_array(&TLVTag::Context(2))?;
                    w.write_raw_data(entries.iter().copied())?;
                    w.end_container()
                })?
                .end()?
                .end()?
                .end()
        })
        .await;
    match res {
        Err(e) => format!("{:?}", e.code()),
        Ok(handle) => {
            let r = (|| -> Result<String, Error> {
                let resp = handle.response()?;
                for st in resp.write_responses.iter() {
                    let st = st?;
                    return Ok(im_class(st.status.status));
                }
                Ok("empty".into())
            })();
            r.unwrap_or_else(|e| format!("decode:{:?}", e.code()))
        }
    }
}


enum Next {
    Done,
    /// boot again from these blobs, continuing with op index
    Boot(usize, BTreeMap<u16, Vec<u8>>),
}

fn session_fab(mode: &SessionMode) -> u8 {
    mode.fab_idx()
}

/// Run ops[start..] on one device incarnation booted from `blobs`.
#[allow(clippy::too_many_arguments)]
fn run_incarnation(
    base: &Base,
    cm: &mut Ctl,
    blobs: &BTreeMap<u16, Vec<u8>>,
    ops: &[Op],
    start: usize,
    first_boot: Option<&Init>,
    boot_no: u64,
    outs: &mut Vec<String>,
) -> Next {
    let det = e2e::dev_det(None, None);
    let kv = MemKv::from_blobs(blobs.clone());
    let fkv = FaultKv::new(kv.clone());
    let dev = e2e::new_matter(det, false);
    let ctl = e2e::new_matter(det, false);
    let buffers: MatterBuffers = MatterBuffers::new();
    let st = DevState::new(Nets::new());
    // every incarnation draws its keys from its own stream (the test-only generator would hand
    // out the same operational keys again after a restart and make key identities ambiguous)
    use rand::SeedableRng;
    let crypto = rs_matter::crypto::default_crypto(
        rand::rngs::StdRng::seed_from_u64(0xC08_0000 + boot_no),
        rs_matter::dm::devices::test::DAC_PRIVKEY,
    );
    let access = dev.kv(fkv.clone());
    dev.startup(&access).unwrap();
    let net_ctl = NoopWirelessNetCtl::new(NetworkType::Wifi);
    let handler = (NODE, endpoints::WifiSysHandlerBuilder::new(net_ctl, &()).build(crypto.rand().unwrap()));
    let dm = InteractionModel::new(&dev, &crypto, &buffers, handler, &access, &st);
    st.suppress_start_up_event();
    e2e::block_on(dm.startup()).unwrap();
    if let Some(init) = first_boot {
        if init.window {
            dm.open_basic_comm_window(900).unwrap();
        }
        if init.pase {
            install(&dev, &ctl, Sess::P, cm.pase_gen);
        }
    }
    for f in 1..=3u8 {
        install(&dev, &ctl, Sess::C(f), 0);
    }
    let net = Net::reliable();
    let (d_tx, d_rx) = net.attach(DEV);
    let (c_tx, c_rx) = net.attach(CTL);
    let responder = Responder::new_default(&dm);
    let cm = RefCell::new(cm);
    let outs = RefCell::new(outs);

    e2e::block_on(async {
        let device = select3(
            dev.run(&crypto, d_tx, d_rx, NoNetwork),
            responder.run::<4>(),
            ctl.run(&crypto, c_tx, c_rx, NoNetwork),
        )
        .coalesce();

        let flow = async {
            let mut i = start;
            if first_boot.is_none() {
                // the state right after the boot completes the observation of the restart step
                let snap = snapshot(base, &cm.borrow(), &dev, &st, &kv);
                if let Some(last) = outs.borrow_mut().last_mut() {
                    last.push_str(&snap);
                }
            }
            while i < ops.len() {
                let op = ops[i].clone();
                i += 1;
                kv.clear_log();
                fkv.plan(None);
                let before = kv.blobs();
                let pase_gen = cm.borrow().pase_gen;
                // the session a command travels on
                let sess = match &op {
                    Op::Arm(s, ..) | Op::Csr(s, ..) | Op::Root(s, ..) | Op::AddNoc(s, ..) | Op::UpdNoc(s, ..)
                    | Op::AclW(s, ..) | Op::Label(s, ..) | Op::Vid(s, ..) | Op::NetAdd(s, ..) | Op::NetDel(s, ..) | Op::Complete(s, ..)
                    | Op::CompleteCrash(s, ..) | Op::Revoke(s) => Some(*s),
                    _ => None,
                };
                let mut sid = 0u32;
                let mut mode = SessionMode::PlainText;
                let mut gone = false;
                if let Some(s) = sess {
                    match dev_session(&dev, s, pase_gen) {
                        Some((true, m)) => {
                            mode = m;
                            match ctl_session_id(&ctl, s, pase_gen) {
                                Some(id) => sid = id,
                                None => gone = true,
                            }
                        }
                        _ => gone = true,
                    }
                }
                let status: String = if gone {
                    "gone".into()
                } else {
                    match &op {
                        Op::Arm(_, t, bc) => {
                            let (t, bc) = (*t, *bc);
                            let r = invoke(&ctl, sid, CL_GENCOMM, 0, false, &tlv(|w| {
                                w.u16(&TLVTag::Context(0), t)?;
                                w.u64(&TLVTag::Context(1), bc)
                            }), false)
                            .await;
                            match r {
                                Reply::Data(c, _) => gencomm_class(c),
                                Reply::Status(s) => im_class(s),
                                Reply::Err(e) => format!("err:{}", e),
                            }
                        }
                        Op::Csr(_, upd) => {
                            let upd = *upd;
                            let nonce = [0x5au8; 32];
                            let r = invoke(&ctl, sid, CL_NOC, 4, false, &tlv(|w| {
                                w.str(&TLVTag::Context(0), &nonce)?;
                                w.bool(&TLVTag::Context(1), upd)
                            }), true)
                            .await;
                            match r {
                                Reply::Data(_, Some(nocsr)) => {
                                    let csr = (|| -> Result<Vec<u8>, Error> {
                                        let root = TLVElement::new(&nocsr).structure()?;
                                        Ok(OctetStr::from_tlv(&root.ctx(1)?)?.0.to_vec())
                                    })();
                                    match csr {
                                        Ok(csr) => {
                                            let pk = rs_matter::cert::x509::csr::CsrRef::new(&csr)
                                                .and_then(|c| c.pubkey().map(|p| p.access().to_vec()))
                                                .unwrap_or_default();
                                            let mut c = cm.borrow_mut();
                                            c.csrs.push(csr);
                                            c.csr_pubkeys.push(pk);
                                            "ok".into()
                                        }
                                        Err(_) => "badcsr".into(),
                                    }
                                }
                                Reply::Data(..) => "badcsr".into(),
                                Reply::Status(s) => im_class(s),
                                Reply::Err(e) => format!("err:{}", e),
                            }
                        }
                        Op::Root(_, r) => {
                            let r = *r;
                            let cert = &base.roots[r].cert;
                            let rep = invoke(&ctl, sid, CL_NOC, 11, false, &tlv(|w| w.str(&TLVTag::Context(0), cert)), false).await;
                            match rep {
                                Reply::Status(IMStatusCode::Success) => {
                                    cm.borrow_mut().last_root = r;
                                    "ok".into()
                                }
                                Reply::Status(s) => im_class(s),
                                Reply::Data(..) => "data?".into(),
                                Reply::Err(e) => format!("err:{}", e),
                            }
                        }
                        Op::AddNoc(_, nid) | Op::UpdNoc(_, nid) => {
                            let nid = *nid;
                            let is_add = matches!(op, Op::AddNoc(..));
                            // which CA signs: AddNOC = the last accepted root; UpdateNOC = the root of the session's fabric
                            let r = if is_add {
                                cm.borrow().last_root
                            } else {
                                let fab = session_fab(&mode);
                                dev.with_state(|state| {
                                    NonZeroU8::new(fab)
                                        .and_then(|f| state.fabrics.get(f))
                                        .and_then(|f| base.roots.iter().position(|r| r.cert == f.root_ca()))
                                })
                                .unwrap_or(0)
                            };
                            // key: the last CSR the device answered (a controller-made one if there is none)
                            let csr: Vec<u8> = match cm.borrow().csrs.last() {
                                Some(c) => c.clone(),
                                None => {
                                    let sk = crypto.generate_secret_key().unwrap();
                                    let mut b = [0u8; 256];
                                    sk.csr(&mut b).unwrap().to_vec()
                                }
                            };
                            let mut noc_buf = vec![0u8; MAX_CERT_TLV_AND_ASN1_LEN];
                            let mut ng = NocGenerator::create(base.roots[r].privkey.reference(), &base.roots[r].cert, &[], &mut noc_buf).unwrap();
                            let noc = ng.generate(&crypto, &csr, nid, &[], VALID_FOREVER).unwrap().to_vec();
                            let rep = if is_add {
                                invoke(&ctl, sid, CL_NOC, 6, false, &tlv(|w| {
                                    w.str(&TLVTag::Context(0), &noc)?;
                                    w.str(&TLVTag::Context(2), &IPK)?;
                                    w.u64(&TLVTag::Context(3), ADMIN)?;
                                    w.u16(&TLVTag::Context(4), VENDOR)
                                }), false)
                                .await
                            } else {
                                invoke(&ctl, sid, CL_NOC, 7, false, &tlv(|w| w.str(&TLVTag::Context(0), &noc)), false).await
                            };
                            match rep {
                                Reply::Data(c, _) => noc_class(c),
                                Reply::Status(s) => im_class(s),
                                Reply::Err(e) => format!("err:{}", e),
                            }
                        }
                        Op::AclW(_, k, fail) => {
                            fkv.plan(if *fail { Some(0) } else { None });
                            write_acl(&ctl, sid, *k).await
                        }
                        Op::Label(_, k, fail) => {
                            fkv.plan(if *fail { Some(0) } else { None });
                            let label = if *k == 0 { String::new() } else { format!("lab{}", k) };
                            let rep = invoke(&ctl, sid, CL_NOC, 9, false, &tlv(|w| w.utf8(&TLVTag::Context(0), &label)), false).await;
                            match rep {
                                Reply::Data(c, _) => noc_class(c),
                                Reply::Status(s) => im_class(s),
                                Reply::Err(e) => format!("err:{}", e),
                            }
                        }
                        Op::Vid(_, v, fail) => {
                            fkv.plan(if *fail { Some(0) } else { None });
                            let vid = 0xFFF0u16 + *v as u16;
                            let rep = invoke(&ctl, sid, CL_NOC, 12, false, &tlv(|w| w.u16(&TLVTag::Context(0), vid)), false).await;
                            match rep {
                                Reply::Data(..) => "data?".into(),
                                Reply::Status(s) => im_class(s),
                                Reply::Err(e) => format!("err:{}", e),
                            }
                        }
                        Op::NetAdd(_, k, bc) => {
                            let (id, bc) = (ssid(*k), *bc);
                            let rep = invoke(&ctl, sid, CL_NETCOMM, 2, false, &tlv(|w| {
                                w.str(&TLVTag::Context(0), &id)?;
                                w.str(&TLVTag::Context(1), b"password")?;
                                if let Some(bc) = bc {
                                    w.u64(&TLVTag::Context(2), bc)?;
                                }
                                Ok(())
                            }), false)
                            .await;
                            match rep {
                                Reply::Data(c, _) => net_class(c),
                                Reply::Status(s) => im_class(s),
                                Reply::Err(e) => format!("err:{}", e),
                            }
                        }
                        Op::NetDel(_, k) => {
                            let id = ssid(*k);
                            let rep = invoke(&ctl, sid, CL_NETCOMM, 4, false, &tlv(|w| w.str(&TLVTag::Context(0), &id)), false).await;
                            match rep {
                                Reply::Data(c, _) => net_class(c),
                                Reply::Status(s) => im_class(s),
                                Reply::Err(e) => format!("err:{}", e),
                            }
                        }
                        Op::Complete(_, f) => {
                            fkv.plan(match f {
                                1 => Some(0),
                                2 => Some(1),
                                _ => None,
                            });
                            let rep = invoke(&ctl, sid, CL_GENCOMM, 4, false, &[], false).await;
                            match rep {
                                Reply::Data(c, _) => gencomm_class(c),
                                Reply::Status(s) => im_class(s),
                                Reply::Err(e) => format!("err:{}", e),
                            }
                        }
                        Op::CompleteCrash(..) => {
                            let rep = invoke(&ctl, sid, CL_GENCOMM, 4, false, &[], false).await;
                            match rep {
                                Reply::Data(c, _) => gencomm_class(c),
                                Reply::Status(s) => im_class(s),
                                Reply::Err(e) => format!("err:{}", e),
                            }
                        }
                        Op::Revoke(_) => {
                            let rep = invoke(&ctl, sid, CL_ADMCOMM, 2, true, &[], false).await;
                            match rep {
                                Reply::Data(..) => "data?".into(),
                                Reply::Status(s) => im_class(s),
                                Reply::Err(e) => format!("err:{}", e),
                            }
                        }
                        _ => String::new(),
                    }
                };
                let status = match &op {
                    Op::Timeout => {
                        dev.with_state(|state| state.verif_failsafe().verif_make_due());
                        match dm.verif_check_timeouts() {
                            Ok(()) => "ok".to_string(),
                            Err(e) => format!("err:{:?}", e.code()),
                        }
                    }
                    Op::NewPase => {
                        let mut c = cm.borrow_mut();
                        // drop whatever is left of the previous PASE session, then a fresh one
                        let (d, cc) = sess_ids(Sess::P, c.pase_gen);
                        remove_by_local_id(&dev, d);
                        remove_by_local_id(&ctl, cc);
                        c.pase_gen += 1;
                        install(&dev, &ctl, Sess::P, c.pase_gen);
                        "ok".to_string()
                    }
                    Op::NewCase(f) => {
                        install(&dev, &ctl, Sess::C(*f), 0);
                        "ok".to_string()
                    }
                    Op::Restart => {
                        outs.borrow_mut().push("ok@".to_string());
                        return Next::Boot(i, kv.blobs());
                    }
                    Op::CompleteCrash(_, j) if !gone => {
                        // power loss after the j-th store of this command: the answer (if any) is lost
                        let log = scoped_log(&kv);
                        let j = (*j).min(log.len());
                        let after = MemKv::replay_prefix(&before, &log, j);
                        outs.borrow_mut().push(format!("cut{}@", j));
                        return Next::Boot(i, after);
                    }
                    Op::CompleteCrash(..) => {
                        outs.borrow_mut().push("gone@".to_string());
                        return Next::Boot(i, kv.blobs());
                    }
                    _ => status,
                };
                let snap = snapshot(base, &cm.borrow(), &dev, &st, &kv);
                outs.borrow_mut().push(format!("{}@{}", status, snap));
            }
            Next::Done
        };

        match select(core::pin::pin!(device), core::pin::pin!(e2e::with_timeout(20_000, flow))).await {
            Either::First(r) => {
                outs.borrow_mut().push(format!("transport-exit:{:?}", r.map_err(|e| e.code())));
                Next::Done
            }
            Either::Second(Some(n)) => n,
            Either::Second(None) => {
                outs.borrow_mut().push("hang".to_string());
                Next::Done
            }
        }
    })
}

fn initial_blobs(base: &Base, init: &Init) -> BTreeMap<u16, Vec<u8>> {
    let mut m = BTreeMap::new();
    for i in 0..init.nfab.min(2) {
        m.insert(1 + i as u16, base.fab_blobs[i].clone());
    }
    if init.nets {
        m.insert(NETWORKS_KEY, base.net_blob.clone());
    }
    m
}

fn run_s(base: &Base, f: &[&str]) -> String {
    let init = parse_init(f[2]);
    let ops: Vec<Op> = f.get(3).map(|s| s.split(',').filter(|x| !x.is_empty()).map(parse_op).collect()).unwrap_or_default();
    let mut cm = Ctl { csrs: vec![], csr_pubkeys: vec![], last_root: 0, pase_gen: 0 };
    let mut blobs = initial_blobs(base, &init);
    let mut outs: Vec<String> = Vec::new();
    let mut start = 0usize;
    let mut first = true;
    let mut boot_no = 0u64;
    loop {
        let n = run_incarnation(base, &mut cm, &blobs, &ops, start, if first { Some(&init) } else { None }, boot_no, &mut outs);
        first = false;
        boot_no += 1;
        match n {
            Next::Done => break,
            Next::Boot(i, b) => {
                start = i;
                blobs = b;
                // the state right after the boot is the observation of a restart step
                if start >= ops.len() {
                    // boot once more just to observe
                    let n2 = run_incarnation(base, &mut cm, &blobs, &[], 0, None, boot_no, &mut outs);
                    let _ = n2;
                    break;
                }
            }
        }
    }
    outs.join(";")
}

fn run_line(base: &Base, line: &str, out: &mut String) {
    let f: Vec<&str> = line.split(' ').collect();
    match f[0] {
        "S" => {
            writeln!(out, "S {} {}", f[1], run_s(base, &f)).unwrap();
        }
        "F" => {
            // F3 probe (property C07, repaired on main by 8b70a02): not compared with the model;
            // the CASE session of the rolled back fabric must be gone for the next fabric with that index
            let g: Vec<&str> = vec!["S", f[1], "1011", "Ap:60:5,Cp:0,Rp:1,Np:77,L2:5:0,T,P,Ap:60:5,Cp:0,Rp:2,Np:78,L2:6:0"];
            let r = run_s(base, &g);
            let steps: Vec<&str> = r.split(';').collect();
            let st = |i: usize| steps.get(i).map(|x| x.split('@').next().unwrap_or("")).unwrap_or("");
            let fab_after = steps.get(5).map(|x| x.contains(" 2:")).unwrap_or(true);
            writeln!(
                out,
                "F {} write_on_fabric2_before_rollback={} fabric2_after_rollback={} same_case_session_writes_new_fabric2={}",
                f[1],
                st(4),
                fab_after as u8,
                st(11)
            )
            .unwrap();
        }
        "H" => {
            writeln!(
                out,
                "H {} maxfab={} maxnet={}",
                f[1],
                rs_matter::fabric::MAX_FABRICS,
                MAX_NETS
            )
            .unwrap();
        }
        _ => {}
    }
}

/// Branch stream: hand-made cases, one or more per arm of the model (names in the comments).
fn branch_cases() -> Vec<(&'static str, &'static str)> {
    vec![
        // the two flows, committed
        ("1011", "Ap:60:5,Cp:0,Rp:1,Np:77,K2:0,T,X"),
        ("0111", "A1:60:5,C1:1,U1:88,L1:5:0,K1:0,T,X"),
        // rolled back by each of the four ways, PASE flow with staged ACL + networks
        ("1011", "Ap:60:5,Cp:0,Rp:1,Np:77,Wp:9:6,Lp:5:0,T,Cp:0"),
        ("1011", "Ap:60:5,Cp:0,Rp:1,Np:77,Wp:9:6,Lp:5:0,Ap:0:0,Cp:0"),
        ("1011", "Ap:60:5,Cp:0,Rp:1,Np:77,Wp:9:6,Lp:5:0,Vp,Cp:0"),
        ("1011", "Ap:60:5,Cp:0,Rp:1,Np:77,Wp:9:6,Lp:5:0,X,Cp:0"),
        ("1111", "Ap:60:5,Cp:0,Rp:1,Np:77,Dp:7,Wp:9:6,A1:0:0"),
        ("1111", "Ap:60:5,Cp:0,Rp:1,Np:77,Dp:7,Wp:9:6,V1"),
        // UpdateNOC flow rolled back: the fabric is reloaded from the store
        ("0111", "A1:60:5,C1:1,U1:88,L1:5:0,W1:9:-,T"),
        ("0111", "A1:60:5,C1:1,U1:88,L1:5:0,W1:9:-,A1:0:0"),
        ("0111", "A1:60:5,C1:1,U1:88,L1:5:0,W1:9:-,V1"),
        ("0111", "A1:60:5,C1:1,U1:88,L1:5:0,W1:9:-,X"),
        ("0121", "A1:60:5,C1:1,U1:88,A2:0:0"),
        // store failures and power loss inside CommissioningComplete
        ("1011", "Ap:60:5,Cp:0,Rp:1,Np:77,K2:1,T,X"),
        ("1011", "Ap:60:5,Cp:0,Rp:1,Np:77,K2:1,K2:0,T"),
        ("1011", "Ap:60:5,Cp:0,Rp:1,Np:77,Wp:9:6,K2:2,T,X"),
        ("1011", "Ap:60:5,Cp:0,Rp:1,Np:77,Wp:9:6,K2:2,K2:0"),
        ("1011", "Ap:60:5,Cp:0,Rp:1,Np:77,Wp:9:6,Q2:0"),
        ("1011", "Ap:60:5,Cp:0,Rp:1,Np:77,Wp:9:6,Q2:1"),
        ("1011", "Ap:60:5,Cp:0,Rp:1,Np:77,Wp:9:6,Q2:2"),
        ("1111", "Ap:60:5,Cp:0,Rp:1,Np:77,K2:2,T"),
        ("1111", "Ap:60:5,Cp:0,Rp:1,Np:77,Q2:1"),
        ("0111", "A1:60:5,C1:1,U1:88,K1:1,T"),
        ("0111", "A1:60:5,C1:1,U1:88,W1:9:-,K1:2,T"),
        ("0111", "A1:60:5,C1:1,U1:88,W1:9:-,Q1:1"),
        // wrong order / repetition
        ("1011", "Ap:60:5,Np:77,Cp:1,Cp:0,Cp:0,Rp:0,Rp:0,Np:77,Rp:1,Up:5,Np:78,Np:79"),
        ("1011", "Ap:60:5,Rp:1,Np:77,Cp:0,Np:77,Np:78,Cp:0,Rp:2"),
        ("0111", "A1:60:5,U1:88,C1:1,C1:0,C1:1,U1:88,U1:89,R1:1,N1:77"),
        ("0111", "A1:60:5,C1:0,U1:88,R1:1,U1:88,N1:77,U2:88,K1:0,K2:0"),
        ("0111", "A1:60:5,R1:1,C1:1,U1:88"),
        // wrong context
        ("1011", "Ap:60:5,C1:0,R1:1,N1:77,W1:9:-,D1:7,K1:0,A1:60:1,A1:0:0,K1:0,V1"),
        ("1011", "Ap:60:5,Cp:0,Rp:1,Np:77,Kp:0,K1:0,K3:0,C1:0,W1:3:-,K2:0"),
        ("0121", "A1:60:5,C2:1,U2:88,W2:9:-,K2:0,A2:60:1,C1:1,U1:88,K1:0"),
        ("0011", "A1:60:5,Ap:60:5,Cp:0,Ap:0:0,Cp:0,P,Cp:0,Ap:60:1,Cp:0"),
        // no fail-safe
        ("1011", "Cp:0,Rp:1,Np:7,Kp:0,K1:0,Wp:3:-,Dp:3,U1:5,Vp,Cp:0"),
        // busy: CASE arming with an open window; access: sessions of fabrics that do not exist
        ("1011", "A1:60:5,A2:60:5,C3:0,L2:5:0,V1,A1:60:5,C1:0"),
        // conflict, networks bounds / not found
        ("1021", "Ap:60:5,Cp:0,Rp:1,Np:77,Rp:2,Wp:1:-,Wp:2:-,Wp:3:-,Wp:4:-,Wp:2:7,Dp:9,Dp:2,Wp:4:-"),
        ("1021", "Ap:60:5,Cp:0,Rp:0,Np:77"),
        // AddNOC over CASE: the context moves to the new fabric
        ("0111", "A1:60:5,C1:0,R1:2,N1:77,C1:0,K1:0,L1:5:0,L2:6:0,K2:0,T"),
        ("0111", "A1:60:5,C1:0,R1:2,N1:77,L2:6:0,T"),
        // known class: the context moves away from a fabric with staged changes
        ("0111", "A1:60:5,L1:5:0,C1:0,R1:2,N1:77,T,X"),
        ("0111", "A1:60:5,L1:5:0,W1:9:-,C1:0,R1:2,N1:77,K2:0,X"),
        ("0111", "A1:60:5,C1:0,R1:2,L1:5:0,N1:77,V2"),
        // writes outside the fail-safe context are stored at once (also with a failing store)
        ("1011", "L1:5:0,Ap:60:5,L1:6:0,Cp:0,Rp:1,Np:77,L1:7:0,L2:8:0,T"),
        ("1011", "L1:5:1,X"),
        ("1011", "Ap:60:5,L1:5:1,T"),
        // table full: four commissioning rounds, then a fifth
        ("1011", "Ap:60:5,Cp:0,Rp:1,Np:71,K2:0,P,Ap:60:5,Cp:0,Rp:2,Np:72,K3:0,P,Ap:60:5,Cp:0,Rp:3,Np:73,X,P,Ap:60:5,Cp:0,Rp:3,Np:73,Ap:0:0"),
        // restart in the middle, new PASE, second round reuses the index
        ("1011", "Ap:60:5,Cp:0,Rp:1,Np:77,X,P,Ap:60:5,Rp:1,Np:78,Cp:0,Np:78,K2:0"),
        // AddNOC repeated after it succeeded (refused by the flags; a different root cannot be staged)
        ("1011", "Ap:60:5,Cp:0,Rp:1,Np:77,Np:78,Np:77,Rp:2,Np:79,Cp:0"),
        ("0111", "A1:60:5,C1:0,R1:2,N1:77,N2:78,N1:79,N2:77"),
        ("0111", "A1:60:5,C1:1,U1:88,U1:89,U1:88,C1:1"),
        // the CASE session of a rolled back fabric is still there for the next fabric with that index (F3, C07)
        ("1011", "Ap:60:5,Cp:0,Rp:1,Np:77,L2:5:0,T,P,Ap:60:5,Cp:0,Rp:2,Np:78,L2:6:0,Ap:0:0"),
        // a rollback that removes the fabric drops its CASE session (the caller's own is kept, expired)
        ("1011", "Ap:60:5,Cp:0,Rp:1,Np:77,L2:5:0,T,L2:6:0,E2,L2:6:0,P,Ap:60:5,Cp:0,Rp:2,Np:78,L2:6:0,A2:0:0,L2:7:0,E2,L2:7:0"),
        ("1011", "Ap:60:5,Cp:0,Rp:1,Np:77,V2,A2:60:1,E2,A2:60:1,Vp"),
        ("0111", "A1:60:5,C1:1,U1:88,A1:0:0,L1:5:0,A1:60:5,C1:0,R1:2,N1:77,A1:0:0,L2:5:0,L1:6:0"),
        ("0121", "A1:60:5,C1:0,R1:2,N1:77,T,L3:5:0,L2:5:0,E3,P,Ap:60:1,Cp:0,Rp:3,Np:71,K3:0,L3:5:0"),
        // fabric label / VID statement: writers of the whole fabric blob.  Under a fail-safe armed for the
        // fabric (CASE) the label is staged like the ACL; every way of ending the commissioning undoes both
        ("0111", "A1:60:5,L1:5:0,B1:3:0,T,X"),
        ("0111", "A1:60:5,L1:5:0,B1:3:0,A1:0:0,B1:4:0,X"),
        ("0111", "A1:60:5,B1:3:0,L1:5:0,V1"),
        ("0111", "A1:60:5,L1:5:0,B1:3:0,X"),
        ("0111", "A1:60:5,L1:5:0,B1:3:0,Q1:0"),
        ("0111", "A1:60:5,C1:1,L1:5:0,B1:3:0,U1:88,B1:4:0,T"),
        ("0111", "A1:60:5,L1:5:0,B1:3:0,K1:0,T,X"),
        ("0121", "A1:60:5,L1:5:0,B2:3:0,B1:3:0,B1:4:0,L2:6:0,T,X"),
        ("0121", "B1:3:0,B2:3:0,B2:0:0,B1:0:0,B2:3:0,X"),
        ("1011", "Ap:60:5,Bp:3:0,Cp:0,Rp:1,Np:77,Bp:3:0,B2:4:0,Lp:5:0,T"),
        ("1011", "Ap:60:5,Cp:0,Rp:1,Np:77,B2:4:0,I2:2:0,K2:0,X"),
        ("1011", "B1:3:1,X,B1:3:0,X"),
        // the VID statement: stored at once unless an AddNOC / UpdateNOC of the context is pending
        ("0111", "I1:2:0,X,A1:60:5,C1:1,U1:88,I1:3:0,T,X"),
        ("0111", "A1:60:5,I1:2:0,T,X"),
        ("0111", "A1:60:5,L1:5:0,I1:2:0,T,X"),
        ("0111", "A1:60:5,B1:3:0,I1:2:0,A1:0:0"),
        ("0121", "A1:60:5,L1:5:0,I2:2:0,I1:2:1,T"),
        // revoke without fail-safe, timer without fail-safe
        ("1011", "Vp,T,V1,T"),
        ("0011", "T,X,T"),
    ]
}

fn generate(tier: &str, seed: u64) -> Vec<String> {
    let thorough = tier == "thorough";
    let mut rng = Rng::new(seed);
    let mut cases: Vec<String> = Vec::new();
    let mut id = 0u64;
    let mut nid = || {
        id += 1;
        id
    };
    cases.push(format!("H {}", nid()));
    cases.push(format!("F {}", nid()));
    for (init, ops) in branch_cases() {
        cases.push(format!("S {} {} {}", nid(), init, ops));
    }
    // exhaustive: every sequence over a 7-command alphabet, followed by one way of rolling back
    let prof_p: [&str; 7] = ["Ap:60:1", "Cp:0", "Rp:1", "Np:77", "Wp:9:2", "L2:5:0", "K2:0"];
    let prof_c: [&str; 7] = ["A1:60:1", "C1:1", "U1:88", "L1:5:0", "W1:9:2", "K1:0", "R1:1"];
    let tails_p = ["T", "Ap:0:0", "Vp", "X", "A1:0:0", "Q2:1", "Q2:0"];
    let tails_c = ["T", "A1:0:0", "V1", "X", "Q1:1", "A2:0:0", "Q1:0"];
    let mut count = 0usize;
    let mut exhaustive = |alpha: &[&str; 7], tails: &[&str; 7], init: &str, maxlen: usize, cases: &mut Vec<String>, nid: &mut dyn FnMut() -> u64| {
        for len in 1..=maxlen {
            let total = 7usize.pow(len as u32);
            for mut code in 0..total {
                let mut v = Vec::new();
                for _ in 0..len {
                    v.push(alpha[code % 7]);
                    code /= 7;
                }
                v.push(tails[count % 7]);
                // after the rollback, a probe that the node is back to normal: arm again, CSR
                v.push(if count % 2 == 0 { alpha[0] } else { alpha[1] });
                count += 1;
                cases.push(format!("S {} {} {}", nid(), init, v.join(",")));
            }
        }
    };
    exhaustive(&prof_p, &tails_p, "1011", if thorough { 5 } else { 4 }, &mut cases, &mut nid);
    exhaustive(&prof_c, &tails_c, "0111", if thorough { 5 } else { 4 }, &mut cases, &mut nid);
    // the writers of the fabric blob under a fail-safe armed over CASE
    let prof_b: [&str; 7] = ["A1:60:1", "L1:5:0", "B1:3:0", "I1:2:0", "C1:1", "U1:88", "W1:9:2"];
    let tails_b = ["T", "A1:0:0", "V1", "X", "K1:0", "Q1:1", "A2:0:0"];
    exhaustive(&prof_b, &tails_b, "0121", if thorough { 5 } else { 4 }, &mut cases, &mut nid);
    // random, all sessions and all operations
    let n_rand = if thorough { 30000 } else { 5000 };
    for _ in 0..n_rand {
        let init = format!("{}{}{}{}", rng.below(2), rng.below(2), 1 + rng.below(2), if rng.chance(4, 5) { 1 } else { 0 });
        let len = rng.range(5, 14);
        // a commissioner that mostly follows the script, mixed with arbitrary commands
        let main = if rng.chance(2, 3) { 'p' } else { '1' };
        let mut v: Vec<String> = Vec::new();
        // half of the sequences start with a (possibly truncated) well-formed flow
        if rng.chance(1, 2) {
            let flow: Vec<String> = if main == 'p' {
                vec![format!("Ap:60:{}", rng.below(4)), "Cp:0".into(), format!("Rp:{}", 1 + rng.below(3)), format!("Np:{}", 70 + rng.below(5))]
            } else {
                vec![format!("A1:60:{}", rng.below(4)), "C1:1".into(), format!("U1:{}", 80 + rng.below(5))]
            };
            let keep = rng.range(2, flow.len() as u64) as usize;
            v.extend(flow.into_iter().take(keep));
        }
        let sess = |rng: &mut Rng, main: char| -> char {
            if rng.chance(3, 5) {
                main
            } else {
                *rng.pick(&['p', '1', '2', '3'])
            }
        };
        for _ in 0..len {
            let s = sess(&mut rng, main);
            let t = match rng.below(40) {
                0..=5 => format!("A{}:{}:{}", s, if rng.chance(1, 5) { 0 } else { 60 }, rng.below(4)),
                6..=9 => format!("C{}:{}", s, if rng.chance(1, 3) { 1 } else { 0 }),
                10..=13 => format!("R{}:{}", s, rng.below(4)),
                14..=17 => format!("N{}:{}", s, 70 + rng.below(5)),
                18..=19 => format!("U{}:{}", s, 80 + rng.below(5)),
                20..=21 => format!("L{}:{}:{}", s, 1 + rng.below(6), if rng.chance(1, 8) { 1 } else { 0 }),
                22 => {
                    if rng.chance(1, 2) {
                        format!("B{}:{}:{}", s, rng.below(4), if rng.chance(1, 8) { 1 } else { 0 })
                    } else {
                        format!("I{}:{}:{}", s, 1 + rng.below(4), if rng.chance(1, 8) { 1 } else { 0 })
                    }
                }
                23..=25 => format!("W{}:{}:{}", s, 1 + rng.below(5), if rng.chance(1, 2) { "-".to_string() } else { rng.below(9).to_string() }),
                26 => format!("D{}:{}", s, rng.pick(&[7u64, 1, 2, 3])),
                27..=31 => format!("K{}:{}", if rng.chance(1, 2) { '2' } else { s }, if rng.chance(1, 3) { 1 + rng.below(2) } else { 0 }),
                32 => format!("Q{}:{}", if rng.chance(1, 2) { '2' } else { s }, rng.below(3)),
                33 => format!("V{}", s),
                34..=35 => "T".to_string(),
                36 => "X".to_string(),
                37 => format!("E{}", 1 + rng.below(3)),
                _ => "P".to_string(),
            };
            v.push(t);
        }
        cases.push(format!("S {} {} {}", nid(), init, v.join(",")));
    }
    cases
}

fn main() {
    let args: Vec<String> = std::env::args().collect();
    match args.get(1).map(|s| s.as_str()) {
        Some("gen") => {
            let outdir = std::path::PathBuf::from(&args[4]);
            std::fs::create_dir_all(&outdir).unwrap();
            let cases = generate(&args[2], args[3].parse().unwrap());
            let mut cf = std::io::BufWriter::new(std::fs::File::create(outdir.join("cases.txt")).unwrap());
            for c in &cases {
                writeln!(cf, "{}", c).unwrap();
            }
        }
        Some("run") => {
            let text = std::fs::read_to_string(&args[2]).unwrap();
            let handle = std::thread::Builder::new()
                .stack_size(256 * 1024 * 1024)
                .spawn(move || {
                    if std::env::var("C08_DEBUG").is_err() {
                        rsm_harness::silence_panics();
                    }
                    let base = make_base();
                    let mut out = String::new();
                    for line in text.lines() {
                        run_line(&base, line, &mut out);
                    }
                    out
                })
                .unwrap();
            print!("{}", handle.join().unwrap());
        }
        _ => {
            eprintln!("usage: c08 gen <tier> <seed> <outdir> | c08 run <cases>");
            std::process::exit(2);
        }
    }
}
