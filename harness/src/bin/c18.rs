//! C18 correspondence harness: the real `Btp` (BtpInner + btp::session::Session) driven
//! operation by operation, alone against hostile segments and back to back with a second
//! real `Btp` under a seeded scheduler.
//!
//! usage: c18 gen <quick|thorough> <seed> <outdir>     writes cases.txt + stats.json
//!        c18 run <cases-file>                          prints one canonical line per case
//!        c18 probe                                     the F10 witnesses, one line each
//!
//! Case lines (same grammar as ocaml/c18/driver.ml):
//!   E <id> <op>...            one end; ops  i:<gatt|->:<addr>:<hex>   process_incoming
//!                                           o:<gatt|->:<timer01>:<cap> process_outgoing
//!                                           s:<addr>:<bytes>  send    r:<cap>  recv
//!                                           x reset   I0/I1 set_initiator   L0/L1 relaxed MTU
//!   P <id> <gattA|-> <gattB|-> <relaxedB01> <sop>...   two ends, A initiator;
//!                                           sX:<bytes> pX:<timer01> dX fX  (X = A|B)
//!                                           wB:<n> = rewrite the window proposed in the handshake request in flight
//!   <bytes> = hex, or #<len>.<seed> (byte i = seed + 13 i + 7 (i / 256) mod 256)
//! Output: per op  <res>@<rlevel>.<ack_level>.<slevel>.<swin>.<digest of the whole state>
//!   res = u | b<hex> | n | t | e | P(panic, ends the case)   then  | <final state>
use std::collections::{BTreeMap, VecDeque};
use std::fmt::Write as _;
use std::io::Write as _;
use std::panic::AssertUnwindSafe;

use rs_matter::transport::network::btp::Btp;
use rs_matter::transport::network::BtAddr;
use rs_matter::utils::storage::RingBuf;
use rsm_harness::{catch, Digest, Rng};

fn addr(n: u8) -> BtAddr {
    BtAddr([n, 0, 0, 0, 0, 0])
}

fn parse_bytes(s: &str) -> Vec<u8> {
    if let Some(rest) = s.strip_prefix('#') {
        let (l, sd) = rest.split_once('.').unwrap();
        let (l, sd): (usize, usize) = (l.parse().unwrap(), sd.parse().unwrap());
        (0..l).map(|i| ((sd + 13 * i + 7 * (i / 256)) & 255) as u8).collect()
    } else {
        (0..s.len() / 2)
            .map(|i| u8::from_str_radix(&s[2 * i..2 * i + 2], 16).unwrap())
            .collect()
    }
}

fn hex(b: &[u8]) -> String {
    let mut s = String::with_capacity(b.len() * 2);
    for x in b {
        write!(s, "{:02x}", x).unwrap();
    }
    s
}

fn parse_gatt(s: &str) -> Option<u16> {
    if s == "-" {
        None
    } else {
        Some(s.parse().unwrap())
    }
}

/// state read that survives an implementation that has panicked while its lock was held
fn read_state(b: &Btp) -> [u32; 20] {
    catch(AssertUnwindSafe(|| b.verif_state())).unwrap_or([0; 20])
}

/// the observable state in the model's order (sent_at dropped)
fn state_vec(b: &Btp) -> Vec<u32> {
    let st = b.verif_state();
    let mut v = st[..16].to_vec();
    v.extend_from_slice(&st[17..20]);
    v
}

fn snap_str(b: &Btp) -> String {
    let v = state_vec(b);
    let mut d = Digest::new();
    for x in &v {
        d.push(*x as u64);
    }
    format!("{}.{}.{}.{}.{:08x}", v[9], v[10], v[14], v[13], d.0 & 0xffff_ffff)
}

fn full_str(b: &Btp) -> String {
    state_vec(b).iter().map(|x| x.to_string()).collect::<Vec<_>>().join(",")
}

#[derive(Clone, Debug)]
enum Res {
    U,
    B(Vec<u8>),
    N,
    T,
    E,
}

impl Res {
    fn show(&self) -> String {
        match self {
            Res::U => "u".into(),
            Res::B(b) => format!("b{}", hex(b)),
            Res::N => "n".into(),
            Res::T => "t".into(),
            Res::E => "e".into(),
        }
    }
}

/// One operation on one real end. `Err(_)` = the implementation panicked.
fn apply(b: &Btp, tok: &str) -> Result<Res, String> {
    let f: Vec<&str> = tok.split(':').collect();
    catch(AssertUnwindSafe(|| match f[0] {
        "i" => {
            let data = parse_bytes(f[3]);
            match b.process_incoming(parse_gatt(f[1]), addr(f[2].parse().unwrap()), &data) {
                Ok(()) => Res::U,
                Err(_) => Res::E,
            }
        }
        "o" => {
            b.verif_set_timeouts(if f[2] == "1" { 0 } else { 255 }, 255);
            let cap: usize = f[3].parse().unwrap();
            let mut buf = vec![0u8; cap];
            match b.process_outgoing(parse_gatt(f[1]), &mut buf) {
                Ok(n) => Res::B(buf[..n].to_vec()),
                Err(_) => Res::E,
            }
        }
        "s" => {
            let data = parse_bytes(f[2]);
            match b.verif_send(&data, addr(f[1].parse().unwrap())) {
                Ok(true) => Res::T,
                Ok(false) => Res::N,
                Err(_) => Res::E,
            }
        }
        "r" => {
            let cap: usize = f[1].parse().unwrap();
            let mut buf = vec![0u8; cap];
            match b.verif_recv(&mut buf) {
                Ok(Some((n, _))) => Res::B(buf[..n].to_vec()),
                Ok(None) => Res::N,
                Err(_) => Res::E,
            }
        }
        "x" => {
            b.reset();
            Res::U
        }
        "I0" | "I1" => {
            b.set_initiator(f[0] == "I1");
            Res::U
        }
        "L0" | "L1" => {
            b.set_relaxed_mtu_nego(f[0] == "L1");
            Res::U
        }
        _ => panic!("harness: bad op {tok}"),
    }))
}

struct Pair {
    a: Btp,
    b: Btp,
    to_a: VecDeque<Vec<u8>>,
    to_b: VecDeque<Vec<u8>>,
    ga: Option<u16>,
    gb: Option<u16>,
}

impl Pair {
    fn new(ga: Option<u16>, gb: Option<u16>, rel: bool) -> Self {
        let a = Btp::new();
        a.set_initiator(true);
        let b = Btp::new();
        b.set_relaxed_mtu_nego(rel);
        Pair { a, b, to_a: VecDeque::new(), to_b: VecDeque::new(), ga, gb }
    }

    fn apply(&mut self, tok: &str) -> Result<Res, String> {
        let is_a = tok.as_bytes()[1] == b'A';
        let (me, my_addr, peer_addr, gatt) = if is_a {
            (&self.a, 10u8, 11u8, self.ga)
        } else {
            (&self.b, 11u8, 10u8, self.gb)
        };
        let _ = my_addr;
        match tok.as_bytes()[0] {
            b's' => apply(me, &format!("s:{}:{}", peer_addr, &tok[3..])),
            b'p' => {
                let g = gatt.map(|g| g.to_string()).unwrap_or("-".into());
                let r = apply(me, &format!("o:{}:{}:512", g, &tok[3..4]))?;
                if let Res::B(d) = &r {
                    if !d.is_empty() {
                        if is_a {
                            self.to_b.push_back(d.clone());
                        } else {
                            self.to_a.push_back(d.clone());
                        }
                    }
                }
                Ok(r)
            }
            b'd' => {
                let q = if is_a { &mut self.to_a } else { &mut self.to_b };
                match q.pop_front() {
                    None => Ok(Res::N),
                    Some(d) => {
                        let g = gatt.map(|g| g.to_string()).unwrap_or("-".into());
                        apply(me, &format!("i:{}:{}:{}", g, peer_addr, hex(&d)))
                    }
                }
            }
            b'f' => apply(me, "r:2048"),
            b'w' => {
                // input shaping, not an operation of either end: another initiator would have
                // proposed this window (byte 8 of the handshake request in flight)
                let q = if is_a { &mut self.to_a } else { &mut self.to_b };
                if let Some(d) = q.front_mut() {
                    if d.len() == 9 && d[0] == 0x65 {
                        d[8] = tok[3..].parse().unwrap();
                    }
                }
                Ok(Res::U)
            }
            _ => panic!("harness: bad sop {tok}"),
        }
    }
}

/// the real `RingBuf<N>` driven op by op: p<bytes> push, o<n> pop into n bytes, c clear
fn run_ring<const N: usize>(toks: &[&str], out: &mut String) {
    let mut rb = RingBuf::<N>::new();
    for t in toks {
        let res = catch(AssertUnwindSafe(|| {
            let mut s = String::new();
            match t.as_bytes()[0] {
                b'p' => {
                    rb.push(&parse_bytes(&t[1..]));
                    s.push('l');
                }
                b'o' => {
                    let n: usize = t[1..].parse().unwrap();
                    let mut buf = vec![0u8; n];
                    let k = rb.pop(&mut buf);
                    write!(s, "b{}", hex(&buf[..k])).unwrap();
                }
                b'c' => {
                    rb.clear();
                    s.push('l');
                }
                _ => panic!("harness: bad ring op {t}"),
            }
            write!(s, "@{}.{}{}/{}", rb.len(), rb.is_full() as u8, rb.is_empty() as u8, rb.free()).unwrap();
            s
        }));
        match res {
            Ok(s) => write!(out, " {}", s).unwrap(),
            Err(_) => {
                out.push_str(" P");
                break;
            }
        }
    }
}

fn run_line(line: &str, out: &mut String) {
    let f: Vec<&str> = line.split(' ').filter(|x| !x.is_empty()).collect();
    match f[0] {
        "E" => {
            let b = Btp::new();
            write!(out, "E {}", f[1]).unwrap();
            let mut dead = false;
            for tok in &f[2..] {
                match apply(&b, tok) {
                    Ok(r) => write!(out, " {}@{}", r.show(), snap_str(&b)).unwrap(),
                    Err(_) => {
                        out.push_str(" P");
                        dead = true;
                        break;
                    }
                }
            }
            if dead {
                out.push_str(" | dead\n");
            } else {
                writeln!(out, " | {}", full_str(&b)).unwrap();
            }
        }
        "P" => {
            let mut p = Pair::new(parse_gatt(f[2]), parse_gatt(f[3]), f[4] == "1");
            write!(out, "P {}", f[1]).unwrap();
            let mut dead = false;
            for tok in &f[5..] {
                match p.apply(tok) {
                    Ok(r) => write!(out, " {}@{}/{}", r.show(), snap_str(&p.a), snap_str(&p.b)).unwrap(),
                    Err(_) => {
                        out.push_str(" P");
                        dead = true;
                        break;
                    }
                }
            }
            if dead {
                out.push_str(" | dead\n");
            } else {
                writeln!(out, " | {} {}", full_str(&p.a), full_str(&p.b)).unwrap();
            }
        }
        "R" => {
            write!(out, "R {}", f[1]).unwrap();
            match f[2] {
                "1" => run_ring::<1>(&f[3..], out),
                "2" => run_ring::<2>(&f[3..], out),
                "5" => run_ring::<5>(&f[3..], out),
                "16" => run_ring::<16>(&f[3..], out),
                "64" => run_ring::<64>(&f[3..], out),
                "3166" => run_ring::<3166>(&f[3..], out),
                _ => panic!("harness: ring capacity {} not instantiated", f[2]),
            }
            out.push('\n');
        }
        _ => panic!("harness: bad line {line}"),
    }
}

// ------------------------------------------------------------------ generators

fn hs_req(mtu: u16, ws: u8) -> Vec<u8> {
    vec![0x65, 0x6c, 0x04, 0, 0, 0, (mtu & 255) as u8, (mtu >> 8) as u8, ws]
}

fn hs_resp(mtu: u16, ws: u8) -> Vec<u8> {
    vec![0x65, 0x6c, 0x04, (mtu & 255) as u8, (mtu >> 8) as u8, ws]
}

/// header bytes from the six flag bits and the field values (fields present per the codec)
fn hdr_bytes(flags: u8, op: u8, ack: u8, seq: u8, len: u16) -> Vec<u8> {
    let mut v = vec![flags];
    if flags & 0x20 != 0 {
        v.push(op);
    }
    if flags & 0x08 != 0 {
        v.push(ack);
    }
    if flags & 0x40 == 0 {
        v.push(seq);
    }
    if flags & 0x01 != 0 && flags & 0x40 == 0 {
        v.push((len & 255) as u8);
        v.push((len >> 8) as u8);
    }
    v
}

struct Gen {
    rng: Rng,
    lines: Vec<String>,
    stats: BTreeMap<String, u64>,
    next_id: u64,
}

impl Gen {
    fn count(&mut self, k: &str) {
        *self.stats.entry(k.to_string()).or_insert(0) += 1;
    }

    fn emit_e(&mut self, stream: &str, ops: &[String]) {
        self.next_id += 1;
        self.count(&format!("cases_{stream}"));
        *self.stats.entry("ops_total".into()).or_insert(0) += ops.len() as u64;
        self.lines.push(format!("E {}{} {}", stream, self.next_id, ops.join(" ")));
    }

    fn gatt_pick(&mut self) -> Option<u16> {
        match self.rng.below(10) {
            0 => None,
            1 => Some(*self.rng.pick(&[0u16, 1, 2, 3, 4, 20, 22, 23, 24, 247, 248, 517, 65535])),
            _ => Some(self.rng.range(23, 517) as u16),
        }
    }

    fn g_str(g: Option<u16>) -> String {
        g.map(|g| g.to_string()).unwrap_or("-".into())
    }

    /// the context a probe segment is sent into; returns the ops and the live end
    fn context(&mut self, kind: u64, ops: &mut Vec<String>) -> Btp {
        let b = Btp::new();
        let push = |b: &Btp, ops: &mut Vec<String>, t: String| {
            let _ = apply(b, &t);
            ops.push(t);
        };
        match kind {
            0 => {} // before any handshake
            4 => {
                // responder between the handshake request and its response
                let ws = *self.rng.pick(&[1u8, 2, 5, 255]);
                push(&b, ops, format!("i:-:1:{}", hex(&hs_req(100, ws))));
            }
            1 | 3 => {
                // responder after the handshake (window 1..8 or as computed)
                let ws = *self.rng.pick(&[1u8, 2, 3, 5, 8, 255]);
                let mtu = *self.rng.pick(&[23u16, 64, 200, 247]);
                push(&b, ops, format!("i:{}:1:{}", mtu, hex(&hs_req(mtu, ws))));
                push(&b, ops, "o:-:0:512".into());
                if kind == 3 {
                    // in the middle of an SDU: a valid first segment of a long message
                    let st = read_state(&b);
                    let m = (st[3] as usize).max(8); // a mutated implementation may agree on anything
                    let mut seg = hdr_bytes(0x01, 0, 0, 0, (3 * m) as u16);
                    seg.extend((0..m - 4).map(|i| i as u8));
                    push(&b, ops, format!("i:-:1:{}", hex(&seg)));
                }
            }
            _ => {
                // initiator after the handshake
                push(&b, ops, "I1".into());
                push(&b, ops, "o:-:0:512".into());
                let ws = *self.rng.pick(&[1u8, 2, 4, 79, 255]);
                let mtu = *self.rng.pick(&[20u16, 61, 244]);
                push(&b, ops, format!("i:-:1:{}", hex(&hs_resp(mtu, ws))));
                if self.rng.chance(1, 2) {
                    push(&b, ops, "s:1:#30.5".into());
                    push(&b, ops, "o:-:0:512".into());
                }
            }
        }
        b
    }

    /// stream "hf": every combination of the six flag bits x seq/ack choice, in four contexts
    fn header_sweep(&mut self, reps: u64) {
        for kind in 0..5u64 {
            for bits in 0..64u8 {
                let flags = (bits & 0x07) | ((bits & 0x08) << 0) | ((bits & 0x10) << 1) | ((bits & 0x20) << 1);
                for seqc in 0..4u64 {
                    for ackc in 0..5u64 {
                        for _ in 0..reps {
                            let mut ops = vec![];
                            let b = self.context(kind, &mut ops);
                            let st = read_state(&b);
                            let (mtu, exp_seq, last_sent) = (st[3] as usize, (st[11] as u8).wrapping_add(1), st[15] as u8);
                            let seq = match seqc {
                                0 => exp_seq,
                                1 => exp_seq.wrapping_add(1),
                                2 => exp_seq.wrapping_sub(1),
                                _ => self.rng.below(256) as u8,
                            };
                            let ack = match ackc {
                                0 => last_sent,
                                1 => last_sent.wrapping_add(1),
                                2 => last_sent.wrapping_sub(1),
                                3 => last_sent.wrapping_sub(st[13] as u8),
                                _ => self.rng.below(256) as u8,
                            };
                            let mut fl = flags;
                            if self.rng.chance(1, 16) {
                                fl |= *self.rng.pick(&[0x80u8, 0x10, 0x90]);
                            }
                            let hl = hdr_bytes(fl, 0, 0, 0, 0).len();
                            let room = mtu.saturating_sub(hl);
                            let plen = *self.rng.pick(&[0usize, 1, room, room, room + 1, room.saturating_sub(1), 7, 300]);
                            let rem = st[12] as usize;
                            let mlen = *self.rng.pick(&[0usize, plen, plen, plen + 1, plen.saturating_sub(1), mtu, mtu + 1, rem, 2000, 65535]);
                            let op = if self.rng.chance(1, 8) { self.rng.below(256) as u8 } else { 0x6c };
                            let mut seg = hdr_bytes(fl, op, ack, seq, mlen as u16);
                            if fl & 0x40 != 0 {
                                // handshake-flagged: a request / response shaped payload
                                let m = *self.rng.pick(&[0u16, 1, 2, 3, 5, 20, 23, 100, 247, 1000, 65535]);
                                let w = *self.rng.pick(&[0u8, 1, 2, 6, 255]);
                                seg.extend_from_slice(&hs_req(m, w)[2..]);
                                if self.rng.chance(1, 2) {
                                    seg.truncate(seg.len() - self.rng.below(4) as usize);
                                }
                            } else {
                                seg.extend((0..plen).map(|i| (i * 3 + 1) as u8));
                            }
                            if self.rng.chance(1, 40) {
                                let k = self.rng.below(seg.len() as u64 + 1) as usize;
                                seg.truncate(k); // cut anywhere, also inside the header
                            }
                            let g = if self.rng.chance(1, 3) { self.gatt_pick() } else { None };
                            ops.push(format!("i:{}:1:{}", Self::g_str(g), hex(&seg)));
                            // after-effects: poll (ack timer on), fetch, a well-formed short SDU, fetch
                            ops.push("o:-:1:512".into());
                            ops.push("r:2048".into());
                            let _ = apply(&b, &ops[ops.len() - 3]);
                            let _ = apply(&b, "o:-:1:512");
                            let _ = apply(&b, "r:2048");
                            let st = read_state(&b);
                            if st[5] == 0 {
                                let nseq = (st[11] as u8).wrapping_add(1);
                                let mut s2 = hdr_bytes(0x05, 0, 0, nseq, 3);
                                s2.extend_from_slice(&[0xa, 0xb, 0xc]);
                                ops.push(format!("i:-:1:{}", hex(&s2)));
                                ops.push("r:2048".into());
                                ops.push("r:2".into());
                            }
                            self.emit_e("hf", &ops);
                        }
                    }
                }
            }
        }
    }

    /// stream "hs": handshake requests / responses with every interesting MTU / window / GATT MTU
    fn handshake_sweep(&mut self) {
        let mtus = [0u16, 1, 2, 3, 4, 5, 6, 19, 20, 22, 23, 24, 100, 244, 246, 247, 248, 517, 1583, 3166, 3167, 65535];
        let wss = [0u8, 1, 2, 5, 6, 7, 78, 79, 80, 255];
        for &m in &mtus {
            for &w in &wss {
                for gi in 0..4 {
                    let g = match gi {
                        0 => None,
                        1 => Some(m),
                        2 => Some(*self.rng.pick(&[0u16, 1, 2, 3, 23, 185, 517, 65535])),
                        _ => self.gatt_pick(),
                    };
                    for rel in 0..2 {
                        // responder
                        let mut ops = vec![];
                        if rel == 1 {
                            ops.push("L1".to_string());
                        }
                        ops.push(format!("i:{}:1:{}", Self::g_str(g), hex(&hs_req(m, w))));
                        ops.push("o:-:0:512".into());
                        ops.push("s:1:#70.1".into());
                        ops.push("o:-:0:512".into());
                        ops.push("o:-:0:512".into());
                        ops.push(format!("i:-:1:{}", hex(&[0x05, 0, 1, 0, 0x55])));
                        ops.push("o:-:1:512".into());
                        ops.push("r:2048".into());
                        self.emit_e("hs", &ops);
                    }
                    // initiator: the peer answers (m, w)
                    let mut ops = vec!["I1".to_string(), format!("o:{}:0:512", Self::g_str(g))];
                    ops.push(format!("i:{}:1:{}", Self::g_str(g), hex(&hs_resp(m, w))));
                    ops.push("s:1:#300.2".into());
                    for _ in 0..4 {
                        ops.push("o:-:0:512".into());
                    }
                    ops.push(format!("i:-:1:{}", hex(&[0x05, 1, 1, 0, 0x55])));
                    ops.push("o:-:1:512".into());
                    ops.push("r:2048".into());
                    self.emit_e("hs", &ops);
                }
            }
        }
    }

    /// stream "hr": long mostly-valid conversations with a peer that misbehaves now and then
    fn hostile_random(&mut self, n: u64, max_ops: u64) {
        for _ in 0..n {
            let mut ops: Vec<String> = vec![];
            let b = Btp::new();
            let initiator = self.rng.chance(1, 3);
            let push = |b: &Btp, ops: &mut Vec<String>, t: String| -> bool {
                let r = apply(b, &t);
                ops.push(t);
                r.is_ok()
            };
            if self.rng.chance(1, 3) {
                push(&b, &mut ops, "L1".into());
            }
            if initiator {
                push(&b, &mut ops, "I1".into());
            }
            let nops = self.rng.range(20, max_ops);
            let evil = self.rng.range(0, 12); // per-cent of misbehaviour
            let mut alive = true;
            // the SDU the peer is in the middle of sending
            let mut peer_left: usize = 0;
            while (ops.len() as u64) < nops && alive {
                let st = read_state(&b);
                let established = st[1] == 1;
                let (mtu, exp_seq, last_sent) = ((st[3] as usize).max(8), (st[11] as u8).wrapping_add(1), st[15] as u8);
                let c = self.rng.below(100);
                if !established || c < 3 {
                    // (re-)handshake
                    let m = if self.rng.chance(4, 5) { self.rng.range(23, 260) as u16 } else { *self.rng.pick(&[0u16, 1, 2, 3, 5, 19, 20, 65535]) };
                    let w = if self.rng.chance(4, 5) { self.rng.range(1, 12) as u8 } else { *self.rng.pick(&[0u8, 1, 79, 255]) };
                    let g = match self.rng.below(3) { 0 => None, 1 => Some(m), _ => self.gatt_pick() };
                    if st[0] == 1 {
                        if st[5] == 1 {
                            alive = push(&b, &mut ops, format!("o:{}:0:512", Self::g_str(g)));
                        }
                        let m2 = if self.rng.chance(4, 5) { self.rng.range(20, 244) as u16 } else { m };
                        alive = alive && push(&b, &mut ops, format!("i:{}:1:{}", Self::g_str(g), hex(&hs_resp(m2, w))));
                    } else {
                        alive = push(&b, &mut ops, format!("i:{}:1:{}", Self::g_str(g), hex(&hs_req(m, w))));
                    }
                    peer_left = 0;
                    self.count("hr_handshake");
                } else if c < 45 {
                    // a data segment from the peer, well formed unless `evil`
                    let bad = self.rng.below(100) < evil;
                    let with_ack = self.rng.chance(1, 3);
                    let mut fl: u8 = if with_ack { 0x08 } else { 0 };
                    let mut seq = exp_seq;
                    let mut ack = last_sent;
                    let hl_first = 4 + with_ack as usize;
                    let hl_cont = 2 + with_ack as usize;
                    let (mut mlen, plen);
                    if peer_left == 0 {
                        fl |= 0x01;
                        let total = match self.rng.below(6) {
                            0 => 0,
                            1 => self.rng.range(1, (mtu - hl_first) as u64) as usize,
                            2 => mtu - hl_first + self.rng.below(3) as usize,
                            3 => self.rng.range(mtu as u64, 3 * mtu as u64) as usize,
                            4 => 1,
                            _ => self.rng.range(1, 1300) as usize,
                        };
                        mlen = total;
                        plen = total.min(mtu - hl_first);
                        if plen == total {
                            fl |= 0x04;
                        }
                        peer_left = total - plen;
                    } else {
                        fl |= 0x02;
                        mlen = 0;
                        plen = peer_left.min(mtu - hl_cont);
                        if plen == peer_left {
                            fl |= 0x04;
                        }
                        peer_left -= plen;
                    }
                    let mut plen = plen;
                    if bad {
                        self.count("hr_evil_segment");
                        match self.rng.below(9) {
                            0 => seq = seq.wrapping_add(self.rng.range(1, 255) as u8),
                            1 => {
                                fl |= 0x08;
                                ack = ack.wrapping_add(self.rng.range(1, 255) as u8)
                            }
                            2 => fl ^= *self.rng.pick(&[0x01u8, 0x02, 0x04, 0x20, 0x40]),
                            3 => plen += 1,
                            4 => plen = plen.saturating_sub(1),
                            5 => mlen = mlen.wrapping_add(self.rng.range(1, 400) as usize) & 0xffff,
                            6 => mlen = mlen.saturating_sub(1),
                            7 => plen = 400,
                            _ => {
                                fl |= 0x01;
                                mlen = self.rng.range(0, 60) as usize
                            }
                        }
                    }
                    let mut seg = hdr_bytes(fl, 0x6c, ack, seq, mlen as u16);
                    seg.extend((0..plen).map(|i| (i as u8).wrapping_mul(7).wrapping_add(seq)));
                    if bad && self.rng.chance(1, 6) {
                        let k = self.rng.below(seg.len() as u64 + 1) as usize;
                        seg.truncate(k);
                    }
                    alive = push(&b, &mut ops, format!("i:-:1:{}", hex(&seg)));
                    if read_state(&b)[11] as u8 != seq || bad {
                        // refused (or mangled): what the peer still owes is unknown to it too
                        peer_left = read_state(&b)[12] as usize;
                    }
                    self.count("hr_segment");
                } else if c < 55 {
                    // a stand-alone ack from the peer
                    let mut ack = last_sent;
                    if self.rng.below(100) < evil {
                        ack = ack.wrapping_sub(self.rng.range(1, 255) as u8);
                        self.count("hr_evil_ack");
                    }
                    let seg = hdr_bytes(0x08, 0, ack, exp_seq, 0);
                    alive = push(&b, &mut ops, format!("i:-:1:{}", hex(&seg)));
                } else if c < 80 {
                    let cap = if self.rng.chance(1, 25) { self.rng.below(8) } else { 512 };
                    let t = self.rng.chance(1, 3) as u8;
                    alive = push(&b, &mut ops, format!("o:-:{}:{}", t, cap));
                } else if c < 90 {
                    let l = match self.rng.below(8) {
                        0 => 0,
                        1 => 1233,
                        2 => 1232,
                        3 => 1,
                        _ => self.rng.range(1, 400),
                    };
                    let a = if self.rng.chance(1, 12) { self.rng.below(3) } else { 1 };
                    alive = push(&b, &mut ops, format!("s:{}:#{}.{}", a, l, self.rng.below(256)));
                } else if c < 98 {
                    let cap = if self.rng.chance(1, 10) { self.rng.below(40) } else { 2048 };
                    alive = push(&b, &mut ops, format!("r:{}", cap));
                } else {
                    let t = self.rng.pick(&["x", "I0", "I1", "L0", "L1"]).to_string();
                    alive = push(&b, &mut ops, t);
                    peer_left = 0;
                }
            }
            self.emit_e("hr", &ops);
        }
    }

    /// stream "hw": window and sequence wrap-around without the peer ever being acknowledged
    fn wrap_streams(&mut self) {
        for &ws in &[1u8, 2, 3, 79, 255] {
            for rehs in 0..2 {
                for polls in 0..3 {
                    let mut ops = vec![];
                    let b = Btp::new();
                    let mut seq = 0u8;
                    let mut n = 0;
                    'outer: for _round in 0..6 {
                        let t = format!("i:-:1:{}", hex(&hs_req(200, ws)));
                        let _ = apply(&b, &t);
                        ops.push(t);
                        if rehs == 1 {
                            seq = 0;
                        }
                        let _ = apply(&b, "o:-:0:512");
                        ops.push("o:-:0:512".into());
                        for _ in 0..90 {
                            let st = read_state(&b);
                            let s = if rehs == 1 { (st[11] as u8).wrapping_add(1) } else { seq };
                            // zero-length SDUs take no buffer space: only the window limits them
                            let mut seg = hdr_bytes(0x0d, 0, st[15] as u8, s, 0);
                            if n % 7 == 3 {
                                seg = hdr_bytes(0x05, 0, 0, s, 1);
                                seg.push(0x77);
                            }
                            let t = format!("i:-:1:{}", hex(&seg));
                            if apply(&b, &t).is_err() {
                                ops.push(t);
                                break 'outer;
                            }
                            ops.push(t);
                            seq = seq.wrapping_add(1);
                            n += 1;
                            if polls > 0 && n % (polls * 5) == 0 {
                                let _ = apply(&b, "r:2048");
                                ops.push("r:2048".into());
                                let _ = apply(&b, "o:-:1:512");
                                ops.push("o:-:1:512".into());
                            }
                        }
                    }
                    self.emit_e("hw", &ops);
                }
            }
        }
        // a conversation of > 600 segments in each direction with acks, one end against a scripted honest peer
        for &(mtu, ws) in &[(23u16, 4u8), (100, 15), (247, 6), (30, 2)] {
            let mut ops = vec![];
            let b = Btp::new();
            let go = |b: &Btp, ops: &mut Vec<String>, t: String| -> Option<Res> {
                let r = apply(b, &t).ok();
                ops.push(t);
                r
            };
            go(&b, &mut ops, format!("i:{}:1:{}", mtu, hex(&hs_req(mtu, ws))));
            go(&b, &mut ops, "o:-:0:512".into());
            for k in 0..330u32 {
                let st = read_state(&b);
                let seq = (st[11] as u8).wrapping_add(1);
                // the peer acknowledges everything it got so far and sends a one-segment SDU
                let mut seg = hdr_bytes(0x0d, 0, st[15] as u8, seq, 2);
                seg.extend_from_slice(&[k as u8, (k >> 8) as u8]);
                go(&b, &mut ops, format!("i:-:1:{}", hex(&seg)));
                go(&b, &mut ops, "r:2048".into());
                go(&b, &mut ops, format!("s:1:#{}.{}", 1 + (k % 40), k % 256));
                go(&b, &mut ops, "o:-:1:512".into());
                go(&b, &mut ops, "o:-:1:512".into());
            }
            self.emit_e("hw", &ops);
        }
    }

    /// stream "rb": the ring buffer on its own, including pushes beyond its capacity
    fn ring_cases(&mut self, n: u64) {
        for k in 0..n {
            let cap = *self.rng.pick(&[1u64, 2, 5, 16, 64, 3166]);
            let mut ops = vec![];
            let nops = self.rng.range(5, 60);
            for _ in 0..nops {
                match self.rng.below(10) {
                    0..=4 => {
                        let l = match self.rng.below(8) {
                            0 => 0,
                            1 => cap,
                            2 => cap + self.rng.below(4),
                            3 => self.rng.range(1, 2 * cap + 2),
                            _ => self.rng.range(1, cap.min(300)),
                        };
                        ops.push(format!("p#{}.{}", l, self.rng.below(256)));
                    }
                    5..=8 => {
                        let l = match self.rng.below(5) {
                            0 => 0,
                            1 => 1,
                            2 => cap + 1,
                            _ => self.rng.range(1, cap.min(300) + 1),
                        };
                        ops.push(format!("o{}", l));
                    }
                    _ => ops.push("c".into()),
                }
            }
            self.count("cases_rb");
            *self.stats.entry("ops_total".into()).or_insert(0) += ops.len() as u64;
            self.lines.push(format!("R rb{} {} {}", k, cap, ops.join(" ")));
        }
    }

    // -------------------------------------------------------------- two ends
    fn pair_case(&mut self, style: u64, target_ops: u64) {
        let ga = self.gatt_pick();
        let req_mtu = ga.map(|g| g.clamp(23, 247)).unwrap_or(23);
        let rel = self.rng.chance(1, 3);
        let gb = match self.rng.below(4) {
            0 => self.gatt_pick(),
            _ => Some(req_mtu),
        };
        let mut p = Pair::new(ga, gb, rel);
        let mut ops: Vec<String> = vec![];
        let mut dead = false;
        let go = |p: &mut Pair, ops: &mut Vec<String>, t: String, dead: &mut bool| {
            if !*dead && p.apply(&t).is_err() {
                *dead = true;
            }
            ops.push(t);
        };
        // an SDU may be queued before the handshake completes
        if self.rng.chance(1, 2) {
            go(&mut p, &mut ops, format!("sA:#{}.{}", self.rng.range(1, 300), self.rng.below(256)), &mut dead);
        }
        if self.rng.chance(1, 4) {
            go(&mut p, &mut ops, format!("sB:#{}.{}", self.rng.range(1, 300), self.rng.below(256)), &mut dead);
        }
        if style != 3 {
            go(&mut p, &mut ops, "pA:0".into(), &mut dead);
            if self.rng.chance(1, 2) {
                // a smaller proposed window (1..12), as a different initiator would send
                let w = if self.rng.chance(1, 2) { self.rng.range(1, 4) } else { self.rng.range(1, 12) };
                go(&mut p, &mut ops, format!("wB:{}", w), &mut dead);
            }
            for t in ["dB", "pB:0", "dA"] {
                go(&mut p, &mut ops, t.into(), &mut dead);
            }
        }
        let bias_a = self.rng.range(1, 9); // who talks more
        let lazy_fetch = self.rng.range(1, 6);
        let timer_pc = self.rng.range(0, 60);
        let mut burst: Option<(char, u64)> = None;
        while (ops.len() as u64) < target_ops && !dead {
            let mtu = read_state(&p.b)[3].max(20) as u64;
            let x = if self.rng.below(10) < bias_a { 'A' } else { 'B' };
            if style == 1 && burst.is_none() && self.rng.chance(1, 12) {
                burst = Some((x, self.rng.range(3, 90)));
            }
            if let Some((bx, left)) = burst {
                // one end's GATT task runs many times in a row
                go(&mut p, &mut ops, format!("p{}:{}", bx, (self.rng.below(100) < timer_pc) as u8), &mut dead);
                burst = if left > 1 { Some((bx, left - 1)) } else { None };
                continue;
            }
            match self.rng.below(20) {
                0..=2 => {
                    let l = match self.rng.below(12) {
                        0 => 0,
                        1 => 1233,
                        2 => 1232,
                        3 => 1,
                        4 => mtu - self.rng.below(7).min(mtu - 1),
                        5 => mtu + self.rng.below(3),
                        6 => 2 * mtu - self.rng.below(8),
                        7 => self.rng.range(600, 1232),
                        _ => self.rng.range(1, 4 * mtu),
                    };
                    go(&mut p, &mut ops, format!("s{}:#{}.{}", x, l, self.rng.below(256)), &mut dead);
                }
                3..=8 => go(&mut p, &mut ops, format!("p{}:{}", x, (self.rng.below(100) < timer_pc) as u8), &mut dead),
                9..=15 => go(&mut p, &mut ops, format!("d{}", x), &mut dead),
                _ => {
                    if self.rng.below(6) < lazy_fetch {
                        go(&mut p, &mut ops, format!("f{}", x), &mut dead)
                    }
                }
            }
        }
        // drain: everything submitted must come out
        if !dead && style != 2 {
            for _ in 0..40 {
                for t in ["pA:1", "pB:1", "dA", "dB", "fA", "fB", "dA", "dB"] {
                    go(&mut p, &mut ops, t.into(), &mut dead);
                }
            }
        }
        self.next_id += 1;
        self.count(&format!("cases_pair{style}"));
        *self.stats.entry("ops_total".into()).or_insert(0) += ops.len() as u64;
        let st = read_state(&p.b);
        *self.stats.entry(format!("pair_mtu_{}", st[3] / 50 * 50)).or_insert(0) += 1;
        *self.stats.entry(format!("pair_ws_{}", st[4] / 10 * 10)).or_insert(0) += 1;
        if read_state(&p.a)[15] < 40 && ops.len() > 1200 {
            self.count("pair_seq_wrapped_A");
        }
        self.lines.push(format!(
            "P p{}_{} {} {} {} {}",
            style,
            self.next_id,
            Self::g_str(ga),
            Self::g_str(gb),
            rel as u8,
            ops.join(" ")
        ));
    }
}

fn gen(tier: &str, seed: u64, outdir: &str) {
    rsm_harness::silence_panics();
    let mut g = Gen { rng: Rng::new(seed), lines: vec![], stats: BTreeMap::new(), next_id: 0 };
    let thorough = tier == "thorough";
    g.header_sweep(if thorough { 4 } else { 1 });
    g.handshake_sweep();
    g.wrap_streams();
    g.ring_cases(if thorough { 4000 } else { 600 });
    g.hostile_random(if thorough { 12000 } else { 2500 }, if thorough { 350 } else { 250 });
    let pairs = if thorough { 2400 } else { 400 };
    for k in 0..pairs {
        let style = k % 4;
        let target = match k % 5 {
            0 => 2500,
            1 => 900,
            _ => g.rng.range(60, 500),
        };
        g.pair_case(style, target);
    }
    let mut f = std::fs::File::create(format!("{outdir}/cases.txt")).unwrap();
    for l in &g.lines {
        writeln!(f, "{l}").unwrap();
    }
    let mut s = String::from("{");
    for (i, (k, v)) in g.stats.iter().enumerate() {
        if i > 0 {
            s.push(',');
        }
        write!(s, "\"{k}\":{v}").unwrap();
    }
    s.push('}');
    std::fs::write(format!("{outdir}/stats.json"), s).unwrap();
}

fn probe() {
    const PEER: u8 = 1;
    let show = |name: &str, ops: &[&str]| {
        let b = Btp::new();
        let mut line = String::new();
        for t in ops {
            match apply(&b, t) {
                Ok(r) => write!(line, " {}", r.show()).unwrap(),
                Err(p) => {
                    write!(line, " PANIC({})", p.lines().next().unwrap_or("")).unwrap();
                    break;
                }
            }
        }
        println!("{name}:{line}");
    };
    let _ = PEER;
    show("data-before-handshake", &["i:-:1:05000100aa"]);
    show("window-overrun", &["i:-:1:656c04000000c80002", "o:-:0:512", "i:-:1:05000000", "i:-:1:05010000", "i:-:1:05020000"]);
    show("bogus-ack", &["i:-:1:656c04000000c80005", "o:-:0:512", "i:-:1:08c800"]);
    show("handshake-window-0", &["i:-:1:656c04000000c80000", "o:-:0:512"]);
    show("handshake-req-mtu-2", &["i:2:1:656c04000000020005"]);
    show("handshake-req-mtu-3", &["i:3:1:656c04000000030005"]);
    show("handshake-req-relaxed-mtu-1", &["L1", "i:100:1:656c04000000010005"]);
    show("handshake-resp-mtu-3", &["I1", "o:-:0:512", "i:-:1:656c04030005", "s:1:0102030405060708", "o:-:0:512"]);
    show("ack-due-send-window-exhausted", &["i:-:1:656c04000000c80001", "o:-:0:512", "i:-:1:05000000", "o:-:0:512"]);
    show("stale-prefix-after-refusal", &["i:-:1:656c04000000c80005", "o:-:0:512", "i:-:1:050005000102030405060708090a", "i:-:1:050003000a0b0c", "r:64"]);
    show("ack-before-handshake-response", &["i:-:1:656c04000000c80005", "i:-:1:08fa00", "o:-:0:512"]);
    show("begin-in-the-middle", &["i:-:1:656c04000000c80005", "o:-:0:512", "i:-:1:0100150011111111111111111111111111111111", "i:-:1:050103000a0b0c", "r:64"]);
    // honest ends, 18 bytes at segment size 20
    let mut p = Pair::new(None, None, false);
    let mut line = String::new();
    for t in ["pA:0", "dB", "pB:0", "dA", "sA:#18.0", "pA:0", "pA:0", "dB", "dB", "fB"] {
        match p.apply(t) {
            Ok(r) => write!(line, " {}", r.show()).unwrap(),
            Err(_) => line.push_str(" PANIC"),
        }
    }
    println!("honest-len-18-segment-20:{line}");
    // honest ends, window 2: ack due while the send window is exhausted
    // (the proposed window is cut to 2 in flight, as another initiator would propose)
    let a = Btp::new();
    a.set_initiator(true);
    let b = Btp::new();
    let mut buf = [0u8; 512];
    let n = a.process_outgoing(None, &mut buf).unwrap();
    buf[8] = 2;
    b.process_incoming(None, addr(10), &buf[..n]).unwrap();
    let n = b.process_outgoing(None, &mut buf).unwrap();
    a.process_incoming(None, addr(11), &buf[..n]).unwrap();
    a.verif_send(&[1, 2, 3], addr(11)).unwrap();
    let n = a.process_outgoing(None, &mut buf).unwrap();
    b.process_incoming(None, addr(10), &buf[..n]).unwrap();
    b.verif_send(&[4, 5, 6], addr(10)).unwrap();
    let n = b.process_outgoing(None, &mut buf).unwrap();
    a.process_incoming(None, addr(11), &buf[..n]).unwrap();
    let mut m = [0u8; 64];
    b.verif_recv(&mut m).unwrap();
    let r = catch(AssertUnwindSafe(|| b.process_outgoing(None, &mut buf).map_err(|e| e.code())));
    println!("honest-window-2-ack-due-window-exhausted: {:?}", r.map_err(|p| format!("PANIC({})", p.lines().next().unwrap_or(""))));
}

fn main() {
    let args: Vec<String> = std::env::args().collect();
    match args.get(1).map(|s| s.as_str()) {
        Some("gen") => gen(&args[2], args[3].parse().unwrap(), &args[4]),
        Some("run") => {
            rsm_harness::silence_panics();
            let text = std::fs::read_to_string(&args[2]).unwrap();
            let stdout = std::io::stdout();
            let mut w = std::io::BufWriter::new(stdout.lock());
            let mut out = String::new();
            for line in text.lines().filter(|l| !l.is_empty()) {
                out.clear();
                run_line(line, &mut out);
                w.write_all(out.as_bytes()).unwrap();
            }
        }
        Some("probe") => {
            rsm_harness::silence_panics();
            probe()
        }
        _ => {
            eprintln!("usage: c18 gen <quick|thorough> <seed> <outdir> | run <cases> | probe");
            std::process::exit(2);
        }
    }
}
