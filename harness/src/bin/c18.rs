//! C18 probe (temporary)
use rs_matter::transport::network::btp::Btp;
use rs_matter::transport::network::BtAddr;
use rsm_harness::catch;

const PEER: BtAddr = BtAddr([1, 2, 3, 4, 5, 6]);

fn show(name: &str, f: impl FnOnce() -> String + std::panic::UnwindSafe) {
    match catch(f) {
        Ok(s) => println!("{name}: {s}"),
        Err(p) => println!("{name}: PANIC {p}"),
    }
}

fn hs(btp: &Btp, w: u8) {
    btp.process_incoming(None, PEER, &[0x65, 0x6c, 0x04, 0, 0, 0, 0xc8, 0, w])
        .unwrap();
    let mut buf = [0u8; 512];
    let n = btp.process_outgoing(None, &mut buf).unwrap();
    assert!(n > 0);
}

fn main() {
    rsm_harness::silence_panics();
    // 1. data before the handshake: recv level 0 - 1
    show("data-before-handshake", || {
        let btp = Btp::new();
        format!("{:?}", btp.process_incoming(None, PEER, &[0x05, 0x00, 0x01, 0x00, 0xaa]).map_err(|e| e.code()))
    });
    // 2. window overrun by one
    show("window-overrun", || {
        let btp = Btp::new();
        hs(&btp, 2);
        let mut r = vec![];
        for seq in 0..3u8 {
            r.push(format!("{:?}", btp.process_incoming(None, PEER, &[0x05, seq, 0x00, 0x00]).map_err(|e| e.code())));
        }
        r.join(",")
    });
    // 3. ack of something never sent
    show("bogus-ack", || {
        let btp = Btp::new();
        hs(&btp, 5);
        format!("{:?}", btp.process_incoming(None, PEER, &[0x08, 200, 0x00]).map_err(|e| e.code()))
    });
    // 4. handshake request with window 0
    show("handshake-window-0", || {
        let btp = Btp::new();
        btp.process_incoming(None, PEER, &[0x65, 0x6c, 0x04, 0, 0, 0, 0xc8, 0, 0]).unwrap();
        let mut buf = [0u8; 512];
        format!("{:?}", btp.process_outgoing(None, &mut buf).map_err(|e| e.code()))
    });
    // 5. handshake request, gatt mtu == requested mtu == 2
    show("handshake-req-mtu-2", || {
        let btp = Btp::new();
        format!("{:?}", btp.process_incoming(Some(2), PEER, &[0x65, 0x6c, 0x04, 0, 0, 0, 2, 0, 5]).map_err(|e| e.code()))
    });
    show("handshake-req-mtu-3", || {
        let btp = Btp::new();
        format!("{:?}", btp.process_incoming(Some(3), PEER, &[0x65, 0x6c, 0x04, 0, 0, 0, 3, 0, 5]).map_err(|e| e.code()))
    });
    show("handshake-req-relaxed-mtu-1", || {
        let btp = Btp::new();
        btp.set_relaxed_mtu_nego(true);
        format!("{:?}", btp.process_incoming(Some(100), PEER, &[0x65, 0x6c, 0x04, 0, 0, 0, 1, 0, 5]).map_err(|e| e.code()))
    });
    // 6. initiator: handshake response with mtu 3 then send
    show("handshake-resp-mtu-3", || {
        let btp = Btp::new();
        btp.set_initiator(true);
        let mut buf = [0u8; 512];
        btp.process_outgoing(None, &mut buf).unwrap();
        btp.process_incoming(None, PEER, &[0x65, 0x6c, 0x04, 3, 0, 5]).unwrap();
        btp.verif_send(&[1, 2, 3, 4, 5, 6, 7, 8], PEER).unwrap();
        format!("{:?}", btp.process_outgoing(None, &mut buf).map_err(|e| e.code()))
    });
    // 7. window 1: ack due while the send window is exhausted -> assert!(len > 0)
    show("ack-due-send-window-exhausted", || {
        let btp = Btp::new();
        hs(&btp, 1);
        btp.process_incoming(None, PEER, &[0x05, 0x00, 0x00, 0x00]).unwrap();
        let mut buf = [0u8; 512];
        format!("{:?}", btp.process_outgoing(None, &mut buf).map_err(|e| e.code()))
    });
    // 8. honest message of 18 bytes at segment size 20
    show("honest-len-18-mtu-20", || {
        let a = Btp::new();
        a.set_initiator(true);
        let b = Btp::new();
        let mut buf = [0u8; 512];
        let n = a.process_outgoing(None, &mut buf).unwrap();
        b.process_incoming(None, PEER, &buf[..n]).unwrap();
        let n = b.process_outgoing(None, &mut buf).unwrap();
        a.process_incoming(None, PEER, &buf[..n]).unwrap();
        a.verif_send(&[7u8; 18], PEER).unwrap();
        let mut r = vec![];
        loop {
            let n = a.process_outgoing(None, &mut buf).unwrap();
            if n == 0 {
                break;
            }
            r.push(format!("{:?}", b.process_incoming(None, PEER, &buf[..n]).map_err(|e| e.code())));
        }
        r.join(",")
    });
    // 9. refused segment leaves a stale length prefix behind
    show("stale-prefix-after-refusal", || {
        let btp = Btp::new();
        hs(&btp, 5);
        let r1 = btp.process_incoming(None, PEER, &[0x05, 0, 5, 0, 1, 2, 3, 4, 5, 6, 7, 8, 9, 10]).map_err(|e| e.code());
        let r2 = btp.process_incoming(None, PEER, &[0x05, 0, 3, 0, 0xa, 0xb, 0xc]).map_err(|e| e.code());
        let mut out = [0u8; 64];
        let m = btp.verif_recv(&mut out).map(|o| o.map(|(n, _)| out[..n].to_vec())).map_err(|e| e.code());
        format!("{:?} {:?} fetched={:?}", r1, r2, m)
    });
    // 10. a new SDU begins in the middle of another one
    show("begin-in-the-middle", || {
        let btp = Btp::new();
        hs(&btp, 5);
        let mut s1 = vec![0x01, 0, 21, 0];
        s1.extend_from_slice(&[0x11; 16]);
        let r1 = btp.process_incoming(None, PEER, &s1).map_err(|e| e.code());
        let r2 = btp.process_incoming(None, PEER, &[0x05, 1, 3, 0, 0xa, 0xb, 0xc]).map_err(|e| e.code());
        let mut out = [0u8; 64];
        let m = btp.verif_recv(&mut out).map(|o| o.map(|(n, _)| out[..n].to_vec())).map_err(|e| e.code());
        format!("{:?} {:?} fetched={:?}", r1, r2, m)
    });
    // 11. repeated handshake keeps ack_level: 80 empty SDUs, handshake, ...
    show("re-handshake-ack-level", || {
        let btp = Btp::new();
        let mut seq = 0u8;
        for _round in 0..5 {
            btp.process_incoming(None, PEER, &[0x65, 0x6c, 0x04, 0, 0, 0, 0xc8, 0, 255]).unwrap();
            let st = btp.verif_state();
            for _ in 0..st[9] {
                btp.process_incoming(None, PEER, &[0x05, seq, 0, 0]).unwrap();
                seq = seq.wrapping_add(1);
            }
        }
        format!("{:?}", btp.verif_state())
    });
}
