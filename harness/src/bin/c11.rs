//! C11 correspondence harness: persisted state survives a crash at any point and reloads to
//! what was committed.
//!
//! usage: c11 gen <quick|thorough> <seed> <outdir>   -> cases.txt (+ stats.json)
//!        c11 run <cases-file>                        -> one canonical line per case from the REAL code
//!
//! `S` cases drive a real device (`Matter` + `InteractionModel` + Wi-Fi root endpoint + an
//! application endpoint with Binding and UserLabel) through real Interaction Model invokes and
//! writes sent by a controller `Matter` over an in-memory network (technique of c08.rs: preset
//! PASE / CASE sessions, real certificates), over a recording `e2e::MemKv`.  After the history
//! a FRESH device is started from EVERY prefix of the recorded key-value log and its state is
//! printed, next to the state the live device had after every operation and the position in
//! the log at which each answer left the device.
//!
//! Case line:   S <id> <f><p> <op>,<op>,...        f = committed fabrics at the start (0..2), p = PASE session (0/1)
//!          or  S <id> i<idx>+<idx>..:<p> <op>,...   committed fabrics at these local indexes (1..254)
//! sessions s: p = PASE, 1..254 = CASE session of the administrator on that fabric index
//!   A<s>:<t>     ArmFailSafe(t seconds)                  E        fail-safe timer expiry
//!   K<s>:<nid>   CSRRequest + AddTrustedRootCertificate(next unused root) + AddNOC(node id)
//!   u<s>:<nid>   CSRRequest(update) + UpdateNOC(node id)
//!   W<s>:<k>     AddOrUpdateWiFiNetwork(ssid k)          Z<s>     CommissioningComplete
//!   L<s>:<k>     ACL := [admin, view(subject k)]         G<s>:<k> GroupKeyMap := [(group k, key set 1)] (k = 0: [])
//!   F<s>:<k>     UpdateFabricLabel("lab<k>")             V<s>:<k> SetVIDVerificationStatement(vendor id k)
//!   B<s>:<k>     Binding (endpoint 1) := [node k, endpoint 1] (k = 0: [])
//!   U<s>:<k>     UserLabel (endpoint 1) := [("k<k>","v<k>")] N<s>:<k> NodeLabel := "n<k>"
//!   O<s>:<k>     Location := two letters of k            Y<s>:<k> SetRegulatoryConfig(k % 3, country of k)
//!   X<s>:<f>     RemoveFabric(f)
//!   <op>~<j>     the operation cut by a power loss after its j-th key-value operation, then restart (the history goes on)
//!   H:<f>:<p>    a CASE handshake leaves a resumption record (fabric f, peer p) in memory
//!   J            the debounced task flushes the resumption cache
//!   !            factory reset (Matter::factory_reset + InteractionModel::factory_reset)
//!   P            new PASE session                        Q        power loss + restart
//!
//! Output: S <id> <op-record>;...;<op-record> # <cut-record>;...
//!   op-record  = <status>|<kv ops>|<ack>|<fs>|<end>|<cells>|<kind>|<inc>     (live device after the operation)
//!       kv ops = s<key> / r<key> of this operation, in order (event epoch and group counter keys are C12's: left out);
//!                a factory reset prints `reset:<removes>:<keys left>`
//!       ack    = how many of these had been issued when the answer left the device (`-`: no answer)
//!       fs     = i | a<fabric>:<noc flag>
//!       cells  = ... R=<resumption cache in memory> ... K=<resumption cache as STORED: - absent, 0 empty, ! unreadable>
//!                S=<subscription table in memory> M=<subscription slots as STORED: <slot>:<fabric>.<tag>>
//!       end, kind, inc[/<f>.<peer>]: log length so far, kind of the operation (`x`: cut by `~j`, the kv ops are the j that
//!                made it plus those of the start-up), and - not compared with the model, input of the monitor - which
//!                commissioning each fabric index stands for (`<idx>.<n>+..`) and the session an `H` / subscription a `D` established
//!   cut-record = <n>|<boot>|<cells>    a fresh device started from the first n key-value operations
//! Other kinds: R (round trips up to capacity), C (corrupt resumption blobs), K (key census),
//! I (corrupt blobs of the other structures: informative).
use core::num::NonZeroU8;
use std::cell::RefCell;
use std::collections::BTreeMap;
use std::fmt::Write as _;
use std::io::Write as _;
use std::rc::Rc;

use embassy_futures::select::{select, select3, Either};

use rs_matter::acl::{AclEntry, AuthMode, Target};
use rs_matter::cert::gen::VALID_FOREVER;
use rs_matter::cert::MAX_CERT_TLV_AND_ASN1_LEN;
use rs_matter::crypto::{test_only_crypto, CanonAeadKey, CanonPkcSecretKey, Crypto, SecretKey, SigningSecretKey};
use rs_matter::dm::clusters::basic_info::BasicInfoSettings;
use rs_matter::dm::clusters::binding::{self, BindingHandler, Bindings};
use rs_matter::dm::clusters::desc::{self, ClusterHandler as _};
use rs_matter::dm::clusters::net_comm::{NetworkType, Networks, NetworksAccess, WirelessCreds};
use rs_matter::dm::clusters::icd_mgmt::{self, ClusterHandler as _};
use rs_matter::dm::clusters::ota_req::{self, ClusterHandler as _};
use rs_matter::dm::clusters::scenes::{self, ClusterAsyncHandler as _};
use rs_matter::dm::clusters::time_sync::{self, ClusterHandler as _, TimeZones as _};
use rs_matter::dm::clusters::user_label::{self, UserLabelHandler, UserLabels};
use rs_matter::dm::devices::DEV_TYPE_ON_OFF_LIGHT_SWITCH;
use rs_matter::dm::endpoints;
use rs_matter::dm::networks::wireless::{NoopWirelessNetCtl, WifiNetworks};
use rs_matter::dm::{Async, Dataver, Endpoint, EpClMatcher, Node, Privilege};
use rs_matter::error::Error;
use rs_matter::fabric::{Fabric, FabricPersist, Fabrics};
use rs_matter::im::client::{ImClient, SubscribeOutcome, TxOutcome};
use rs_matter::im::{AttrPath, CmdResp, GenericPath, IMStatusCode, InteractionModel, InteractionModelState};
use rs_matter::onboard::cac::RcacGenerator;
use rs_matter::onboard::noc::NocGenerator;
use rs_matter::persist::{
    KvBlobStoreAccess, BASIC_INFO_KEY, BINDINGS_KEY, CASE_RESUMPTION_KEY, EVENT_EPOCH_KEY,
    GROUP_DATA_COUNTER_KEY, NETWORKS_KEY, PERSISTENT_SUBSCRIPTIONS_START, USER_LABELS_KEY,
};
use rs_matter::respond::Responder;
use rs_matter::sc::case::{ResumableSession, ResumableSessions, MAX_RESUMPTION_RECORDS};
use rs_matter::tlv::{FromTLV, OctetStr, TLVElement, TLVTag, TLVWrite, ToTLV};
use rs_matter::transport::exchange::{Exchange, MatterBuffers};
use rs_matter::transport::network::{Address, NetworkSend, NoNetwork};
use rs_matter::transport::session::{ReservedSession, SessionMode};
use rs_matter::utils::select::Coalesce;
use rs_matter::utils::storage::WriteBuf;
use rs_matter::{clusters, devices, root_endpoint, Matter};

use rsm_harness::e2e::{self, KvOp, MemKv, Net};
use rsm_harness::Rng;

const DEV: u16 = 1;
const CTL: u16 = 2;
const ADMIN: u64 = 0x1111;
const DEV_NODE: u64 = 0x2222;
const VENDOR: u16 = 0xFFF1;
const MAX_NETS: usize = 3;
const IPK: [u8; 16] = [7; 16];
const NROOTS: usize = 10;
const APP_EP: u16 = 1;
const MAX_BINDINGS: usize = 8;
const LABEL_EPS: usize = 2;
const LABELS_PER_EP: usize = 4;
const MAX_SCENES: usize = 16;
const ICD_CLIENT: u64 = 500;

const CL_GENCOMM: u32 = 0x30;
const CL_NETCOMM: u32 = 0x31;
const CL_NOC: u32 = 0x3E;
const CL_ACL: u32 = 0x1F;
const CL_GKM: u32 = 0x3F;
const CL_BASIC: u32 = 0x28;
const CL_BINDING: u32 = 0x1E;
const CL_ULABEL: u32 = 0x41;
const CL_TIMESYNC: u32 = 0x38;
const CL_ICD: u32 = 0x46;
const CL_OTA: u32 = 0x2A;
const CL_SCENES: u32 = 0x62;

type Nets = WifiNetworks<MAX_NETS>;
type DevState = InteractionModelState<Nets>;
type Labels = UserLabels<LABEL_EPS, LABELS_PER_EP>;
type Binds = Bindings<MAX_BINDINGS>;

// ------------------------------------------------------------------ key classes

/// keys whose values belong to property C12 (durable counters): carried along, not compared
fn foreign_key(key: u16) -> bool {
    key == EVENT_EPOCH_KEY || key == GROUP_DATA_COUNTER_KEY
}

fn op_key(op: &KvOp) -> u16 {
    match op {
        KvOp::Store(k, _) | KvOp::Remove(k) | KvOp::StoreFailed(k) => *k,
    }
}

/// number of in-scope operations in the log
fn scoped_len(log: &[KvOp]) -> usize {
    log.iter().filter(|o| !foreign_key(op_key(o))).count()
}

/// the length of the shortest prefix of `log` that contains `n` in-scope operations and every
/// foreign operation issued before the next in-scope one
fn full_prefix_len(log: &[KvOp], n: usize) -> usize {
    let mut seen = 0usize;
    let mut cut = 0usize;
    for (i, o) in log.iter().enumerate() {
        if !foreign_key(op_key(o)) {
            if seen == n {
                return cut;
            }
            seen += 1;
        }
        cut = i + 1;
    }
    cut
}

// ------------------------------------------------------------------ device -> controller datagram marks

/// Wraps the device's sending half: records, for every datagram the device hands to the
/// network, how many in-scope key-value operations had been issued at that moment.
struct MarkSend {
    inner: e2e::NetSend,
    kv: MemKv,
    marks: Rc<RefCell<Vec<usize>>>,
}

impl NetworkSend for MarkSend {
    async fn send_to(&mut self, data: &[u8], addr: Address) -> Result<(), Error> {
        self.marks.borrow_mut().push(scoped_len(&self.kv.log()));
        self.inner.send_to(data, addr).await
    }
}

// ------------------------------------------------------------------ certificate material (once per process)

struct Root {
    privkey: CanonPkcSecretKey,
    cert: Vec<u8>,
}

struct Base {
    roots: Vec<Root>,
    /// persisted blobs of the commissioned fabrics 1 and 2 (roots 0 and 1)
    fab_blobs: Vec<Vec<u8>>,
}

fn make_base() -> Base {
    let crypto = test_only_crypto();
    let mut roots = Vec::new();
    for r in 0..NROOTS as u64 {
        let mut buf = vec![0u8; MAX_CERT_TLV_AND_ASN1_LEN];
        let mut g = RcacGenerator::new(&mut buf);
        let (privkey, cert) = g.generate(&crypto, 10 + r, VALID_FOREVER).unwrap();
        let cert = cert.to_vec();
        roots.push(Root { privkey, cert });
    }
    let matter = e2e::new_matter(e2e::dev_det(None, None), false);
    let kv = MemKv::new();
    for r in 0..2usize {
        let sk = crypto.generate_secret_key().unwrap();
        let mut csr_buf = [0u8; 256];
        let csr = sk.csr(&mut csr_buf).unwrap();
        let mut sk_canon = CanonPkcSecretKey::new();
        sk.write_canon(&mut sk_canon).unwrap();
        let mut noc_buf = vec![0u8; MAX_CERT_TLV_AND_ASN1_LEN];
        let mut ng = NocGenerator::create(roots[r].privkey.reference(), &roots[r].cert, &[], &mut noc_buf).unwrap();
        let noc = ng.generate(&crypto, csr, DEV_NODE + r as u64, &[], VALID_FOREVER).unwrap().to_vec();
        let mut ipk = CanonAeadKey::new();
        ipk.access_mut().copy_from_slice(&IPK);
        let access = matter.kv(kv.clone());
        matter.with_state(|state| {
            let fabric = state
                .fabrics
                .add(&crypto, sk_canon.reference(), &roots[r].cert, &noc, &[], Some(ipk.reference()), VENDOR, ADMIN)
                .unwrap();
            let mut p = FabricPersist::new(&access);
            p.store(fabric).unwrap();
            p.run().unwrap();
        });
    }
    let blobs = kv.blobs();
    let fab_blobs = vec![blobs[&1].clone(), blobs[&2].clone()];
    Base { roots, fab_blobs }
}

fn ssid(k: u64) -> Vec<u8> {
    format!("net{}", k).into_bytes()
}

fn ssid_num(id: &[u8]) -> String {
    let s = String::from_utf8_lossy(id);
    s.strip_prefix("net").unwrap_or(&s).to_string()
}

fn two_letters(k: u64) -> String {
    let a = (b'A' + (k % 26) as u8) as char;
    let b = (b'A' + ((k / 26) % 26) as u8) as char;
    format!("{}{}", a, b)
}

fn letters_num(s: &str) -> String {
    let b = s.as_bytes();
    if b.len() == 2 && b[0].is_ascii_uppercase() && b[1].is_ascii_uppercase() {
        ((b[0] - b'A') as u64 + 26 * (b[1] - b'A') as u64).to_string()
    } else {
        format!("?{}", s)
    }
}

// ------------------------------------------------------------------ case description

#[derive(Clone, Copy, Debug, PartialEq, Eq)]
enum Sess {
    P,
    C(u8),
}

#[derive(Clone, Debug)]
enum Op {
    Arm(Sess, u16),
    Expire,
    AddNoc(Sess, u64),
    UpdNoc(Sess, u64),
    NetAdd(Sess, u64),
    Complete(Sess),
    Acl(Sess, u64),
    Gkm(Sess, u64),
    Label(Sess, u64),
    Vid(Sess, u64),
    Bind(Sess, u64),
    ULabel(Sess, u64),
    NodeLabel(Sess, u64),
    Location(Sess, u64),
    Reg(Sess, u64),
    Remove(Sess, u8),
    /// the operation, cut by a power loss after so many of its key-value operations
    Cut(Box<Op>, usize),
    Tz(Sess, u64),
    Tts(Sess, u64),
    Icd(Sess, u64),
    Ota(Sess, u64),
    Scene(Sess, u64),
    Subscribe(Sess, u64),
    Resume(u8, u64),
    Flush,
    Reset,
    NewPase,
    Crash,
}

/// the session of an operation token: `p`, or the fabric index (one or more digits) of a CASE session;
/// returns it with the rest of the token (the arguments, without the leading `:`)
fn parse_sess(t: &str) -> (Sess, &str) {
    let body = &t[1..];
    let (s, rest) = if let Some(r) = body.strip_prefix('p') {
        (Sess::P, r)
    } else {
        let n = body.chars().take_while(|c| c.is_ascii_digit()).count();
        (Sess::C(body[..n].parse().unwrap()), &body[n..])
    };
    (s, rest.strip_prefix(':').unwrap_or(rest))
}

fn parse_op(t: &str) -> Op {
    if let Some((inner, j)) = t.split_once('~') {
        return Op::Cut(Box::new(parse_op(inner)), j.parse().unwrap());
    }
    let kind = t.chars().next().unwrap();
    match kind {
        'E' => return Op::Expire,
        'J' => return Op::Flush,
        '!' => return Op::Reset,
        'P' => return Op::NewPase,
        'Q' => return Op::Crash,
        'H' => {
            let r: Vec<&str> = t[2..].split(':').collect();
            return Op::Resume(r[0].parse().unwrap(), r[1].parse().unwrap());
        }
        _ => {}
    }
    let (s, args) = parse_sess(t);
    let rest: Vec<&str> = if args.is_empty() { vec![] } else { args.split(':').collect() };
    let n = |i: usize| -> u64 { rest[i].parse().unwrap() };
    match kind {
        'A' => Op::Arm(s, n(0) as u16),
        'K' => Op::AddNoc(s, n(0)),
        'u' => Op::UpdNoc(s, n(0)),
        'W' => Op::NetAdd(s, n(0)),
        'Z' => Op::Complete(s),
        'L' => Op::Acl(s, n(0)),
        'G' => Op::Gkm(s, n(0)),
        'F' => Op::Label(s, n(0)),
        'V' => Op::Vid(s, n(0)),
        'B' => Op::Bind(s, n(0)),
        'U' => Op::ULabel(s, n(0)),
        'N' => Op::NodeLabel(s, n(0)),
        'O' => Op::Location(s, n(0)),
        'Y' => Op::Reg(s, n(0)),
        'X' => Op::Remove(s, n(0) as u8),
        'T' => Op::Tz(s, n(0)),
        't' => Op::Tts(s, n(0)),
        'I' => Op::Icd(s, n(0)),
        'o' => Op::Ota(s, n(0)),
        's' => Op::Scene(s, n(0)),
        'D' => Op::Subscribe(s, n(0)),
        _ => panic!("bad op {}", t),
    }
}

fn op_kind(op: &Op) -> char {
    match op {
        Op::Arm(..) => 'A',
        Op::Expire => 'E',
        Op::AddNoc(..) => 'K',
        Op::UpdNoc(..) => 'u',
        Op::NetAdd(..) => 'W',
        Op::Complete(..) => 'Z',
        Op::Acl(..) => 'L',
        Op::Gkm(..) => 'G',
        Op::Label(..) => 'F',
        Op::Vid(..) => 'V',
        Op::Bind(..) => 'B',
        Op::ULabel(..) => 'U',
        Op::NodeLabel(..) => 'N',
        Op::Location(..) => 'O',
        Op::Reg(..) => 'Y',
        Op::Remove(..) => 'X',
        Op::Cut(..) => 'x',
        Op::Tz(..) => 'T',
        Op::Tts(..) => 't',
        Op::Icd(..) => 'I',
        Op::Ota(..) => 'o',
        Op::Scene(..) => 's',
        Op::Subscribe(..) => 'D',
        Op::Resume(..) => 'H',
        Op::Flush => 'J',
        Op::Reset => '!',
        Op::NewPase => 'P',
        Op::Crash => 'Q',
    }
}

fn op_sess(op: &Op) -> Option<Sess> {
    if let Op::Cut(inner, _) = op {
        return op_sess(inner);
    }
    match op {
        Op::Arm(s, ..)
        | Op::AddNoc(s, ..)
        | Op::UpdNoc(s, ..)
        | Op::NetAdd(s, ..)
        | Op::Complete(s)
        | Op::Acl(s, ..)
        | Op::Gkm(s, ..)
        | Op::Label(s, ..)
        | Op::Vid(s, ..)
        | Op::Bind(s, ..)
        | Op::ULabel(s, ..)
        | Op::NodeLabel(s, ..)
        | Op::Location(s, ..)
        | Op::Reg(s, ..)
        | Op::Remove(s, ..)
        | Op::Tz(s, ..)
        | Op::Tts(s, ..)
        | Op::Icd(s, ..)
        | Op::Ota(s, ..)
        | Op::Scene(s, ..)
        | Op::Subscribe(s, ..) => Some(*s),
        _ => None,
    }
}

// ------------------------------------------------------------------ sessions (as c08.rs)

fn sess_ids(s: Sess, pase_gen: u16) -> (u16, u16) {
    match s {
        Sess::P => (40 + pase_gen, 140 + pase_gen),
        Sess::C(f) => (1000 + f as u16, 2000 + f as u16),
    }
}

fn remove_by_local_id(m: &Matter<'_>, local_id: u16) {
    m.with_state(|state| {
        let ids: Vec<u32> = state
            .verif_sessions()
            .iter()
            .filter(|s| s.get_local_sess_id() == local_id)
            .map(|s| s.id())
            .collect();
        for id in ids {
            state.verif_sessions().remove(id);
        }
    });
}

fn preset(m: &Matter<'_>, local_node: u64, peer_node: u64, local_id: u16, peer_id: u16, peer: u16, mode: SessionMode) {
    let crypto = test_only_crypto();
    let mut session = ReservedSession::reserve_now(m, &crypto).unwrap();
    session
        .update(local_node, peer_node, peer_id, local_id, e2e::node_addr(peer), mode, None, None, None, None)
        .unwrap();
    session.complete();
}

fn install(dev: &Matter<'_>, ctl: &Matter<'_>, s: Sess, pase_gen: u16) {
    let (d, c) = sess_ids(s, pase_gen);
    remove_by_local_id(dev, d);
    remove_by_local_id(ctl, c);
    let mode = || match s {
        Sess::P => SessionMode::Pase { fab_idx: 0 },
        Sess::C(f) => SessionMode::Case { fab_idx: NonZeroU8::new(f).unwrap(), cat_ids: Default::default() },
    };
    preset(dev, DEV_NODE, ADMIN, d, c, CTL, mode());
    preset(ctl, ADMIN, DEV_NODE, c, d, DEV, mode());
}

/// the device-side session of slot `s` is there and usable
fn dev_session_live(dev: &Matter<'_>, s: Sess, pase_gen: u16) -> bool {
    let (d, _) = sess_ids(s, pase_gen);
    dev.with_state(|state| {
        state
            .verif_sessions()
            .iter()
            .find(|x| x.get_local_sess_id() == d)
            .map(|x| !x.verif_snapshot().expired)
            .unwrap_or(false)
    })
}

fn ctl_session_id(ctl: &Matter<'_>, s: Sess, pase_gen: u16) -> Option<u32> {
    let (_, c) = sess_ids(s, pase_gen);
    ctl.with_state(|state| state.verif_sessions().iter().find(|x| x.get_local_sess_id() == c).map(|x| x.id()))
}

// ------------------------------------------------------------------ canonical state (cells)

fn fabric_cell(f: &Fabric) -> String {
    format!(
        "F{}={}:{}:{}:{}:{}",
        f.fab_idx().get(),
        f.node_id(),
        f.vendor_id(),
        string_tok(f.label(), "lab", 32),
        acl_token(f),
        gkm_token(f)
    )
}

fn fabrics_cells(fabrics: &Fabrics) -> Vec<String> {
    let mut v: Vec<(u8, String)> = fabrics.iter().map(|f| (f.fab_idx().get(), fabric_cell(f))).collect();
    v.sort();
    v.into_iter().map(|x| x.1).collect()
}

fn basic_cell(b: &BasicInfoSettings) -> String {
    format!(
        "I={}/{}/{}",
        string_tok(b.node_label.as_str(), "n", 32),
        b.location.as_ref().map(|l| letters_num(l.as_str())).unwrap_or_else(|| "-".into()),
        b.location_type.map(|t| (t as u8).to_string()).unwrap_or_else(|| "-".into())
    )
}

fn resumption_cell(r: &ResumableSessions) -> String {
    let v: Vec<String> = r.iter().map(|x| format!("{}.{}", x.fab_idx.get(), x.peer_nodeid)).collect();
    format!("R={}", if v.is_empty() { "-".to_string() } else { v.join("+") })
}

fn labels_cell(l: &Labels) -> String {
    format!("U={}", labels_tokens(l))
}

fn bindings_cell(b: &Binds) -> String {
    format!("D={}", bindings_tokens(b))
}

fn nets_cell(st: &DevState) -> String {
    let nets = st.networks().access(|n| {
        let mut ids = Vec::new();
        n.networks(&mut |id| {
            ids.push(ssid_num(id));
            Ok(())
        })?;
        Ok::<_, Error>(format!("{}:{}", n.managed()? as u8, if ids.is_empty() { "-".to_string() } else { ids.join("+") }))
    });
    format!("W={}", nets.unwrap_or_else(|_| "err".into()))
}

fn subs_cell(subs: &[(u32, u8, u64, u16)]) -> String {
    let v: Vec<String> = subs.iter().map(|(_, fab, peer, tag)| format!("{}.{}{}", fab, tag, if *peer == ADMIN { "" } else { "?" })).collect();
    format!("S={}", if v.is_empty() { "-".to_string() } else { v.join("+") })
}

/// the resumption cache as it is in the STORE: `-` no blob, `0` a blob without records, `!` a blob that does not parse
fn stored_cache_cell(kv: &MemKv) -> String {
    let s = match kv.blobs().get(&CASE_RESUMPTION_KEY) {
        None => "-".to_string(),
        Some(b) => match rs_matter::utils::storage::Vec::<ResumableSession, MAX_RESUMPTION_RECORDS>::from_tlv(&TLVElement::new(b)) {
            Ok(v) if v.is_empty() => "0".to_string(),
            Ok(v) => v.iter().map(|x| format!("{}.{}", x.fab_idx.get(), x.peer_nodeid)).collect::<Vec<_>>().join("+"),
            Err(_) => "!".to_string(),
        },
    };
    format!("K={}", s)
}

/// the subscription slots as they are in the STORE: `<slot>:<fabric>.<tag>` in slot order (`!`: a record that does not parse)
fn stored_subs_cell(kv: &MemKv) -> String {
    let blobs = kv.blobs();
    let mut v: Vec<String> = Vec::new();
    for slot in 0..2048u16 {
        if let Some(b) = blobs.get(&(PERSISTENT_SUBSCRIPTIONS_START + slot)) {
            // PersistedSubscription is private: fab_idx, peer_node_id, min_int_secs, ... under the context tags 0, 1, 2
            let rec = (|| -> Result<(u8, u64, u16), rs_matter::error::Error> {
                let seq = TLVElement::new(b).structure()?;
                Ok((seq.find_ctx(0)?.u8()?, seq.find_ctx(1)?.u64()?, seq.find_ctx(2)?.u16()?))
            })();
            v.push(match rec {
                Ok((f, peer, tag)) => format!("{}:{}.{}{}", slot, f, tag, if peer == ADMIN { "" } else { "?" }),
                Err(_) => format!("{}:!", slot),
            });
        }
    }
    format!("M={}", if v.is_empty() { "-".to_string() } else { v.join("+") })
}

fn cells(dev: &Matter<'_>, st: &DevState, app: &App, subs: &[(u32, u8, u64, u16)], kv: &MemKv) -> String {
    let mut v: Vec<String> = Vec::new();
    dev.with_state(|state| {
        v.extend(fabrics_cells(&state.fabrics));
        v.push(basic_cell(state.verif_basic_info()));
        v.push(resumption_cell(&state.resumption));
    });
    v.push(nets_cell(st));
    v.push(labels_cell(&app.labels));
    v.push(bindings_cell(&app.binds));
    v.push(format!("Z={}", tz_token(&app.tz)));
    v.push(format!(
        "T={}",
        dev.with_rtc(|rtc| rtc.trusted_time_source())
            .map(|t| format!("{}.{}{}", t.fab_idx.get(), t.node_id, if t.endpoint == 1 { "" } else { "?" }))
            .unwrap_or_else(|| "-".into())
    ));
    v.push(format!("C={}", icd_tokens(&app.icd)));
    v.push(format!("P={}", ota_tokens(&app.providers)));
    v.push(format!("E={}", scenes_tokens(&app.scenes)));
    v.push(subs_cell(subs));
    v.push(stored_cache_cell(kv));
    v.push(stored_subs_cell(kv));
    v.join(" ")
}

fn fs_str(dev: &Matter<'_>) -> String {
    dev.with_state(|state| match state.verif_failsafe().verif_snapshot() {
        None => "i".to_string(),
        // flags: ADD_NOC_RECVD = 0x08, UPDATE_NOC_RECVD = 0x10
        Some((fab, flags, _t)) => format!("a{}:{}", fab, ((flags & 0x18) != 0) as u8),
    })
}

// ------------------------------------------------------------------ IM client helpers

fn tlv(f: impl FnOnce(&mut WriteBuf<'_>) -> Result<(), Error>) -> Vec<u8> {
    let mut buf = vec![0u8; 2048];
    let n = {
        let mut wb = WriteBuf::new(&mut buf);
        f(&mut wb).unwrap();
        wb.get_tail()
    };
    buf.truncate(n);
    buf
}

enum Reply {
    Data(u64, Option<Vec<u8>>),
    Status(IMStatusCode),
    Err(String),
}

async fn invoke(ctl: &Matter<'_>, sid: u32, endpoint: u16, cluster: u32, cmd: u32, payload: &[u8], want_octets: bool) -> Reply {
    let crypto = test_only_crypto();
    let exchange = match Exchange::initiate_for_session(ctl, &crypto, sid) {
        Ok(e) => e,
        Err(e) => return Reply::Err(format!("initiate:{:?}", e.code())),
    };
    let res = exchange
        .invoke_with(None, |b| {
            b.invoke_requests()?
                .push()?
                .path(endpoint, cluster, cmd)?
                .data(|w| {
                    w.start_struct(&TLVTag::Context(1))?;
                    w.write_raw_data(payload.iter().copied())?;
                    w.end_container()
                })?
                .end()?
                .end()?
                .end()
        })
        .await;
    let chunk = match res {
        Ok(c) => c,
        Err(e) => return Reply::Err(format!("{:?}", e.code())),
    };
    let reply = (|| -> Result<Reply, Error> {
        let resp = match chunk.response()? {
            Some(r) => r,
            None => return Ok(Reply::Status(IMStatusCode::Success)),
        };
        let arr = match resp.invoke_responses {
            Some(a) => a,
            None => return Ok(Reply::Err("empty".into())),
        };
        for r in arr.iter() {
            match r? {
                CmdResp::Cmd(data) => {
                    let s = data.data.structure()?;
                    if want_octets {
                        let o = OctetStr::from_tlv(&s.ctx(0)?)?;
                        return Ok(Reply::Data(0, Some(o.0.to_vec())));
                    }
                    let v = s.ctx(0).and_then(|e| e.u64()).unwrap_or(u64::MAX);
                    return Ok(Reply::Data(v, None));
                }
                CmdResp::Status(st) => return Ok(Reply::Status(st.status.status)),
            }
        }
        Ok(Reply::Err("empty".into()))
    })();
    let _ = chunk.complete().await;
    reply.unwrap_or_else(|e| Reply::Err(format!("decode:{:?}", e.code())))
}

/// a reply whose data field 0 is a cluster status: 0 = ok
fn data_class(r: Reply) -> String {
    match r {
        Reply::Data(0, _) => "ok".into(),
        Reply::Data(n, _) => format!("st{}", n),
        Reply::Status(IMStatusCode::Success) => "ok".into(),
        Reply::Status(s) => format!("im{}", s as u16),
        Reply::Err(e) => format!("err:{}", e),
    }
}

/// A subscription to one attribute of the root endpoint, replacing the earlier ones of this peer on
/// this fabric (KeepSubscriptions = false); `tag` travels as the minimum interval (as in c07.rs).
async fn subscribe(ctl: &Matter<'_>, sid: u32, tag: u16) -> Result<(), Error> {
    let crypto = test_only_crypto();
    let exchange = Exchange::initiate_for_session(ctl, &crypto, sid)?;
    let path = AttrPath::from_gp(&GenericPath::new(Some(0), Some(CL_BASIC), Some(1)));
    let paths = [path];
    let mut sender = exchange.subscribe_sender().await?;
    let mut chunk = loop {
        match sender.tx().await? {
            TxOutcome::BuildRequest(builder) => {
                sender = builder
                    .keep_subs(false)?
                    .min_int_floor(tag)?
                    .max_int_ceil(3600)?
                    .attr_requests_from(&paths)?
                    .fabric_filtered(false)?
                    .end()?;
            }
            TxOutcome::GotResponse(c) => break c,
        }
    };
    loop {
        let _ = chunk.response()?;
        match chunk.complete().await? {
            SubscribeOutcome::NextChunk(next) => chunk = next,
            SubscribeOutcome::Established(_) => break,
        }
    }
    Ok(())
}

/// a reply that carries response data (whatever its first field is) or a success status
fn any_data(r: Reply) -> String {
    match r {
        Reply::Data(..) => "ok".into(),
        Reply::Status(IMStatusCode::Success) => "ok".into(),
        Reply::Status(s) => format!("im{}", s as u16),
        Reply::Err(e) => format!("err:{}", e),
    }
}

/// Write one attribute; `data` writes the value with tag Context(2).
async fn write_attr(
    ctl: &Matter<'_>,
    sid: u32,
    endpoint: u16,
    cluster: u32,
    attr: u32,
    data: impl FnMut(&mut dyn FnMut(&[u8]) -> Result<(), Error>) -> Result<(), Error>,
    value: &[u8],
) -> String {
    let _ = data;
    let crypto = test_only_crypto();
    let exchange = match Exchange::initiate_for_session(ctl, &crypto, sid) {
        Ok(e) => e,
        Err(e) => return format!("err:initiate:{:?}", e.code()),
    };
    let res = exchange
        .write_with(None, |b| {
            b.write_requests()?
                .push()?
                .path(endpoint, cluster, attr)?
                .data(|w| w.write_raw_data(value.iter().copied()))?
                .end()?
                .end()?
                .end()
        })
        .await;
    match res {
        Err(e) => format!("err:{:?}", e.code()),
        Ok(handle) => {
            let r = (|| -> Result<String, Error> {
                let resp = handle.response()?;
                for st in resp.write_responses.iter() {
                    let st = st?;
                    return Ok(match st.status.status {
                        IMStatusCode::Success => "ok".into(),
                        s => format!("im{}", s as u16),
                    });
                }
                Ok("empty".into())
            })();
            r.unwrap_or_else(|e| format!("err:decode:{:?}", e.code()))
        }
    }
}

fn no_data(_: &mut dyn FnMut(&[u8]) -> Result<(), Error>) -> Result<(), Error> {
    Ok(())
}

/// the value of an attribute data IB: one element with tag Context(2)
fn attr_value(f: impl FnOnce(&mut WriteBuf<'_>) -> Result<(), Error>) -> Vec<u8> {
    tlv(f)
}

fn acl_value(k: u64) -> Vec<u8> {
    acl_wire(&if k >= CAP { cap_acl_spec(k) } else { small_acl_spec(k) })
}

fn gkm_value(k: u64) -> Vec<u8> {
    let list: Vec<(u16, u16)> = if k >= CAP {
        cap_gkm(k)
    } else if k != 0 {
        vec![(k as u16, 1)]
    } else {
        vec![]
    };
    attr_value(|w| {
        w.start_array(&TLVTag::Context(2))?;
        for (g, s) in &list {
            w.start_struct(&TLVTag::Anonymous)?;
            w.u16(&TLVTag::Context(1), *g)?;
            w.u16(&TLVTag::Context(2), *s)?;
            w.end_container()?;
        }
        w.end_container()
    })
}

fn binding_value(k: u64) -> Vec<u8> {
    if k >= CAP {
        bindings_wire(&cap_bindings(k))
    } else if k != 0 {
        bindings_wire(&[Bnd { node: Some(k), group: None, endpoint: Some(1), cluster: None }])
    } else {
        bindings_wire(&[])
    }
}

fn ulabel_value(k: u64) -> Vec<u8> {
    if k >= CAP {
        labels_wire(&cap_labels(k))
    } else if k != 0 {
        labels_wire(&[(format!("k{}", k), format!("v{}", k))])
    } else {
        labels_wire(&[])
    }
}

fn str_value(s: &str) -> Vec<u8> {
    attr_value(|w| w.utf8(&TLVTag::Context(2), s))
}

// ------------------------------------------------------------------ one device incarnation

const NODE: Node<'static> = Node {
    endpoints: &[
        root_endpoint!(wifi, time_sync(time_zone, time_sync_client)),
        Endpoint::new(
            APP_EP,
            devices!(DEV_TYPE_ON_OFF_LIGHT_SWITCH),
            clusters!(
                desc::DescHandler::CLUSTER,
                binding::CLUSTER,
                user_label::CLUSTER,
                icd_mgmt::IcdMgmtHandler::CLUSTER,
                ota_req::OtaRequestorHandler::CLUSTER,
                scenes::ScenesHandler::<'static, MAX_SCENES>::CLUSTER
            ),
        ),
    ],
};

/// What the application owns: the registries the cluster handlers borrow.
struct App {
    labels: Labels,
    binds: Binds,
    icd: icd_mgmt::Icd,
    tz: time_sync::TimeZoneStore,
    providers: ota_req::Providers,
    ota: ota_req::OtaState,
    scenes: scenes::ScenesState<MAX_SCENES>,
}

impl App {
    fn new() -> Self {
        App {
            labels: Labels::new(),
            binds: Binds::new(),
            icd: icd_mgmt::Icd::new(
                rs_matter::sc::checkin::CheckInCounter::new(0, 10),
                icd_mgmt::IcdModeConfig {
                    idle_mode_duration_s: 60,
                    active_mode_duration_ms: 300,
                    active_mode_threshold_ms: 500,
                    user_active_mode_trigger_hint: 0,
                    user_active_mode_trigger_instruction: "",
                },
            ),
            tz: time_sync::TimeZoneStore::new(),
            providers: ota_req::Providers::new(),
            ota: ota_req::OtaState::new(APP_EP),
            scenes: scenes::ScenesState::new(),
        }
    }

    /// what the application does right after `InteractionModel::startup`, as the docs of the two
    /// stores prescribe (their handlers do not load them)
    fn load(&self, access: &impl KvBlobStoreAccess) -> Result<(), Error> {
        access.access(|store, buf| self.tz.load_persist(store, buf))?;
        access.access(|store, buf| self.icd.load_registrations(store, buf))
    }
}

/// The data model of the device: the Wi-Fi root endpoint handlers, a time synchronization handler
/// with a time zone store in front of the built-in one, and the application endpoint.
/// The LAST handler chained is asked first (and is the first to get a lifecycle operation).
macro_rules! data_model {
    ($app:expr, $crypto:expr) => {{
        let net_ctl = NoopWirelessNetCtl::new(NetworkType::Wifi);
        let mut rand = $crypto.rand().unwrap();
        (
            NODE,
            endpoints::WifiSysHandlerBuilder::new(net_ctl, &())
                .build($crypto.rand().unwrap())
                .chain(
                    EpClMatcher::new(Some(0), Some(time_sync::TimeSyncHandler::CLUSTER.id)),
                    Async(time_sync::TimeSyncHandler::new_with_time_zone(Dataver::new_rand(&mut rand), &$app.tz).adapt()),
                )
                .chain(
                    EpClMatcher::new(Some(APP_EP), Some(desc::DescHandler::CLUSTER.id)),
                    Async(desc::DescHandler::new(Dataver::new_rand(&mut rand)).adapt()),
                )
                .chain(
                    EpClMatcher::new(Some(APP_EP), Some(binding::CLUSTER.id)),
                    Async(BindingHandler::new(Dataver::new_rand(&mut rand), APP_EP, &$app.binds).adapt()),
                )
                .chain(
                    EpClMatcher::new(Some(APP_EP), Some(user_label::CLUSTER.id)),
                    Async(UserLabelHandler::new(Dataver::new_rand(&mut rand), APP_EP, &$app.labels).adapt()),
                )
                .chain(
                    EpClMatcher::new(Some(APP_EP), Some(icd_mgmt::IcdMgmtHandler::CLUSTER.id)),
                    Async(icd_mgmt::IcdMgmtHandler::new(Dataver::new_rand(&mut rand), &$app.icd).adapt()),
                )
                .chain(
                    EpClMatcher::new(Some(APP_EP), Some(ota_req::OtaRequestorHandler::CLUSTER.id)),
                    Async(ota_req::OtaRequestorHandler::new(Dataver::new_rand(&mut rand), &$app.providers, &$app.ota).adapt()),
                )
                .chain(
                    EpClMatcher::new(Some(APP_EP), Some(scenes::ScenesHandler::<'static, MAX_SCENES>::CLUSTER.id)),
                    scenes::ScenesHandler::<MAX_SCENES>::new(Dataver::new_rand(&mut rand), &$app.scenes, ()).adapt(),
                ),
        )
    }};
}

/// controller-side memory across restarts of the device
struct Ctl {
    next_root: usize,
    pase_gen: u16,
    /// in-scope key-value operations issued so far (whole history)
    scoped_total: usize,
    /// in-scope key-value operations of the history that are not in the log of the current store object
    /// (the store is rebuilt from a prefix of the history when a power loss cuts an operation)
    base_scoped: usize,
    /// which commissioning each fabric index currently stands for (the harness's own bookkeeping)
    inc: BTreeMap<u8, u64>,
    next_inc: u64,
}

impl Ctl {
    /// a fabric index that was not there before is a new commissioning; one that is gone is forgotten
    fn track(&mut self, dev: &Matter<'_>) -> String {
        let present: Vec<u8> = dev.with_state(|state| state.fabrics.iter().map(|f| f.fab_idx().get()).collect());
        self.inc.retain(|k, _| present.contains(k));
        for i in present {
            if !self.inc.contains_key(&i) {
                self.inc.insert(i, self.next_inc);
                self.next_inc += 1;
            }
        }
        let v: Vec<String> = self.inc.iter().map(|(k, n)| format!("{}.{}", k, n)).collect();
        if v.is_empty() {
            "-".to_string()
        } else {
            v.join("+")
        }
    }
}

struct OpRec {
    /// fabric index -> commissioning number (not compared with the model: monitor input)
    inc: String,
    kind: char,
    status: String,
    kv: String,
    ack: String,
    fs: String,
    cells: String,
    /// in-scope operations issued up to and including this operation
    end: usize,
}

enum Next {
    Done,
    /// restart, continuing with this operation; length of the log at the power loss
    Boot(usize, usize),
    /// power loss inside the operation before this one: (continue with, log length before that operation,
    /// in-scope key-value operations of it that made it to the store)
    Cut(usize, usize, usize),
}

fn resumption_record(fab: u8, peer: u64) -> ResumableSession {
    // the type of two fields is private to the crate: build the record from its persisted form
    let bytes = tlv(|w| {
        w.start_struct(&TLVTag::Anonymous)?;
        w.u8(&TLVTag::Context(0), fab)?;
        w.u64(&TLVTag::Context(1), peer)?;
        w.start_array(&TLVTag::Context(2))?;
        for _ in 0..3 {
            w.u32(&TLVTag::Anonymous, 0)?;
        }
        w.end_container()?;
        let mut id = [0u8; 16];
        id[..8].copy_from_slice(&peer.to_le_bytes());
        id[8] = fab;
        w.str(&TLVTag::Context(3), &id)?;
        w.str(&TLVTag::Context(4), &[fab ^ 0x5a; 32])?;
        w.end_container()
    });
    ResumableSession::from_tlv(&TLVElement::new(&bytes)).expect("resumption record layout")
}

/// A fresh device over `kv`: (startup result, cells).  Nothing is run: this is what the node
/// comes up with.
fn boot_and_snapshot(kv: &MemKv) -> (String, String) {
    let det = e2e::dev_det(None, None);
    let dev = e2e::new_matter(det, false);
    let buffers: MatterBuffers = MatterBuffers::new();
    let st = DevState::new(Nets::new());
    let app = App::new();
    let crypto = test_only_crypto();
    let access = dev.kv(kv.clone());
    let r1 = rsm_harness::catch(std::panic::AssertUnwindSafe(|| dev.startup(&access)));
    let boot1 = match r1 {
        Ok(Ok(())) => "ok".to_string(),
        Ok(Err(e)) => format!("err:{:?}", e.code()),
        Err(_) => "panic".to_string(),
    };
    let handler = data_model!(app, crypto);
    let dm = InteractionModel::new(&dev, &crypto, &buffers, handler, &access, &st);
    st.suppress_start_up_event();
    let r2 = rsm_harness::catch(std::panic::AssertUnwindSafe(|| e2e::block_on(dm.startup()).and_then(|_| app.load(&access))));
    let boot2 = match r2 {
        Ok(Ok(())) => "ok".to_string(),
        Ok(Err(e)) => format!("err:{:?}", e.code()),
        Err(_) => "panic".to_string(),
    };
    let boot = if boot1 == "ok" && boot2 == "ok" { "ok".to_string() } else { format!("{}/{}", boot1, boot2) };
    (boot, cells(&dev, &st, &app, &dm.verif_subscriptions(), kv))
}

/// Run ops[start..] on one device incarnation over `kv` (which keeps its log across incarnations).
#[allow(clippy::too_many_arguments)]
fn run_incarnation(base: &Base, cm: &mut Ctl, kv: &MemKv, ops: &[Op], start: usize, pase_at_boot: bool, boot_no: u64, crash_log_len: Option<usize>, crash_prefix: &[String], recs: &mut Vec<OpRec>) -> Next {
    let det = e2e::dev_det(None, None);
    let dev = e2e::new_matter(det, false);
    let ctl = e2e::new_matter(det, false);
    let buffers: MatterBuffers = MatterBuffers::new();
    let st = DevState::new(Nets::new());
    let app = App::new();
    use rand::SeedableRng;
    let crypto = rs_matter::crypto::default_crypto(
        rand::rngs::StdRng::seed_from_u64(0xC11_0000 + boot_no),
        rs_matter::dm::devices::test::DAC_PRIVKEY,
    );
    let access = dev.kv(kv.clone());
    dev.startup(&access).unwrap();
    let handler = data_model!(app, crypto);
    let dm = InteractionModel::new(&dev, &crypto, &buffers, handler, &access, &st);
    st.suppress_start_up_event();
    e2e::block_on(dm.startup()).unwrap();
    app.load(&access).unwrap();
    if pase_at_boot {
        install(&dev, &ctl, Sess::P, cm.pase_gen);
    }
    if let Some(lb) = crash_log_len {
        // the record of the power loss: what the start-up wrote, and the node it came up as
        let full = kv.log();
        let mut v: Vec<String> = crash_prefix.to_vec();
        v.extend(full[lb..].iter().filter(|o| !foreign_key(op_key(o))).map(|o| match o {
            KvOp::Store(k, _) => format!("s{}", k),
            KvOp::Remove(k) => format!("r{}", k),
            KvOp::StoreFailed(k) => format!("f{}", k),
        }));
        let end = cm.base_scoped + scoped_len(&full);
        cm.scoped_total = end;
        let inc = cm.track(&dev);
        recs.push(OpRec {
            inc,
            kind: if crash_prefix.is_empty() && !matches!(ops.get(start.wrapping_sub(1)), Some(Op::Cut(..))) { 'Q' } else { 'x' },
            status: "ok".into(),
            kv: if v.is_empty() { "-".to_string() } else { v.join(",") },
            ack: "-".into(),
            fs: fs_str(&dev),
            cells: cells(&dev, &st, &app, &dm.verif_subscriptions(), kv),
            end,
        });
    }
    let net = Net::reliable();
    let (d_tx, d_rx) = net.attach(DEV);
    let (c_tx, c_rx) = net.attach(CTL);
    let marks: Rc<RefCell<Vec<usize>>> = Rc::new(RefCell::new(Vec::new()));
    let d_tx = MarkSend { inner: d_tx, kv: kv.clone(), marks: marks.clone() };
    let responder = Responder::new_default(&dm);
    let cm = RefCell::new(cm);
    let recs = RefCell::new(recs);

    e2e::block_on(async {
        let device = select3(
            dev.run(&crypto, d_tx, d_rx, NoNetwork),
            responder.run::<4>(),
            ctl.run(&crypto, c_tx, c_rx, NoNetwork),
        )
        .coalesce();

        let flow = async {
            let mut i = start;
            while i < ops.len() {
                let (op, cut) = match ops[i].clone() {
                    Op::Cut(inner, j) => (*inner, Some(j)),
                    o => (o, None),
                };
                i += 1;
                let log_before = kv.log().len();
                let scoped_before = scoped_len(&kv.log());
                marks.borrow_mut().clear();
                let pase_gen = cm.borrow().pase_gen;
                // a CASE session that is gone (fabric removed, node restarted) is what a fresh
                // CASE handshake of the administrator would give
                if let Some(Sess::C(f)) = op_sess(&op) {
                    if !dev_session_live(&dev, Sess::C(f), 0) || ctl_session_id(&ctl, Sess::C(f), 0).is_none() {
                        install(&dev, &ctl, Sess::C(f), 0);
                    }
                }
                let mut sid = 0u32;
                let mut gone = false;
                if let Some(s) = op_sess(&op) {
                    let g = if matches!(s, Sess::P) { pase_gen } else { 0 };
                    if dev_session_live(&dev, s, g) {
                        match ctl_session_id(&ctl, s, g) {
                            Some(id) => sid = id,
                            None => gone = true,
                        }
                    } else {
                        gone = true;
                    }
                }
                let mut answered = true;
                let status: String = if gone {
                    answered = false;
                    "gone".into()
                } else {
                    match &op {
                        Op::Arm(_, t) => {
                            let t = *t;
                            data_class(
                                invoke(&ctl, sid, 0, CL_GENCOMM, 0, &tlv(|w| {
                                    w.u16(&TLVTag::Context(0), t)?;
                                    w.u64(&TLVTag::Context(1), 1)
                                }), false)
                                .await,
                            )
                        }
                        Op::AddNoc(_, nid) | Op::UpdNoc(_, nid) => {
                            let nid = *nid;
                            let is_add = matches!(op, Op::AddNoc(..));
                            // 1. CSR
                            let nonce = [0x5au8; 32];
                            let r = invoke(&ctl, sid, 0, CL_NOC, 4, &tlv(|w| {
                                w.str(&TLVTag::Context(0), &nonce)?;
                                w.bool(&TLVTag::Context(1), !is_add)
                            }), true)
                            .await;
                            let csr: Result<Vec<u8>, String> = match r {
                                Reply::Data(_, Some(nocsr)) => (|| -> Result<Vec<u8>, Error> {
                                    let root = TLVElement::new(&nocsr).structure()?;
                                    Ok(OctetStr::from_tlv(&root.ctx(1)?)?.0.to_vec())
                                })()
                                .map_err(|_| "badcsr".to_string()),
                                other => Err(data_class(other)),
                            };
                            match csr {
                                Err(e) => format!("csr:{}", e),
                                Ok(csr) => {
                                    // 2. root (AddNOC only): the next unused one
                                    let r_idx = if is_add {
                                        // (a commissioner never brings a root that one of the node's fabrics
                                        // already has: AddNOC would answer FabricConflict)
                                        let mut c = cm.borrow_mut();
                                        let mut r = c.next_root;
                                        for _ in 0..NROOTS {
                                            let in_use = dev.with_state(|state| state.fabrics.iter().any(|f| f.root_ca() == &base.roots[r].cert[..]));
                                            if !in_use {
                                                break;
                                            }
                                            r = if r + 1 >= NROOTS { 2 } else { r + 1 };
                                        }
                                        c.next_root = if r + 1 >= NROOTS { 2 } else { r + 1 };
                                        r
                                    } else {
                                        // the root of the session's fabric
                                        let f = match op_sess(&op) {
                                            Some(Sess::C(f)) => f,
                                            _ => 0,
                                        };
                                        dev.with_state(|state| {
                                            NonZeroU8::new(f)
                                                .and_then(|f| state.fabrics.get(f))
                                                .and_then(|f| base.roots.iter().position(|r| r.cert == f.root_ca()))
                                        })
                                        .unwrap_or(0)
                                    };
                                    let root_status = if is_add {
                                        let cert = &base.roots[r_idx].cert;
                                        data_class(invoke(&ctl, sid, 0, CL_NOC, 11, &tlv(|w| w.str(&TLVTag::Context(0), cert)), false).await)
                                    } else {
                                        "ok".to_string()
                                    };
                                    if root_status != "ok" {
                                        format!("root:{}", root_status)
                                    } else {
                                        let mut noc_buf = vec![0u8; MAX_CERT_TLV_AND_ASN1_LEN];
                                        let mut ng = NocGenerator::create(base.roots[r_idx].privkey.reference(), &base.roots[r_idx].cert, &[], &mut noc_buf).unwrap();
                                        let noc = ng.generate(&crypto, &csr, nid, &[], VALID_FOREVER).unwrap().to_vec();
                                        let rep = if is_add {
                                            invoke(&ctl, sid, 0, CL_NOC, 6, &tlv(|w| {
                                                w.str(&TLVTag::Context(0), &noc)?;
                                                w.str(&TLVTag::Context(2), &IPK)?;
                                                w.u64(&TLVTag::Context(3), ADMIN)?;
                                                w.u16(&TLVTag::Context(4), VENDOR)
                                            }), false)
                                            .await
                                        } else {
                                            invoke(&ctl, sid, 0, CL_NOC, 7, &tlv(|w| w.str(&TLVTag::Context(0), &noc)), false).await
                                        };
                                        data_class(rep)
                                    }
                                }
                            }
                        }
                        Op::NetAdd(_, k) => {
                            let id = ssid(*k);
                            data_class(
                                invoke(&ctl, sid, 0, CL_NETCOMM, 2, &tlv(|w| {
                                    w.str(&TLVTag::Context(0), &id)?;
                                    w.str(&TLVTag::Context(1), b"password")
                                }), false)
                                .await,
                            )
                        }
                        Op::Complete(_) => data_class(invoke(&ctl, sid, 0, CL_GENCOMM, 4, &[], false).await),
                        Op::Acl(_, k) => write_attr(&ctl, sid, 0, CL_ACL, 0, no_data, &acl_value(*k)).await,
                        Op::Gkm(_, k) => write_attr(&ctl, sid, 0, CL_GKM, 0, no_data, &gkm_value(*k)).await,
                        Op::Label(_, k) => {
                            let l = tok_string("lab", *k, 32);
                            data_class(invoke(&ctl, sid, 0, CL_NOC, 9, &tlv(|w| w.utf8(&TLVTag::Context(0), &l)), false).await)
                        }
                        Op::Vid(_, k) => {
                            let k = *k as u16;
                            data_class(invoke(&ctl, sid, 0, CL_NOC, 12, &tlv(|w| w.u16(&TLVTag::Context(0), k)), false).await)
                        }
                        Op::Bind(_, k) => write_attr(&ctl, sid, APP_EP, CL_BINDING, 0, no_data, &binding_value(*k)).await,
                        Op::ULabel(_, k) => write_attr(&ctl, sid, APP_EP, CL_ULABEL, 0, no_data, &ulabel_value(*k)).await,
                        Op::NodeLabel(_, k) => write_attr(&ctl, sid, 0, CL_BASIC, 5, no_data, &str_value(&tok_string("n", *k, 32))).await,
                        Op::Location(_, k) => write_attr(&ctl, sid, 0, CL_BASIC, 6, no_data, &str_value(&two_letters(*k))).await,
                        Op::Reg(_, k) => {
                            let (t, cc) = ((*k % 3) as u8, two_letters(*k));
                            data_class(
                                invoke(&ctl, sid, 0, CL_GENCOMM, 2, &tlv(|w| {
                                    w.u8(&TLVTag::Context(0), t)?;
                                    w.utf8(&TLVTag::Context(1), &cc)?;
                                    w.u64(&TLVTag::Context(2), 2)
                                }), false)
                                .await,
                            )
                        }
                        Op::Remove(_, f) => {
                            let f = *f;
                            data_class(invoke(&ctl, sid, 0, CL_NOC, 10, &tlv(|w| w.u8(&TLVTag::Context(0), f)), false).await)
                        }
                        Op::Tz(_, k) => {
                            let zones = tz_spec(*k);
                            any_data(
                                invoke(&ctl, sid, 0, CL_TIMESYNC, 2, &tlv(|w| {
                                    w.start_array(&TLVTag::Context(0))?;
                                    for (offset, valid_at, name) in &zones {
                                        w.start_struct(&TLVTag::Anonymous)?;
                                        w.i32(&TLVTag::Context(0), *offset)?;
                                        w.u64(&TLVTag::Context(1), *valid_at)?;
                                        w.utf8(&TLVTag::Context(2), name)?;
                                        w.end_container()?;
                                    }
                                    w.end_container()
                                }), false)
                                .await,
                            )
                        }
                        Op::Tts(_, k) => {
                            let k = *k;
                            data_class(
                                invoke(&ctl, sid, 0, CL_TIMESYNC, 1, &tlv(|w| {
                                    if k == 0 {
                                        w.null(&TLVTag::Context(0))
                                    } else {
                                        w.start_struct(&TLVTag::Context(0))?;
                                        w.u64(&TLVTag::Context(0), k)?;
                                        w.u16(&TLVTag::Context(1), 1)?;
                                        w.end_container()
                                    }
                                }), false)
                                .await,
                            )
                        }
                        Op::Icd(_, k) => {
                            let k = *k;
                            if k == 0 {
                                data_class(invoke(&ctl, sid, APP_EP, CL_ICD, 2, &tlv(|w| w.u64(&TLVTag::Context(0), ICD_CLIENT)), false).await)
                            } else {
                                any_data(
                                    invoke(&ctl, sid, APP_EP, CL_ICD, 0, &tlv(|w| {
                                        w.u64(&TLVTag::Context(0), ICD_CLIENT)?;
                                        w.u64(&TLVTag::Context(1), k)?;
                                        w.str(&TLVTag::Context(2), &icd_key(k))?;
                                        w.u8(&TLVTag::Context(4), (k % 2) as u8)
                                    }), false)
                                    .await,
                                )
                            }
                        }
                        Op::Subscribe(_, k) => match subscribe(&ctl, sid, *k as u16).await {
                            Ok(()) => {
                                // the device commits and persists the subscription AFTER the SubscribeResponse
                                // has left: let its task finish before the next operation is recorded
                                for _ in 0..200 {
                                    if kv.log().len() > log_before && dm.verif_subscriptions().iter().any(|x| x.3 == *k as u16) {
                                        break;
                                    }
                                    embassy_time::Timer::after(embassy_time::Duration::from_millis(1)).await;
                                }
                                "ok".to_string()
                            }
                            Err(e) => format!("err:{:?}", e.code()),
                        },
                        Op::Ota(_, k) => write_attr(&ctl, sid, APP_EP, CL_OTA, 0, no_data, &ota_value(*k)).await,
                        Op::Scene(_, k) => {
                            let k = *k;
                            if k == 0 {
                                data_class(
                                    invoke(&ctl, sid, APP_EP, CL_SCENES, 2, &tlv(|w| {
                                        w.u16(&TLVTag::Context(0), 0)?;
                                        w.u8(&TLVTag::Context(1), 1)
                                    }), false)
                                    .await,
                                )
                            } else {
                                data_class(
                                    invoke(&ctl, sid, APP_EP, CL_SCENES, 0, &tlv(|w| {
                                        w.u16(&TLVTag::Context(0), 0)?;
                                        w.u8(&TLVTag::Context(1), 1)?;
                                        w.u32(&TLVTag::Context(2), k as u32)?;
                                        w.utf8(&TLVTag::Context(3), "")?;
                                        w.start_array(&TLVTag::Context(4))?;
                                        w.end_container()
                                    }), false)
                                    .await,
                                )
                            }
                        }
                        _ => {
                            answered = false;
                            String::new()
                        }
                    }
                };
                let status = match &op {
                    Op::Expire => {
                        dev.with_state(|state| state.verif_failsafe().verif_make_due());
                        match dm.verif_check_timeouts() {
                            Ok(()) => "ok".to_string(),
                            Err(e) => format!("err:{:?}", e.code()),
                        }
                    }
                    Op::NewPase => {
                        let mut c = cm.borrow_mut();
                        let (d, cc) = sess_ids(Sess::P, c.pase_gen);
                        remove_by_local_id(&dev, d);
                        remove_by_local_id(&ctl, cc);
                        c.pase_gen += 1;
                        install(&dev, &ctl, Sess::P, c.pase_gen);
                        "ok".to_string()
                    }
                    Op::Resume(f, p) => {
                        // what a completed CASE handshake does to the cache (responder.rs / initiator.rs)
                        let ok = dev.with_state(|state| NonZeroU8::new(*f).map(|f| state.fabrics.get(f).is_some()).unwrap_or(false));
                        if ok {
                            let rec = resumption_record(*f, *p);
                            dev.with_state(|state| state.resumption.insert_or_update(rec));
                        }
                        "ok".to_string()
                    }
                    Op::Flush => {
                        // body of Matter::run_persist_resumption after the debounce
                        let r = dev.with_state(|state| access.access(|mut store, buf| state.resumption.store_persist(&mut store, buf)));
                        match r {
                            Ok(()) => "ok".to_string(),
                            Err(e) => format!("err:{:?}", e.code()),
                        }
                    }
                    Op::Reset => {
                        let r1 = dev.factory_reset(&access);
                        let r2 = dm.factory_reset().await;
                        match (r1, r2) {
                            (Ok(()), Ok(())) => "ok".to_string(),
                            (a, b) => format!("err:{:?}/{:?}", a.err().map(|e| e.code()), b.err().map(|e| e.code())),
                        }
                    }
                    Op::Crash => "ok".to_string(),
                    _ => status,
                };
                // the key-value operations of this operation
                let full = kv.log();
                let mine: Vec<&KvOp> = full[log_before..].iter().filter(|o| !foreign_key(op_key(o))).collect();
                let kvs = if matches!(op, Op::Reset) {
                    let removes = full[log_before..].iter().filter(|o| matches!(o, KvOp::Remove(_))).count();
                    let others = full[log_before..].len() - removes;
                    let left: Vec<String> = kv.blobs().keys().map(|k| k.to_string()).collect();
                    format!("reset:{}:{}:{}", removes, others, if left.is_empty() { "-".to_string() } else { left.join("+") })
                } else {
                    let v: Vec<String> = mine
                        .iter()
                        .map(|o| match o {
                            KvOp::Store(k, _) => format!("s{}", k),
                            KvOp::Remove(k) => format!("r{}", k),
                            KvOp::StoreFailed(k) => format!("f{}", k),
                        })
                        .collect();
                    if v.is_empty() {
                        "-".to_string()
                    } else {
                        v.join(",")
                    }
                };
                let ack = if answered {
                    match marks.borrow().last() {
                        Some(m) => (m - scoped_before).to_string(),
                        None => "none".to_string(),
                    }
                } else {
                    "-".to_string()
                };
                let end = cm.borrow().base_scoped + scoped_len(&full);
                cm.borrow_mut().scoped_total = end;
                if matches!(op, Op::Crash) {
                    // recorded by the next incarnation, once it is up
                    return Next::Boot(i, full.len());
                }
                if let Some(j) = cut {
                    // the power was lost after the j-th key-value operation: the rest never happened
                    return Next::Cut(i, log_before, j.min(mine.len()));
                }
                let mut inc = cm.borrow_mut().track(&dev);
                if let Op::Resume(f, p) = &op {
                    // a CASE session was established: its record belongs to the fabric as it is now
                    write!(inc, "/{}.{}", f, p).unwrap();
                }
                if let (Op::Subscribe(Sess::C(f), tag), true) = (&op, status == "ok") {
                    // a subscription was established: it belongs to the fabric as it is now
                    write!(inc, "/{}.{}", f, tag).unwrap();
                }
                recs.borrow_mut().push(OpRec { inc, kind: op_kind(&op), status, kv: kvs, ack, fs: fs_str(&dev), cells: cells(&dev, &st, &app, &dm.verif_subscriptions(), kv), end });
            }
            Next::Done
        };

        match select(core::pin::pin!(device), core::pin::pin!(e2e::with_timeout(30_000, flow))).await {
            Either::First(r) => {
                recs.borrow_mut().push(OpRec {
                    inc: "-".into(),
                    kind: '?',
                    status: format!("transport-exit:{:?}", r.map_err(|e| e.code())),
                    kv: "-".into(),
                    ack: "-".into(),
                    fs: "?".into(),
                    cells: String::new(),
                    end: 0,
                });
                Next::Done
            }
            Either::Second(Some(n)) => n,
            Either::Second(None) => {
                recs.borrow_mut().push(OpRec { inc: "-".into(), kind: '?', status: "hang".into(), kv: "-".into(), ack: "-".into(), fs: "?".into(), cells: String::new(), end: 0 });
                Next::Done
            }
        }
    })
}

/// The initial state of a case: `<n><p>` = n commissioned fabrics (indexes 1..n, n <= 2), or
/// `i<idx>+<idx>..:<p>` = commissioned fabrics at these local indexes (what a node that has seen
/// many commissionings and removals looks like); p = a PASE session is present.
fn parse_init(s: &str) -> (Vec<u8>, bool) {
    if let Some(r) = s.strip_prefix('i') {
        let (idx, p) = r.split_once(':').unwrap();
        (idx.split('+').filter(|x| !x.is_empty()).map(|x| x.parse().unwrap()).collect(), p == "1")
    } else {
        let b = s.as_bytes();
        ((1..=(b[0] - b'0').min(2)).collect(), b[1] == b'1')
    }
}

fn initial_blobs(base: &Base, idxs: &[u8], custom: bool) -> BTreeMap<u16, Vec<u8>> {
    let mut m = BTreeMap::new();
    for (n, i) in idxs.iter().enumerate() {
        let blob = if custom {
            // the persisted form of fabric 1 with another local index: the index is the first member
            // of the structure (15 | 24 00 <idx> | ...)
            let mut b = base.fab_blobs[0].clone();
            assert!(b[0] == 0x15 && b[1] == 0x24 && b[2] == 0x00 && b[3] == 1, "fabric blob layout");
            b[3] = *i;
            // ... and every access control entry carries it once more (24 fe <idx>)
            let mut k = 4;
            while k + 2 < b.len() {
                if b[k] == 0x24 && b[k + 1] == 0xfe && b[k + 2] == 1 {
                    b[k + 2] = *i;
                }
                k += 1;
            }
            // the result must read back as a fabric of that index whose entries are its own
            let f = Fabric::from_tlv(&TLVElement::new(&b)).expect("patched fabric blob");
            assert!(f.fab_idx().get() == *i, "patched fabric index");
            assert!(f.acl_iter().all(|e| e.fab_idx == NonZeroU8::new(*i)), "patched ACL fabric index");
            b
        } else {
            base.fab_blobs[n].clone()
        };
        m.insert(*i as u16, blob);
    }
    m
}

fn run_s(base: &Base, f: &[&str]) -> String {
    let (idxs, pase) = parse_init(f[2]);
    let ops: Vec<Op> = f.get(3).map(|s| s.split(',').filter(|x| !x.is_empty()).map(parse_op).collect()).unwrap_or_default();
    let mut cm = Ctl {
        next_root: 2,
        pase_gen: 0,
        scoped_total: 0,
        base_scoped: 0,
        inc: idxs.iter().map(|i| (*i, *i as u64)).collect(),
        next_inc: 1000,
    };
    let blobs0 = initial_blobs(base, &idxs, f[2].starts_with('i'));
    let mut kv = MemKv::from_blobs(blobs0.clone());
    // the key-value log of the history up to the current store object
    let mut history: Vec<KvOp> = Vec::new();
    let mut recs: Vec<OpRec> = Vec::new();
    let mut start = 0usize;
    let mut boot_no = 0u64;
    let mut crash: Option<usize> = None;
    let mut crash_prefix: Vec<String> = Vec::new();
    loop {
        let n = run_incarnation(base, &mut cm, &kv, &ops, start, pase && boot_no == 0, boot_no, crash, &crash_prefix, &mut recs);
        boot_no += 1;
        crash_prefix.clear();
        match n {
            Next::Done => break,
            Next::Boot(i, loglen) => {
                start = i;
                crash = Some(loglen);
            }
            Next::Cut(i, log_before, j) => {
                // keep the log up to the j-th in-scope operation of the cut command, rebuild the store from it
                let full = kv.log();
                let mut keep = log_before;
                let mut seen = 0usize;
                for (k, o) in full.iter().enumerate().skip(log_before) {
                    if seen == j {
                        break;
                    }
                    if !foreign_key(op_key(o)) {
                        seen += 1;
                        crash_prefix.push(match o {
                            KvOp::Store(key, _) => format!("s{}", key),
                            KvOp::Remove(key) => format!("r{}", key),
                            KvOp::StoreFailed(key) => format!("f{}", key),
                        });
                    }
                    keep = k + 1;
                }
                history.extend_from_slice(&full[..keep]);
                cm.base_scoped = scoped_len(&history);
                kv = MemKv::from_blobs(MemKv::replay_prefix(&blobs0, &history, history.len()));
                start = i;
                crash = Some(0);
            }
        }
    }
    // the live state before the first operation is the state of a device booted from the initial store
    let mut log = history.clone();
    log.extend(kv.log());
    let total = scoped_len(&log);
    let mut out = String::new();
    for (i, r) in recs.iter().enumerate() {
        if i > 0 {
            out.push(';');
        }
        write!(out, "{}|{}|{}|{}|{}|{}|{}|{}", r.status, r.kv, r.ack, r.fs, r.end, r.cells, r.kind, r.inc).unwrap();
    }
    out.push_str(" # ");
    // cuts: every prefix of the in-scope log, except inside a factory reset (only its end)
    let mut skip: Vec<(usize, usize)> = Vec::new();
    let mut prev_end = 0usize;
    for (r, op) in recs.iter().zip(ops.iter()) {
        if matches!(op, Op::Reset) && r.end > prev_end + 1 {
            skip.push((prev_end + 1, r.end - 1));
        }
        prev_end = r.end;
    }
    let mut first = true;
    for n in 0..=total {
        if skip.iter().any(|(a, b)| n >= *a && n <= *b) {
            continue;
        }
        let cut = full_prefix_len(&log, n);
        let blobs = MemKv::replay_prefix(&blobs0, &log, cut);
        let (boot, cells) = boot_and_snapshot(&MemKv::from_blobs(blobs));
        if !first {
            out.push(';');
        }
        first = false;
        write!(out, "{}|{}|{}", n, boot, cells).unwrap();
    }
    out
}

include!("../c11_extra.rs");

fn run_line(base: &Base, line: &str, out: &mut String) {
    let f: Vec<&str> = line.split(' ').collect();
    match f[0] {
        "S" => {
            writeln!(out, "S {} {}", f[1], run_s(base, &f)).unwrap();
        }
        "R" => writeln!(out, "R {} {}", f[1], run_roundtrip(base, &f)).unwrap(),
        "C" => writeln!(out, "C {} {}", f[1], run_corrupt(base, &f)).unwrap(),
        "K" => writeln!(out, "K {} {}", f[1], run_census(base, &f)).unwrap(),
        "I" => writeln!(out, "I {} {}", f[1], run_other_corrupt(base, &f)).unwrap(),
        _ => {}
    }
}

fn main() {
    let args: Vec<String> = std::env::args().collect();
    match args.get(1).map(|s| s.as_str()) {
        Some("gen") => {
            let outdir = std::path::PathBuf::from(&args[4]);
            std::fs::create_dir_all(&outdir).unwrap();
            let (cases, stats) = generate(&args[2], args[3].parse().unwrap());
            let mut cf = std::io::BufWriter::new(std::fs::File::create(outdir.join("cases.txt")).unwrap());
            for c in &cases {
                writeln!(cf, "{}", c).unwrap();
            }
            std::fs::write(outdir.join("stats.json"), stats).unwrap();
        }
        Some("run") => {
            let text = std::fs::read_to_string(&args[2]).unwrap();
            let handle = std::thread::Builder::new()
                .stack_size(256 * 1024 * 1024)
                .spawn(move || {
                    if std::env::var("C11_DEBUG").is_err() {
                        rsm_harness::silence_panics();
                    }
                    let base = make_base();
                    let mut out = String::new();
                    for line in text.lines() {
                        run_line(&base, line, &mut out);
                    }
                    out
                })
                .unwrap();
            print!("{}", handle.join().unwrap());
        }
        _ => {
            eprintln!("usage: c11 gen <tier> <seed> <outdir> | c11 run <cases>");
            std::process::exit(2);
        }
    }
}
