//! C19 correspondence harness: REAL Matter-TLV certificates, built field by
//! field from abstract descriptions, signed with test CA keys through the
//! crate's crypto backend, and run through the real verifier
//! (`CertRef::verify_chain_start .. add_cert .. finalise`), the CASE
//! validation (`CaseP::validate_certs` through the cfg(rs_matter_verif)
//! hook + the node-id extraction of the Sigma handlers) and the
//! credential-installing commands (`FailSafe::{add_trusted_root_cert,
//! add_noc, update_noc}` + `Fabrics::{add, update}`).
//!
//! usage: c19 gen <quick|thorough> <seed> <outdir>   writes cases.txt + stats.json
//!        c19 run <cases-file>                       one canonical line per case
//!
//! Line / token format: see ocaml/c19/driver.ml (same on both sides).
use std::collections::BTreeMap;
use std::fmt::Write as _;
use std::io::Write as _;
use std::num::NonZeroU8;

use rs_matter::cert::CertRef;
use rs_matter::crypto::{
    test_only_crypto, CanonAeadKeyRef, CanonPkcPublicKey, CanonPkcSecretKeyRef, CanonPkcSignature,
    Crypto, PublicKey, SigningSecretKey,
};
use rs_matter::dm::clusters::time_sync::UtcTime;
use rs_matter::error::{Error, ErrorCode};
use rs_matter::fabric::Fabrics;
use rs_matter::failsafe::FailSafe;
use rs_matter::sc::case::verif_case_validate_certs;
use rs_matter::sc::pase::Pase;
use rs_matter::tlv::TLVElement;
use rs_matter::transport::session::SessionMode;
use rsm_harness::Rng;

// ---------------------------------------------------------------- abstract certificates

#[derive(Clone, Debug, PartialEq)]
enum Sig {
    /// signed by key k over exactly these contents
    Good(usize),
    /// signed by key k, then bit b of the 64-byte signature flipped
    Flip(usize, u16),
    /// signed by key k over different to-be-signed bytes
    Other(usize),
}

#[derive(Clone, Debug, PartialEq)]
enum Fx {
    None,
    NonCrit,
    Crit,
    /// several future-extensions elements (context tag 6), in order; true = critical
    Many(Vec<bool>),
}

#[derive(Clone, Debug, PartialEq)]
struct ACert {
    subject: Vec<(u8, u64)>,
    issuer: Vec<(u8, u64)>,
    skid: Option<u64>,
    akid: Option<u64>,
    pk: usize,
    sig: Sig,
    nb: u32,
    na: u32,
    bc: Option<(bool, Option<u8>)>,
    ku: Option<u16>,
    eku: Option<Vec<u8>>,
    fx: Fx,
}

fn dn_str(d: &[(u8, u64)]) -> String {
    if d.is_empty() {
        ".".into()
    } else {
        d.iter().map(|(t, v)| format!("{}:{}", t, v)).collect::<Vec<_>>().join(",")
    }
}

fn opt_str<T: ToString>(o: &Option<T>) -> String {
    o.as_ref().map(|v| v.to_string()).unwrap_or_else(|| "-".into())
}

impl ACert {
    fn token(&self) -> String {
        let sig = match &self.sig {
            Sig::Good(k) => format!("{}", k),
            Sig::Flip(k, b) => format!("{}^{}", k, b),
            Sig::Other(k) => format!("{}~", k),
        };
        let bc = match &self.bc {
            None => "-".to_string(),
            Some((ca, None)) => format!("{}", *ca as u8),
            Some((ca, Some(m))) => format!("{}:{}", *ca as u8, m),
        };
        let eku = match &self.eku {
            None => "-".to_string(),
            Some(v) if v.is_empty() => ".".to_string(),
            Some(v) => v.iter().map(|x| x.to_string()).collect::<Vec<_>>().join(","),
        };
        let fx: String = match &self.fx {
            Fx::None => "-".into(),
            Fx::NonCrit => "n".into(),
            Fx::Crit => "c".into(),
            Fx::Many(v) => v.iter().map(|c| if *c { 'c' } else { 'n' }).collect(),
        };
        format!(
            "{}/{}/{}/{}/{}/{}/{}/{}/{}/{}/{}/{}",
            dn_str(&self.subject),
            dn_str(&self.issuer),
            opt_str(&self.skid),
            opt_str(&self.akid),
            self.pk,
            sig,
            self.nb,
            self.na,
            bc,
            opt_str(&self.ku),
            eku,
            fx
        )
    }

    fn parse(s: &str) -> ACert {
        let f: Vec<&str> = s.split('/').collect();
        assert!(f.len() == 12, "bad cert token {}", s);
        let dn = |x: &str| -> Vec<(u8, u64)> {
            if x == "." {
                vec![]
            } else {
                x.split(',')
                    .map(|a| {
                        let (t, v) = a.split_once(':').unwrap();
                        (t.parse().unwrap(), v.parse().unwrap())
                    })
                    .collect()
            }
        };
        let opt = |x: &str| -> Option<u64> {
            if x == "-" {
                None
            } else {
                Some(x.parse().unwrap())
            }
        };
        let sig = if let Some((k, b)) = f[5].split_once('^') {
            Sig::Flip(k.parse().unwrap(), b.parse().unwrap())
        } else if let Some(k) = f[5].strip_suffix('~') {
            Sig::Other(k.parse().unwrap())
        } else {
            Sig::Good(f[5].parse().unwrap())
        };
        let bc = if f[8] == "-" {
            None
        } else if let Some((ca, m)) = f[8].split_once(':') {
            Some((ca == "1", Some(m.parse().unwrap())))
        } else {
            Some((f[8] == "1", None))
        };
        let eku = match f[10] {
            "-" => None,
            "." => Some(vec![]),
            x => Some(x.split(',').map(|p| p.parse().unwrap()).collect()),
        };
        let fx = match f[11] {
            "n" => Fx::NonCrit,
            "c" => Fx::Crit,
            "-" => Fx::None,
            x => Fx::Many(x.chars().map(|c| c == 'c').collect()),
        };
        ACert {
            subject: dn(f[0]),
            issuer: dn(f[1]),
            skid: opt(f[2]),
            akid: opt(f[3]),
            pk: f[4].parse().unwrap(),
            sig,
            nb: f[6].parse().unwrap(),
            na: f[7].parse().unwrap(),
            bc,
            ku: opt(f[9]).map(|v| v as u16),
            eku,
            fx,
        }
    }
}

// ---------------------------------------------------------------- keys

const NKEYS: usize = 8;

struct Keys {
    sk: Vec<[u8; 32]>,
    pk: Vec<[u8; 65]>,
}

fn pub_of<C: Crypto>(crypto: &C, sk: &[u8; 32]) -> [u8; 65] {
    let key = crypto.secret_key(CanonPkcSecretKeyRef::new(sk)).unwrap();
    let mut pk = CanonPkcPublicKey::new();
    key.pub_key().unwrap().write_canon(&mut pk).unwrap();
    *pk.access()
}

impl Keys {
    fn new<C: Crypto>(crypto: &C) -> Keys {
        let mut sk = Vec::new();
        let mut pk = Vec::new();
        for i in 0..NKEYS {
            let mut s = [0u8; 32];
            for (j, b) in s.iter_mut().enumerate() {
                *b = (17 * (i as u8 + 1)) ^ (j as u8).wrapping_mul(29).wrapping_add(3);
            }
            s[0] = 0x10 + i as u8; // well below the group order
            pk.push(pub_of(crypto, &s));
            sk.push(s);
        }
        Keys { sk, pk }
    }
    /// key 0 := the key pair the node generated for the CSR of this case
    fn set0<C: Crypto>(&mut self, crypto: &C, sk: &[u8; 32]) {
        self.sk[0] = *sk;
        self.pk[0] = pub_of(crypto, sk);
    }
    fn index_of(&self, pk: &[u8]) -> String {
        self.pk
            .iter()
            .position(|k| k.as_slice() == pk)
            .map(|i| i.to_string())
            .unwrap_or_else(|| "?".into())
    }
}

fn sign<C: Crypto>(crypto: &C, sk: &[u8; 32], data: &[u8]) -> [u8; 64] {
    let key = crypto.secret_key(CanonPkcSecretKeyRef::new(sk)).unwrap();
    let mut sig = CanonPkcSignature::new();
    key.sign(data, &mut sig).unwrap();
    *sig.access()
}

// ---------------------------------------------------------------- Matter-TLV builder (own writer)

struct Tlv(Vec<u8>);

impl Tlv {
    fn ctl(&mut self, ty: u8, tag: Option<u8>) {
        match tag {
            Some(t) => {
                self.0.push(0x20 | ty);
                self.0.push(t);
            }
            None => self.0.push(ty),
        }
    }
    fn u8(&mut self, tag: Option<u8>, v: u8) {
        self.ctl(0x04, tag);
        self.0.push(v);
    }
    fn u16(&mut self, tag: Option<u8>, v: u16) {
        self.ctl(0x05, tag);
        self.0.extend_from_slice(&v.to_le_bytes());
    }
    fn u32(&mut self, tag: Option<u8>, v: u32) {
        self.ctl(0x06, tag);
        self.0.extend_from_slice(&v.to_le_bytes());
    }
    fn u64(&mut self, tag: Option<u8>, v: u64) {
        self.ctl(0x07, tag);
        self.0.extend_from_slice(&v.to_le_bytes());
    }
    fn boolean(&mut self, tag: Option<u8>, v: bool) {
        self.ctl(if v { 0x09 } else { 0x08 }, tag);
    }
    fn utf8(&mut self, tag: Option<u8>, s: &str) {
        self.ctl(0x0c, tag);
        self.0.push(s.len() as u8);
        self.0.extend_from_slice(s.as_bytes());
    }
    fn bytes(&mut self, tag: Option<u8>, b: &[u8]) {
        self.ctl(0x10, tag);
        self.0.push(b.len() as u8);
        self.0.extend_from_slice(b);
    }
    fn start(&mut self, ty: u8, tag: Option<u8>) {
        self.ctl(ty, tag); // 0x15 struct, 0x16 array, 0x17 list
    }
    fn end(&mut self) {
        self.0.push(0x18);
    }
}

fn key_id(v: u64) -> [u8; 20] {
    let mut k = [0xA5u8; 20];
    k[12..].copy_from_slice(&v.to_be_bytes());
    k
}

/// DER `Extension` with an unknown OID (2.5.29.99), critical flag as given.
const FX_NON_CRITICAL: &[u8] = &[0x30, 0x0A, 0x06, 0x03, 0x55, 0x1D, 0x63, 0x01, 0x01, 0x00, 0x04, 0x00];
const FX_CRITICAL: &[u8] = &[0x30, 0x0A, 0x06, 0x03, 0x55, 0x1D, 0x63, 0x01, 0x01, 0xFF, 0x04, 0x00];

fn write_dn(t: &mut Tlv, tag: u8, dn: &[(u8, u64)]) {
    t.start(0x17, Some(tag));
    for (a, v) in dn {
        if (17..=22).contains(a) {
            t.u64(Some(*a), *v);
        } else {
            // the X.520 attributes are strings
            t.utf8(Some(*a), &format!("s{}", v));
        }
    }
    t.end();
}

/// The certificate without (sig = None) or with its signature element.
fn encode(c: &ACert, pk: &[u8; 65], sig: Option<&[u8; 64]>) -> Vec<u8> {
    let mut t = Tlv(Vec::with_capacity(400));
    t.start(0x15, None);
    t.bytes(Some(1), &[0x01, 0x23]); // serial number
    t.u8(Some(2), 1); // ECDSA-with-SHA256
    write_dn(&mut t, 3, &c.issuer);
    t.u32(Some(4), c.nb);
    t.u32(Some(5), c.na);
    write_dn(&mut t, 6, &c.subject);
    t.u8(Some(7), 1);
    t.u8(Some(8), 1);
    t.bytes(Some(9), pk);
    t.start(0x17, Some(10));
    if let Some((ca, pl)) = &c.bc {
        t.start(0x15, Some(1));
        t.boolean(Some(1), *ca);
        if let Some(m) = pl {
            t.u8(Some(2), *m);
        }
        t.end();
    }
    if let Some(k) = &c.ku {
        t.u16(Some(2), *k);
    }
    if let Some(e) = &c.eku {
        t.start(0x16, Some(3));
        for p in e {
            t.u8(None, *p);
        }
        t.end();
    }
    if let Some(s) = &c.skid {
        t.bytes(Some(4), &key_id(*s));
    }
    if let Some(a) = &c.akid {
        t.bytes(Some(5), &key_id(*a));
    }
    match &c.fx {
        Fx::None => {}
        Fx::NonCrit => t.bytes(Some(6), FX_NON_CRITICAL),
        Fx::Crit => t.bytes(Some(6), FX_CRITICAL),
        Fx::Many(v) => {
            for crit in v {
                t.bytes(Some(6), if *crit { FX_CRITICAL } else { FX_NON_CRITICAL });
            }
        }
    }
    t.end();
    if let Some(s) = sig {
        t.bytes(Some(11), s);
    }
    t.end();
    t.0
}

/// Abstract certificate -> real signed Matter-TLV certificate.
fn build<C: Crypto>(crypto: &C, keys: &Keys, c: &ACert) -> Vec<u8> {
    let pk = &keys.pk[c.pk % NKEYS];
    let tbs = encode(c, pk, None);
    let mut asn1 = [0u8; 1024];
    // (the crate's own DER encoder produces the bytes to sign; if it cannot encode this
    // certificate - error or panic - sign nothing useful and let the verifier meet the same input)
    let enc = rsm_harness::catch(std::panic::AssertUnwindSafe(|| {
        let mut a = [0u8; 1024];
        CertRef::new(TLVElement::new(&tbs)).as_asn1(&mut a).map(|l| (a, l))
    }));
    let len = match enc {
        Ok(Ok((a, l))) => {
            asn1 = a;
            l
        }
        _ => 8,
    };
    let sig = match &c.sig {
        Sig::Good(k) => sign(crypto, &keys.sk[*k % NKEYS], &asn1[..len]),
        Sig::Flip(k, b) => {
            let mut s = sign(crypto, &keys.sk[*k % NKEYS], &asn1[..len]);
            let b = (*b % 512) as usize;
            s[b / 8] ^= 1 << (b % 8);
            s
        }
        Sig::Other(k) => {
            asn1[len - 1] ^= 0x01; // a different message
            sign(crypto, &keys.sk[*k % NKEYS], &asn1[..len])
        }
    };
    encode(c, pk, Some(&sig))
}

// ---------------------------------------------------------------- running the real code

fn class(e: &Error) -> String {
    match e.code() {
        ErrorCode::Invalid => "1".into(),
        ErrorCode::InvalidAuthKey => "2".into(),
        ErrorCode::InvalidSignature => "3".into(),
        ErrorCode::InvalidTime => "4".into(),
        ErrorCode::InvalidData => "5".into(),
        ErrorCode::NoNodeId => "6".into(),
        ErrorCode::NoFabricId => "7".into(),
        ErrorCode::NocInvalidNoc => "8".into(),
        ErrorCode::NocInvalidPublicKey => "9".into(),
        ErrorCode::NocFabricConflict => "10".into(),
        ErrorCode::NocInvalidAdminSubject => "11".into(),
        ErrorCode::InvalidCommand => "12".into(),
        other => format!("x{:?}", other),
    }
}

fn clock(k: &str, us: &str) -> UtcTime {
    let us: u64 = us.parse().unwrap();
    if k == "R" {
        UtcTime::Reliable(us)
    } else {
        UtcTime::LastKnown(us)
    }
}

fn verify_chain<C: Crypto>(crypto: &C, time: UtcTime, certs: &[Vec<u8>]) -> Result<(), Error> {
    let refs: Vec<CertRef> = certs.iter().map(|b| CertRef::new(TLVElement::new(b))).collect();
    let mut buf = [0u8; 1024];
    let mut v = refs[0].verify_chain_start(crypto, time);
    for p in &refs[1..] {
        v = v.add_cert(p, &mut buf)?;
    }
    v.finalise(&mut buf)
}

const IPK: [u8; 16] = [7; 16];

/// A well-formed node certificate of our own for `Fabrics::add` (not validated there).
fn own_noc(fabric_id: u64, issuer: &ACert) -> ACert {
    ACert {
        subject: vec![(17, 0x0011_2233), (21, fabric_id)],
        issuer: issuer.subject.clone(),
        skid: Some(900),
        akid: issuer.skid,
        pk: 7,
        sig: Sig::Good(issuer.pk),
        nb: 1,
        na: 0,
        bc: Some((false, None)),
        ku: Some(1),
        eku: Some(vec![1, 2]),
        fx: Fx::None,
    }
}

fn simple_root(key: usize) -> ACert {
    ACert {
        subject: vec![(20, 7000 + key as u64)],
        issuer: vec![(20, 7000 + key as u64)],
        skid: Some(800 + key as u64),
        akid: Some(800 + key as u64),
        pk: key,
        sig: Sig::Good(key),
        nb: 1,
        na: 0,
        bc: Some((true, None)),
        ku: Some(0x60),
        eku: None,
        fx: Fx::None,
    }
}

fn run_line(line: &str, out: &mut String) {
    let f: Vec<&str> = line.split(' ').collect();
    if f.len() < 2 {
        return;
    }
    let crypto = test_only_crypto();
    let mut keys = Keys::new(&crypto);
    let id = f[1];
    match f[0] {
        "V" => {
            let time = clock(f[2], f[3]);
            let certs: Vec<Vec<u8>> = f[4..].iter().map(|t| build(&crypto, &keys, &ACert::parse(t))).collect();
            match verify_chain(&crypto, time, &certs) {
                Ok(()) => writeln!(out, "V {} ok", id).unwrap(),
                Err(e) => writeln!(out, "V {} err {}", id, class(&e)).unwrap(),
            }
        }
        "C" => {
            let time = clock(f[2], f[3]);
            let fid: u64 = f[4].parse().unwrap();
            let root = ACert::parse(f[5]);
            let noc = build(&crypto, &keys, &ACert::parse(f[6]));
            let icac = f.get(7).map(|t| build(&crypto, &keys, &ACert::parse(t)));
            let root_b = build(&crypto, &keys, &root);
            let own = build(&crypto, &keys, &own_noc(fid, &root));
            let mut fabrics = Fabrics::new();
            let fabric = fabrics
                .add(
                    &crypto,
                    CanonPkcSecretKeyRef::new(&keys.sk[7]),
                    &root_b,
                    &own,
                    &[],
                    Some(CanonAeadKeyRef::new(&IPK)),
                    0xfff1,
                    112233,
                )
                .expect("Fabrics::add");
            assert_eq!(fabric.fabric_id(), fid);
            let noc_ref = CertRef::new(TLVElement::new(&noc));
            let icac_ref = icac.as_ref().map(|b| CertRef::new(TLVElement::new(b)));
            let mut buf = [0u8; 1024];
            // exactly what handle_casesigma3 / the initiator's Sigma2 handling do with the peer's chain
            let res = verif_case_validate_certs(&crypto, time, fabric, &noc_ref, icac_ref.as_ref(), &mut buf)
                .and_then(|_| noc_ref.get_node_id());
            match res {
                Ok(n) => writeln!(out, "C {} ok {}", id, n).unwrap(),
                Err(e) => writeln!(out, "C {} err {}", id, class(&e)).unwrap(),
            }
        }
        "A" => {
            let time_s = clock(f[2], f[3]);
            let time = clock(f[4], f[5]);
            let fabs: Vec<(u64, usize)> = if f[6] == "." {
                vec![]
            } else {
                f[6].split(',')
                    .map(|a| {
                        let (x, k) = a.split_once(':').unwrap();
                        (x.parse().unwrap(), k.parse().unwrap())
                    })
                    .collect()
            };
            let admin: u64 = f[7].parse().unwrap();
            let mut fabrics = Fabrics::new();
            for (fid, rk) in &fabs {
                let r = simple_root(*rk);
                let rb = build(&crypto, &keys, &r);
                let nb = build(&crypto, &keys, &own_noc(*fid, &r));
                fabrics
                    .add(&crypto, CanonPkcSecretKeyRef::new(&keys.sk[7]), &rb, &nb, &[], Some(CanonAeadKeyRef::new(&IPK)), 0xfff1, 112233)
                    .expect("Fabrics::add");
            }
            let mode = SessionMode::Pase { fab_idx: 0 };
            let mut pase = Pase::new();
            let mut fs = FailSafe::new();
            fs.arm(60, 0, &mode, &mut pase).expect("arm");
            let csr: [u8; 32] = *fs.add_csr_req(&crypto, &mode).expect("csr").access();
            keys.set0(&crypto, &csr);
            let root_b = build(&crypto, &keys, &ACert::parse(f[8]));
            let noc = build(&crypto, &keys, &ACert::parse(f[9]));
            let icac = f.get(10).map(|t| build(&crypto, &keys, &ACert::parse(t)));
            let mut buf = [0u8; 1024];
            if let Err(e) = fs.add_trusted_root_cert(&crypto, time_s, &mode, &root_b, &mut buf) {
                writeln!(out, "A {} root-err {}", id, class(&e)).unwrap();
                return;
            }
            let n_before = fabrics.iter().count();
            let res = fs.add_noc(&crypto, time, &mut fabrics, &mode, 0xfff1, icac.as_deref(), &noc, &IPK, admin, &mut buf, || {});
            match res {
                Ok(fab) => {
                    let rpk = CertRef::new(TLVElement::new(fab.root_ca())).pubkey().unwrap().to_vec();
                    writeln!(out, "A {} ok {} {} {}", id, fab.fabric_id(), fab.node_id(), keys.index_of(&rpk)).unwrap()
                }
                Err(e) => {
                    assert_eq!(fabrics.iter().count(), n_before, "a rejected AddNOC left a fabric behind");
                    writeln!(out, "A {} err {}", id, class(&e)).unwrap()
                }
            }
        }
        "U" => {
            let time = clock(f[2], f[3]);
            let fid: u64 = f[4].parse().unwrap();
            let root = ACert::parse(f[5]);
            let mut fabrics = Fabrics::new();
            let fab_idx: NonZeroU8;
            {
                let root_b = build(&crypto, &keys, &root);
                let own = build(&crypto, &keys, &own_noc(fid, &root));
                fab_idx = fabrics
                    .add(&crypto, CanonPkcSecretKeyRef::new(&keys.sk[7]), &root_b, &own, &[], Some(CanonAeadKeyRef::new(&IPK)), 0xfff1, 112233)
                    .expect("Fabrics::add")
                    .fab_idx();
            }
            let mode = SessionMode::Case { fab_idx, cat_ids: Default::default() };
            let mut pase = Pase::new();
            let mut fs = FailSafe::new();
            fs.arm(60, 0, &mode, &mut pase).expect("arm");
            let csr: [u8; 32] = *fs.update_csr_req(&crypto, &mode).expect("csr").access();
            keys.set0(&crypto, &csr);
            let noc = build(&crypto, &keys, &ACert::parse(f[6]));
            let icac = f.get(7).map(|t| build(&crypto, &keys, &ACert::parse(t)));
            let mut buf = [0u8; 1024];
            let res = fs.update_noc(&crypto, time, &mut fabrics, &mode, icac.as_deref(), &noc, &mut buf, || {});
            match res {
                Ok(fab) => writeln!(out, "U {} ok {} {}", id, fab.fabric_id(), fab.node_id()).unwrap(),
                Err(e) => writeln!(out, "U {} err {}", id, class(&e)).unwrap(),
            }
        }
        "F" => {
            // every single-bit flip of one certificate of a valid chain: none may be accepted
            let time = clock(f[2], f[3]);
            let which: usize = f[4].parse().unwrap();
            let mut certs: Vec<Vec<u8>> = f[5..].iter().map(|t| build(&crypto, &keys, &ACert::parse(t))).collect();
            assert!(verify_chain(&crypto, time, &certs).is_ok(), "F line needs a valid chain");
            // the X.509 certificate a TLV certificate stands for: DER to-be-signed bytes + signature
            let x509 = |b: &[u8]| -> Option<(Vec<u8>, Vec<u8>)> {
                let mut a = [0u8; 1024];
                let c = CertRef::new(TLVElement::new(b));
                let l = c.as_asn1(&mut a).ok()?;
                let sig = TLVElement::new(b).structure().ok()?.find_ctx(11).ok()?.str().ok()?.to_vec();
                Some((a[..l].to_vec(), sig))
            };
            let orig = x509(&certs[which]);
            let (mut accepted, mut panics, mut neutral) = (0u32, 0u32, 0u32);
            for bit in 0..certs[which].len() * 8 {
                certs[which][bit / 8] ^= 1 << (bit % 8);
                match rsm_harness::catch(std::panic::AssertUnwindSafe(|| verify_chain(&crypto, time, &certs))) {
                    Ok(Ok(())) if x509(&certs[which]) == orig => {
                        // still the same X.509 certificate (the flipped bit is not part of its contents)
                        neutral += 1;
                    }
                    Ok(Ok(())) => {
                        accepted += 1;
                        if std::env::var("C19_DEBUG").is_ok() {
                            eprintln!("accepted: byte {} bit {} (orig byte {:02x}) ctx {:02x?}", bit / 8, bit % 8, certs[which][bit / 8] ^ (1 << (bit % 8)), &certs[which][(bit / 8).saturating_sub(4)..(bit / 8 + 3).min(certs[which].len())]);
                        }
                    }
                    Ok(Err(_)) => {}
                    Err(m) => {
                        panics += 1;
                        if std::env::var("C19_DEBUG").is_ok() {
                            eprintln!("panic: byte {} bit {}: {}", bit / 8, bit % 8, m);
                        }
                    }
                }
                certs[which][bit / 8] ^= 1 << (bit % 8);
            }
            if std::env::var("C19_DEBUG").is_ok() {
                eprintln!("F {}: {} flips, {} accepted as the same X.509 certificate", id, certs[which].len() * 8, neutral);
            }
            writeln!(out, "F {} accepted={} panics={}", id, accepted, panics).unwrap();
        }
        "R" => {
            let time = clock(f[2], f[3]);
            let root_b = build(&crypto, &keys, &ACert::parse(f[4]));
            let mode = SessionMode::Pase { fab_idx: 0 };
            let mut pase = Pase::new();
            let mut fs = FailSafe::new();
            fs.arm(60, 0, &mode, &mut pase).expect("arm");
            let mut buf = [0u8; 1024];
            match fs.add_trusted_root_cert(&crypto, time, &mode, &root_b, &mut buf) {
                Ok(()) => writeln!(out, "R {} ok", id).unwrap(),
                Err(e) => writeln!(out, "R {} err {}", id, class(&e)).unwrap(),
            }
        }
        _ => {}
    }
}

// ---------------------------------------------------------------- generator

#[derive(Clone)]
struct Scen {
    reliable: bool,
    us: u64,
    fabric_id: u64,
    /// leaf first, root last
    certs: Vec<ACert>,
    /// AddNOC only
    fabrics: Vec<(u64, usize)>,
    admin: u64,
    /// AddNOC: clock at AddTrustedRootCertificate time (None = same as `us`)
    stage: Option<(bool, u64)>,
}

impl Scen {
    fn now(&self) -> u64 {
        self.us / 1_000_000
    }
}

const NODE_IDS: [u64; 6] = [1, 5, 0x0000_0001_0000_0000, 0xFFFF_FFEF_FFFF_FFFF, 0x1234_5678_9ABC_DEF0, 77];
const FABRIC_IDS: [u64; 5] = [1, 9, 0xFAB0_0000_0000_001D, 0xFFFF_FFFF_FFFF_FFFF, 0x0000_0000_8000_0000];

/// A valid chain with `n_ica` intermediates (0..=3).
fn base(rng: &mut Rng, n_ica: usize) -> Scen {
    let fabric_id = if rng.chance(1, 2) { *rng.pick(&FABRIC_IDS) } else { rng.range(1, u64::MAX - 1) };
    let node_id = if rng.chance(1, 2) { *rng.pick(&NODE_IDS) } else { rng.range(1, 0xFFFF_FFEF_FFFF_FFFF) };
    let now = if rng.chance(1, 4) { rng.range(1000, 5000) } else { rng.range(700_000_000, 900_000_000) };
    let us = now * 1_000_000 + rng.below(1_000_000);
    let validity = |rng: &mut Rng| -> (u32, u32) {
        let nb = match rng.below(4) {
            0 => now,
            1 => 1,
            _ => now - rng.range(1, 900),
        };
        let na = match rng.below(4) {
            0 => 0,
            1 => now,
            _ => now + rng.range(1, 1_000_000),
        };
        (nb as u32, na as u32)
    };
    let mut chain: Vec<ACert> = Vec::new(); // root first while building
    let (nb, na) = validity(rng);
    let mut rsub = vec![(20u8, rng.range(1, 1 << 40))];
    if rng.chance(1, 3) {
        rsub.push((21, fabric_id));
    }
    if rng.chance(1, 4) {
        rsub.insert(0, (1, rng.below(1000)));
    }
    let root_pl = match rng.below(3) {
        0 => None,
        1 => Some(n_ica.max(1) as u8),
        _ => Some(n_ica as u8 + rng.below(3) as u8),
    };
    chain.push(ACert {
        subject: rsub.clone(),
        issuer: rsub,
        skid: Some(101),
        akid: Some(101),
        pk: 1,
        sig: Sig::Good(1),
        nb,
        na,
        bc: Some((true, root_pl)),
        ku: Some(if rng.chance(1, 2) { 0x60 } else { 0x20 | (rng.below(512) as u16 & 0x1de) }),
        eku: None,
        fx: if rng.chance(1, 6) { Fx::NonCrit } else { Fx::None },
    });
    for j in 0..n_ica {
        let parent = chain.last().unwrap().clone();
        let below = (n_ica - 1 - j) as u8; // intermediates under this one
        let (nb, na) = validity(rng);
        let mut sub = vec![(19u8, rng.range(1, 1 << 40))];
        if rng.chance(1, 2) {
            sub.push((21, fabric_id));
        }
        let pl = match rng.below(3) {
            0 => None,
            1 => Some(below),
            _ => Some(below + rng.below(2) as u8),
        };
        chain.push(ACert {
            subject: sub,
            issuer: parent.subject.clone(),
            skid: Some(102 + j as u64 * 10),
            akid: parent.skid,
            pk: 2 + j,
            sig: Sig::Good(parent.pk),
            nb,
            na,
            bc: Some((true, pl)),
            ku: Some(if rng.chance(2, 3) { 0x60 } else { 0x20 | (rng.below(512) as u16 & 0x1de) }),
            eku: if rng.chance(1, 8) { Some(vec![3]) } else { None },
            fx: if rng.chance(1, 8) { Fx::NonCrit } else { Fx::None },
        });
    }
    let parent = chain.last().unwrap().clone();
    let (nb, na) = validity(rng);
    let mut sub = vec![(17u8, node_id), (21, fabric_id)];
    if rng.chance(1, 3) {
        sub.swap(0, 1);
    }
    for _ in 0..rng.below(3) {
        sub.push((22, rng.range(0x0001_0001, 0xFFFF_FFFF)));
    }
    if rng.chance(1, 5) {
        sub.push((1, rng.below(1000)));
    }
    chain.push(ACert {
        subject: sub,
        issuer: parent.subject.clone(),
        skid: Some(103),
        akid: parent.skid,
        pk: 0,
        sig: Sig::Good(parent.pk),
        nb,
        na,
        bc: Some((false, None)),
        ku: Some(if rng.chance(1, 2) { 1 } else { 1 | (rng.below(512) as u16 & 0x1de) }),
        eku: Some(match rng.below(4) {
            0 => vec![2, 1],
            1 => vec![1, 2, 3],
            _ => vec![1, 2],
        }),
        fx: if rng.chance(1, 8) { Fx::NonCrit } else { Fx::None },
    });
    chain.reverse();
    let mut fabrics = Vec::new();
    for _ in 0..rng.below(3) {
        // never conflicting with (fabric_id, root key 1)
        if rng.chance(1, 2) {
            fabrics.push((fabric_id, 4 + rng.below(2) as usize));
        } else {
            fabrics.push((fabric_id ^ (1 + rng.below(9)), 1));
        }
    }
    Scen {
        reliable: rng.chance(3, 4),
        us,
        fabric_id,
        certs: chain,
        fabrics,
        admin: *rng.pick(&[112233u64, 1, 0xFFFF_FFEF_FFFF_FFFF, 0xFFFF_FFFD_0001_0001]),
        stage: None,
    }
}

/// After an authority's subject changed: keep the names linked (children's issuer, root's own issuer).
fn relink_names(s: &mut Scen, i: usize) {
    let sub = s.certs[i].subject.clone();
    if i > 0 {
        s.certs[i - 1].issuer = sub.clone();
    }
    if i + 1 == s.certs.len() {
        s.certs[i].issuer = sub;
    }
}

type Mutation = (&'static str, fn(&mut Scen, usize, &mut Rng) -> bool);

/// Mutations that matter to the wrappers' own rules: always sent through every wrapper.
const WRAPPER_SENSITIVE: &[&str] = &[
    "leaf_key_is_not_the_csr_key",
    "fabric_already_exists",
    "case_or_update_for_other_fabric",
    "admin_subject_invalid",
    "root_staged_earlier_now_expired",
    "leaf_fabric_id_removed",
    "leaf_fabric_id_changed",
    "leaf_node_id_removed",
    "authority_fabric_id_changed",
    "root_reused_as_intermediate",
    "leaf_ca_shaped_with_node_id",
    "leaf_icac_attr_before_node_attr",
    "bc_pathlen_0",
    "root_replaced_by_other_root_same_names",
    "eku_server_auth_twice",
    "eku_client_auth_twice",
    "eku_server_auth_twice_plus_other",
    "eku_client_auth_thrice",
    "critical_extension_in_second_element",
    "critical_extension_in_third_element",
    "critical_extension_first_of_two_elements",
    "two_noncritical_extension_elements",
];

/// Single-respect mutations; `i` = certificate position. Return false when not applicable.
const MUTATIONS: &[Mutation] = &[
    ("sig_bit_flip", |s, i, r| {
        let k = match s.certs[i].sig { Sig::Good(k) => k, _ => return false };
        s.certs[i].sig = Sig::Flip(k, r.below(512) as u16);
        true
    }),
    ("sig_over_other_bytes", |s, i, _| {
        let k = match s.certs[i].sig { Sig::Good(k) => k, _ => return false };
        s.certs[i].sig = Sig::Other(k);
        true
    }),
    ("sig_by_other_key", |s, i, r| {
        let k = match s.certs[i].sig { Sig::Good(k) => k, _ => return false };
        s.certs[i].sig = Sig::Good((k + 1 + r.below(5) as usize) % 7);
        true
    }),
    ("akid_changed", |s, i, r| { s.certs[i].akid = Some(500 + r.below(50)); true }),
    ("akid_removed", |s, i, _| { s.certs[i].akid = None; true }),
    ("skid_changed", |s, i, r| { s.certs[i].skid = Some(600 + r.below(50)); true }),
    ("skid_removed", |s, i, _| { s.certs[i].skid = None; true }),
    ("issuer_attr_value", |s, i, r| {
        if s.certs[i].issuer.is_empty() { return false; }
        let j = r.below(s.certs[i].issuer.len() as u64) as usize;
        s.certs[i].issuer[j].1 ^= 1 << r.below(20);
        true
    }),
    ("issuer_attr_removed", |s, i, r| {
        if s.certs[i].issuer.is_empty() { return false; }
        let j = r.below(s.certs[i].issuer.len() as u64) as usize;
        s.certs[i].issuer.remove(j);
        true
    }),
    ("issuer_attr_added", |s, i, r| { s.certs[i].issuer.push((*r.pick(&[1u8, 21, 22]), r.below(99))); true }),
    ("issuer_attrs_swapped", |s, i, _| {
        if s.certs[i].issuer.len() < 2 || s.certs[i].issuer[0] == s.certs[i].issuer[1] { return false; }
        s.certs[i].issuer.swap(0, 1);
        true
    }),
    ("issuer_attr_tag", |s, i, _| {
        // same value under the other CA attribute (rcac-id <-> icac-id)
        for a in s.certs[i].issuer.iter_mut() {
            if a.0 == 19 { a.0 = 20; return true; }
            if a.0 == 20 { a.0 = 19; return true; }
        }
        false
    }),
    ("authority_subject_attr_value", |s, i, r| {
        if i == 0 { return false; }
        let j = r.below(s.certs[i].subject.len() as u64) as usize;
        s.certs[i].subject[j].1 ^= 1 << r.below(20);
        true
    }),
    ("not_before_future", |s, i, r| { s.certs[i].nb = (s.now() + 1 + r.below(3) * r.below(1000)) as u32; true }),
    ("not_before_now", |s, i, _| { s.certs[i].nb = s.now() as u32; true }),
    ("not_after_past", |s, i, r| { s.certs[i].na = (s.now() - 1 - r.below(2) * r.below(500)) as u32; true }),
    ("not_after_now", |s, i, _| { s.certs[i].na = s.now() as u32; true }),
    ("not_after_zero", |s, i, _| { s.certs[i].na = 0; true }),
    ("not_before_future_last_known_clock", |s, i, r| {
        s.certs[i].nb = (s.now() + 1 + r.below(1000)) as u32;
        s.reliable = false;
        true
    }),
    ("clock_kind_flipped", |s, _, _| { s.reliable = !s.reliable; true }),
    ("bc_removed", |s, i, _| { s.certs[i].bc = None; true }),
    ("bc_ca_flipped", |s, i, _| {
        match s.certs[i].bc { Some((ca, pl)) => { s.certs[i].bc = Some((!ca, pl)); true } None => false }
    }),
    ("bc_pathlen_0", |s, i, _| { match s.certs[i].bc { Some((ca, _)) => { s.certs[i].bc = Some((ca, Some(0))); true } None => false } }),
    ("bc_pathlen_1", |s, i, _| { match s.certs[i].bc { Some((ca, _)) => { s.certs[i].bc = Some((ca, Some(1))); true } None => false } }),
    ("bc_pathlen_2", |s, i, _| { match s.certs[i].bc { Some((ca, _)) => { s.certs[i].bc = Some((ca, Some(2))); true } None => false } }),
    ("bc_pathlen_absent", |s, i, _| { match s.certs[i].bc { Some((ca, _)) => { s.certs[i].bc = Some((ca, None)); true } None => false } }),
    ("ku_removed", |s, i, _| { s.certs[i].ku = None; true }),
    ("ku_digital_signature_cleared", |s, i, _| { match s.certs[i].ku { Some(k) => { s.certs[i].ku = Some(k & !1); true } None => false } }),
    ("ku_key_cert_sign_cleared", |s, i, _| { match s.certs[i].ku { Some(k) => { s.certs[i].ku = Some(k & !0x20); true } None => false } }),
    ("ku_bit_flipped", |s, i, r| { match s.certs[i].ku { Some(k) => { s.certs[i].ku = Some(k ^ (1 << r.below(9))); true } None => false } }),
    ("ku_zero", |s, i, _| { s.certs[i].ku = Some(0); true }),
    ("eku_removed", |s, i, _| { s.certs[i].eku = None; true }),
    ("eku_server_only", |s, i, _| { s.certs[i].eku = Some(vec![1]); true }),
    ("eku_client_only", |s, i, _| { s.certs[i].eku = Some(vec![2]); true }),
    ("eku_empty", |s, i, _| { s.certs[i].eku = Some(vec![]); true }),
    ("eku_other_purposes", |s, i, _| { s.certs[i].eku = Some(vec![3, 4, 1]); true }),
    ("eku_unknown_purposes_added", |s, i, _| {
        // purposes outside the six known ones are dropped from the DER form: harmless, must not panic
        match &mut s.certs[i].eku { Some(e) => { e.extend_from_slice(&[7, 0, 200]); true } None => false }
    }),
    ("eku_server_auth_twice", |s, i, _| { if i != 0 { return false; } s.certs[0].eku = Some(vec![1, 1]); true }),
    ("eku_client_auth_twice", |s, i, _| { if i != 0 { return false; } s.certs[0].eku = Some(vec![2, 2]); true }),
    ("eku_server_auth_twice_plus_other", |s, i, _| { if i != 0 { return false; } s.certs[0].eku = Some(vec![1, 1, 5]); true }),
    ("eku_client_auth_thrice", |s, i, _| { if i != 0 { return false; } s.certs[0].eku = Some(vec![2, 2, 2]); true }),
    ("critical_extension_in_second_element", |s, i, _| { s.certs[i].fx = Fx::Many(vec![false, true]); true }),
    ("critical_extension_in_third_element", |s, i, _| { s.certs[i].fx = Fx::Many(vec![false, false, true]); true }),
    ("critical_extension_first_of_two_elements", |s, i, _| { s.certs[i].fx = Fx::Many(vec![true, false]); true }),
    ("two_noncritical_extension_elements", |s, i, _| { s.certs[i].fx = Fx::Many(vec![false, false]); true }),
    ("critical_unknown_extension", |s, i, _| { s.certs[i].fx = Fx::Crit; true }),
    ("noncritical_unknown_extension", |s, i, _| { s.certs[i].fx = Fx::NonCrit; true }),
    ("leaf_node_attr_becomes_icac_attr", |s, i, _| {
        if i != 0 { return false; }
        for a in s.certs[0].subject.iter_mut() { if a.0 == 17 { a.0 = 19; return true; } }
        false
    }),
    ("leaf_icac_attr_before_node_attr", |s, i, r| {
        if i != 0 { return false; }
        s.certs[0].subject.insert(0, (*r.pick(&[19u8, 20]), 5));
        true
    }),
    ("leaf_ca_shaped_with_node_id", |s, i, _| {
        // a CA certificate in every respect that also names a node: the leaf must not be a CA
        if i != 0 { return false; }
        s.certs[0].subject.insert(0, (19, 5));
        s.certs[0].bc = Some((true, None));
        s.certs[0].ku = Some(0x60);
        s.certs[0].eku = None;
        true
    }),
    ("leaf_icac_attr_after_node_attr", |s, i, _| {
        if i != 0 { return false; }
        s.certs[0].subject.push((19, 5));
        true
    }),
    ("leaf_node_id_removed", |s, i, _| {
        if i != 0 { return false; }
        s.certs[0].subject.retain(|a| a.0 != 17);
        true
    }),
    ("leaf_fabric_id_removed", |s, i, _| {
        if i != 0 { return false; }
        s.certs[0].subject.retain(|a| a.0 != 21);
        true
    }),
    ("leaf_fabric_id_changed", |s, i, r| {
        if i != 0 { return false; }
        for a in s.certs[0].subject.iter_mut() { if a.0 == 21 { a.1 ^= 1 << r.below(64); return true; } }
        false
    }),
    ("authority_fabric_id_changed", |s, i, r| {
        if i == 0 { return false; }
        let mut hit = false;
        for a in s.certs[i].subject.iter_mut() { if a.0 == 21 { a.1 ^= 1 << r.below(64); hit = true; } }
        if !hit { s.certs[i].subject.push((21, s.fabric_id ^ 0x10)); }
        relink_names(s, i);
        true
    }),
    ("authority_named_as_node", |s, i, _| {
        if i == 0 { return false; }
        s.certs[i].subject.insert(0, (17, 4242));
        relink_names(s, i);
        true
    }),
    ("authority_without_type_attr", |s, i, _| {
        if i == 0 { return false; }
        s.certs[i].subject.retain(|a| a.0 != 19 && a.0 != 20);
        s.certs[i].subject.push((1, 31));
        relink_names(s, i);
        true
    }),
    ("authority_other_ca_attr", |s, i, _| {
        // icac-id <-> rcac-id, names kept linked: allowed by the rules as modelled
        if i == 0 { return false; }
        for a in s.certs[i].subject.iter_mut() {
            if a.0 == 19 { a.0 = 20; } else if a.0 == 20 { a.0 = 19; }
        }
        relink_names(s, i);
        true
    }),
    ("swapped_with_next", |s, i, _| {
        if i + 1 >= s.certs.len() { return false; }
        s.certs.swap(i, i + 1);
        true
    }),
    ("repeated", |s, i, _| {
        if s.certs.len() >= 4 { return false; }
        let c = s.certs[i].clone();
        s.certs.insert(i, c);
        true
    }),
    ("dropped", |s, i, _| {
        if s.certs.len() < 2 { return false; }
        s.certs.remove(i);
        true
    }),
    ("leaf_used_as_authority", |s, i, _| {
        if i != 0 || s.certs.len() >= 4 { return false; }
        let noc = s.certs[0].clone();
        let mut leaf2 = noc.clone();
        leaf2.subject = vec![(17, 99), (21, s.fabric_id)];
        leaf2.issuer = noc.subject.clone();
        leaf2.akid = noc.skid;
        leaf2.skid = Some(104);
        leaf2.sig = Sig::Good(noc.pk);
        leaf2.pk = 5;
        s.certs.insert(0, leaf2);
        true
    }),
    ("root_reused_as_intermediate", |s, i, _| {
        // [noc issued by the root; root; root]
        if i != 0 || s.certs.len() != 2 { return false; }
        let r = s.certs[1].clone();
        s.certs.insert(1, r);
        true
    }),
    ("root_not_self_signed", |s, i, _| {
        if i + 1 != s.certs.len() { return false; }
        s.certs[i].sig = Sig::Good(6);
        true
    }),
    ("root_replaced_by_other_root_same_names", |s, i, _| {
        // another key pair under the same names and key ids: not the issuer of this chain
        if i + 1 != s.certs.len() || s.certs.len() < 2 { return false; }
        s.certs[i].pk = 6;
        s.certs[i].sig = Sig::Good(6);
        true
    }),
    ("root_replaced_by_unrelated_root", |s, i, _| {
        if i + 1 != s.certs.len() || s.certs.len() < 2 { return false; }
        s.certs[i] = simple_root(6);
        true
    }),
    ("leaf_key_is_not_the_csr_key", |s, i, r| {
        if i != 0 { return false; }
        s.certs[0].pk = 3 + r.below(3) as usize;
        true
    }),
    ("fabric_already_exists", |s, i, _| {
        if i != 0 { return false; }
        let rk = s.certs.last().unwrap().pk;
        s.fabrics.push((s.fabric_id, rk));
        true
    }),
    ("case_or_update_for_other_fabric", |s, i, r| {
        if i != 0 { return false; }
        s.fabric_id ^= 1 << r.below(64);
        true
    }),
    ("admin_subject_invalid", |s, i, r| {
        if i != 0 { return false; }
        s.admin = *r.pick(&[0u64, 0xFFFF_FFF0_0000_0000, 0xFFFF_FFFF_FFFF_0001, 0xFFFF_FFFD_0000_0000, 0xFFFF_FFFF_FFFF_FFFF]);
        true
    }),
    ("clock_sub_second", |s, _, r| { s.us = s.now() * 1_000_000 + *r.pick(&[0u64, 999_999]); true }),
    ("root_staged_earlier_now_expired", |s, i, _| {
        if i + 1 != s.certs.len() { return false; }
        let now = s.now();
        s.certs[i].na = (now - 1) as u32;
        if s.certs[i].nb as u64 >= now - 1 { s.certs[i].nb = 1; }
        s.stage = Some((s.reliable, (now - 2) * 1_000_000));
        true
    }),
];

fn emit(cases: &mut Vec<String>, id: &mut u64, label: &str, s: &Scen, rng: &mut Rng, all_wrappers: bool, kinds: &mut BTreeMap<String, u64>) {
    let clk = if s.reliable { "R" } else { "L" };
    let toks: Vec<String> = s.certs.iter().map(|c| c.token()).collect();
    let mut push = |k: &str, body: String| {
        *id += 1;
        *kinds.entry(k.to_string()).or_insert(0) += 1;
        cases.push(format!("{} {}.{} {}", k, id, label, body));
    };
    let n = s.certs.len();
    if n == 0 {
        return;
    }
    push("V", format!("{} {} {}", clk, s.us, toks.join(" ")));
    if n == 1 {
        push("R", format!("{} {} {}", clk, s.us, toks[0]));
        return;
    }
    if n > 3 {
        return;
    }
    let root = &toks[n - 1];
    let rest = if n == 3 { format!("{} {}", toks[0], toks[1]) } else { toks[0].clone() };
    let pick = if all_wrappers { 7 } else { 1 << rng.below(3) };
    if pick & 1 != 0 {
        push("C", format!("{} {} {} {} {}", clk, s.us, s.fabric_id, root, rest));
    }
    if pick & 2 != 0 {
        let fabs = if s.fabrics.is_empty() {
            ".".to_string()
        } else {
            s.fabrics.iter().map(|(f, k)| format!("{}:{}", f, k)).collect::<Vec<_>>().join(",")
        };
        let (sr, sus) = s.stage.unwrap_or((s.reliable, s.us));
        push(
            "A",
            format!("{} {} {} {} {} {} {} {}", if sr { "R" } else { "L" }, sus, clk, s.us, fabs, s.admin, root, rest),
        );
    }
    if pick & 4 != 0 {
        push("U", format!("{} {} {} {} {}", clk, s.us, s.fabric_id, root, rest));
    }
}

fn generate(tier: &str, seed: u64) -> (Vec<String>, BTreeMap<String, u64>) {
    let thorough = tier == "thorough";
    let mut rng = Rng::new(seed ^ 0xC19);
    let mut cases = Vec::new();
    let mut stats: BTreeMap<String, u64> = BTreeMap::new();
    let mut kinds: BTreeMap<String, u64> = BTreeMap::new();
    let mut id = 0u64;
    let n_bases = if thorough { 240 } else { 18 };
    let n_multi = if thorough { 60_000 } else { 3_000 };
    let n_flip = if thorough { 8 } else { 2 };
    let shapes: [usize; 6] = [1, 0, 1, 0, 2, 3];
    let mut bases = Vec::new();
    for b in 0..n_bases {
        let sc = base(&mut rng, shapes[b % shapes.len()]);
        // the valid chain itself, through every wrapper, under both clocks
        emit(&mut cases, &mut id, "valid", &sc, &mut rng, true, &mut kinds);
        let mut lk = sc.clone();
        lk.reliable = !lk.reliable;
        emit(&mut cases, &mut id, "valid_other_clock", &lk, &mut rng, true, &mut kinds);
        *stats.entry("valid_base".into()).or_insert(0) += 2;
        // its root on its own
        let mut ro = sc.clone();
        ro.certs = vec![sc.certs.last().unwrap().clone()];
        emit(&mut cases, &mut id, "root_alone", &ro, &mut rng, true, &mut kinds);
        // every single-respect mutation at every position
        for (name, m) in MUTATIONS {
            for i in 0..sc.certs.len() {
                let mut s = sc.clone();
                if m(&mut s, i, &mut rng) {
                    *stats.entry((*name).into()).or_insert(0) += 1;
                    let all = WRAPPER_SENSITIVE.contains(name);
                    emit(&mut cases, &mut id, &format!("{}@{}", name, i), &s, &mut rng, all, &mut kinds);
                }
            }
        }
        // single mutations of the stand-alone root
        for (name, m) in MUTATIONS {
            let mut s = ro.clone();
            if m(&mut s, 0, &mut rng) && s.certs.len() == 1 {
                *stats.entry(format!("root_alone:{}", name)).or_insert(0) += 1;
                emit(&mut cases, &mut id, &format!("root_alone:{}", name), &s, &mut rng, false, &mut kinds);
            }
        }
        // exhaustive single-bit flips of every certificate of the first chains (with / without intermediate)
        if b < n_flip {
            let clk = if sc.reliable { "R" } else { "L" };
            let toks: Vec<String> = sc.certs.iter().map(|c| c.token()).collect();
            for which in 0..sc.certs.len() {
                id += 1;
                *kinds.entry("F".into()).or_insert(0) += 1;
                cases.push(format!("F {}.all_bit_flips@{} {} {} {} {}", id, which, clk, sc.us, which, toks.join(" ")));
            }
        }
        bases.push(sc);
    }
    // random multi-mutations
    for _ in 0..n_multi {
        let mut s = bases[rng.below(bases.len() as u64) as usize].clone();
        let k = rng.range(2, 4);
        let mut applied = 0;
        let mut label = String::from("multi");
        for _ in 0..k {
            let (name, m) = MUTATIONS[rng.below(MUTATIONS.len() as u64) as usize];
            if s.certs.is_empty() {
                break;
            }
            let i = rng.below(s.certs.len() as u64) as usize;
            if m(&mut s, i, &mut rng) {
                applied += 1;
                write!(label, "+{}@{}", name, i).unwrap();
            }
        }
        if applied >= 2 && !s.certs.is_empty() {
            *stats.entry("multi".into()).or_insert(0) += 1;
            emit(&mut cases, &mut id, &label, &s, &mut rng, false, &mut kinds);
        }
    }
    for (k, v) in kinds {
        stats.insert(format!("lines_{}", k), v);
    }
    (cases, stats)
}

fn main() {
    let args: Vec<String> = std::env::args().collect();
    match args.get(1).map(|s| s.as_str()) {
        Some("gen") => {
            let tier = &args[2];
            let seed: u64 = args[3].parse().unwrap();
            let outdir = std::path::PathBuf::from(&args[4]);
            std::fs::create_dir_all(&outdir).unwrap();
            let (cases, stats) = generate(tier, seed);
            let mut cf = std::io::BufWriter::new(std::fs::File::create(outdir.join("cases.txt")).unwrap());
            for c in &cases {
                writeln!(cf, "{}", c).unwrap();
            }
            let mut sj = String::from("{");
            for (i, (k, v)) in stats.iter().enumerate() {
                if i > 0 {
                    sj.push(',');
                }
                write!(sj, "\"{}\":{}", k, v).unwrap();
            }
            sj.push('}');
            std::fs::write(outdir.join("stats.json"), sj).unwrap();
        }
        Some("run") => {
            let text = std::fs::read_to_string(&args[2]).unwrap();
            let mut out = String::new();
            rsm_harness::silence_panics();
            for line in text.lines() {
                let mut o = String::new();
                match rsm_harness::catch(std::panic::AssertUnwindSafe(|| run_line(line, &mut o))) {
                    Ok(()) => out.push_str(&o),
                    Err(msg) => {
                        let f: Vec<&str> = line.split(' ').collect();
                        let msg: String = msg.chars().map(|c| if c == ' ' { '_' } else { c }).take(80).collect();
                        writeln!(out, "{} {} panic {}", f[0], f.get(1).unwrap_or(&"?"), msg).unwrap();
                    }
                }
            }
            print!("{}", out);
        }
        _ => {
            eprintln!("usage: c19 gen <tier> <seed> <outdir> | c19 run <cases>");
            std::process::exit(2);
        }
    }
}
