//! C10 correspondence harness (exchange routing, the single RX slot, sweepers).
//!
//! usage: c10 gen <quick|thorough> <seed> <outdir>   -> cases.txt (+ stats.json)
//!        c10 run <cases-file>                        -> one canonical line per case from the REAL code
//!
//! Case kinds (same line format is printed by ocaml/c10/driver.ml from the extracted model)
//!   P <id> enc=<0|1> exp=<0|1> pre=<slot>,<slot>,..  msg=<m>
//!        one `Session::verif_post_recv` on a session whose exchange table was built to `pre`
//!        slot = <exid>/<I|R>/<o|d|p>/<retr ctr|->/<ack ctr|->   or  `-` (freed slot)
//!        m    = <ctr>:<exid>:<i|r>:<op>:<rel>:<ack|->      op in o n a s c (see opclass in Model/Exchange.v)
//!   S <id> <op>;<op>;...     the real transport stepped through the verification hooks, one model label per op
//!   E <id> h=<handlers> ga=<0|1> s=<script>   end to end: real nodes, real tasks, scripted ghost peer
use core::num::NonZeroU8;
use core::pin::pin;
use std::cell::{Cell, RefCell};
use std::fmt::Write as _;
use std::io::Write as _;

use embassy_futures::select::{select, select4, select_slice, Either};
use embassy_time::{Duration, Instant, Timer};

use rs_matter::crypto::{test_only_crypto, CanonAeadKey, Crypto, AEAD_KEY_ZEROED};
use rs_matter::fabric::GroupKeyMapping;
use rs_matter::group_keys::{GroupEpochKeyEntry, GroupKeySet, KeySet};
use rs_matter::transport::network::{Address, NetworkSend};
use rs_matter::transport::session::derive_group_session_id;
use rs_matter::error::{Error, ErrorCode};
use rs_matter::sc::{sc_write, SCStatusCodes};
use rs_matter::transport::exchange::{Exchange, MessageMeta};
use rs_matter::transport::network::NoNetwork;
use rs_matter::transport::packet::PacketHdr;
use rs_matter::transport::session::VerifSessionSnapshot;
use rs_matter::utils::select::Coalesce;
use rs_matter::utils::storage::{ParseBuf, WriteBuf};
use rs_matter::Matter;

use rsm_harness::e2e::{self, Net};
use rsm_harness::Rng;

#[path = "../c10_steps.rs"]
mod steps;

pub const A: u16 = 1;
pub const B: u16 = 2;
pub const G: u16 = 3;
pub const A_NODE: u64 = 0x1111;
pub const B_NODE: u64 = 0x2222;
pub const G_NODE: u64 = 0x3333;
const SAI_MS: u32 = 80;
pub const PROTO: u16 = 0x00F0;
const PROTO_SC: u16 = 0;

pub fn err_class(e: &Error) -> &'static str {
    match e.code() {
        ErrorCode::Duplicate => "dup",
        ErrorCode::NoExchange => "noexch",
        ErrorCode::NoSession => "nosess",
        ErrorCode::NoSpaceExchanges => "nospace",
        ErrorCode::TxTimeout => "txtimeout",
        ErrorCode::RxTimeout => "rxtimeout",
        ErrorCode::InvalidState => "invstate",
        _ => "err",
    }
}

// ------------------------------------------------------------------ canonical tables

/// `<exid>/<I|R>/<o|d|p>/<retr ctr|->/<ack ctr|->`; an acknowledged ack entry prints as `<ctr>+`
pub fn slots_str(snap: &VerifSessionSnapshot, nslots: usize) -> String {
    let mut v = Vec::new();
    for i in 0..nslots {
        match snap.exchanges.iter().find(|e| e.index == i) {
            Some(e) => v.push(format!(
                "{}/{}/{}/{}/{}",
                e.exch_id,
                e.role,
                e.state,
                e.retrans_ctr.map(|c| c.to_string()).unwrap_or_else(|| "-".into()),
                match e.ack_ctr {
                    Some((c, false)) => c.to_string(),
                    Some((c, true)) => format!("{}+", c),
                    None => "-".into(),
                }
            )),
            None => v.push("-".to_string()),
        }
    }
    v.join(",")
}

pub fn table_len(snap: &VerifSessionSnapshot) -> usize {
    snap.exchanges.iter().map(|e| e.index + 1).max().unwrap_or(0)
}

// ------------------------------------------------------------------ wire helpers

/// op class letter -> (protocol id, opcode, payload is a CloseSession status report)
pub fn op_wire(op: char) -> (u16, u8) {
    match op {
        'a' => (PROTO_SC, 0x10),
        's' | 'c' => (PROTO_SC, 0x40),
        'n' => (PROTO_SC, 0x30),
        _ => (PROTO, 1),
    }
}

pub fn status_payload(close: bool) -> Vec<u8> {
    let mut buf = [0u8; 64];
    let mut wb = WriteBuf::new(&mut buf);
    sc_write(&mut wb, if close { SCStatusCodes::CloseSession } else { SCStatusCodes::Busy }, &[]).unwrap();
    wb.as_slice().to_vec()
}

#[allow(clippy::too_many_arguments)]
pub fn craft<C: Crypto>(
    crypto: C,
    sess_id: u16,
    ctr: u32,
    src_node: u64,
    exid: u16,
    init: bool,
    rel: bool,
    ack: Option<u32>,
    proto_id: u16,
    opcode: u8,
    payload: &[u8],
    encrypted: bool,
) -> Vec<u8> {
    let mut hdr = PacketHdr::new();
    hdr.plain.sess_id = sess_id;
    hdr.plain.ctr = ctr;
    if !encrypted {
        hdr.plain.set_src_nodeid(Some(src_node));
    }
    hdr.proto.exch_id = exid;
    if init {
        hdr.proto.set_initiator();
    }
    if rel {
        hdr.proto.set_reliable();
    }
    hdr.proto.set_ack(ack);
    hdr.proto.proto_id = proto_id;
    hdr.proto.proto_opcode = opcode;
    let mut buf = [0u8; 1280];
    let mut wb = WriteBuf::new_with(&mut buf, PacketHdr::HDR_RESERVE, PacketHdr::HDR_RESERVE);
    wb.append(payload).unwrap();
    let key = AEAD_KEY_ZEROED;
    hdr.encode(crypto, if encrypted { Some(key.reference()) } else { None }, src_node, &mut wb)
        .unwrap();
    wb.as_slice().to_vec()
}

/// Decode a datagram sent by a node whose node id is `src_node` on a zero-key session.
pub fn decode<C: Crypto>(crypto: C, bytes: &[u8], src_node: u64) -> Option<(PacketHdr, Vec<u8>)> {
    let mut buf = bytes.to_vec();
    let mut hdr = PacketHdr::new();
    let mut pb = ParseBuf::new(&mut buf[..]);
    hdr.decode_plain_hdr(&mut pb).ok()?;
    let key = AEAD_KEY_ZEROED;
    let k = if hdr.plain.is_encrypted() { Some(key.reference()) } else { None };
    hdr.decode_remaining(crypto, k, src_node, &mut pb).ok()?;
    let payload = pb.as_slice().to_vec();
    Some((hdr, payload))
}

/// what a datagram sent by the device under test is, for the output summary
pub fn classify<C: Crypto>(crypto: C, bytes: &[u8], src_node: u64) -> String {
    match decode(crypto, bytes, src_node) {
        None => "undecodable".into(),
        Some((hdr, payload)) => {
            if hdr.proto.proto_id == PROTO_SC && hdr.proto.proto_opcode == 0x10 {
                format!("sack:{}:{}", hdr.plain.sess_id, hdr.proto.exch_id)
            } else if hdr.proto.proto_id == PROTO_SC && hdr.proto.proto_opcode == 0x40 {
                let mut p = payload.clone();
                let mut pb = ParseBuf::new(&mut p[..]);
                match rs_matter::sc::StatusReport::read(&mut pb) {
                    Ok(r) if r.proto_code == SCStatusCodes::CloseSession as u16 => format!("close:{}", hdr.plain.sess_id),
                    Ok(r) if r.proto_code == SCStatusCodes::SessionNotFound as u16 => "snf".to_string(),
                    Ok(r) => format!("status{}:{}", r.proto_code, hdr.plain.sess_id),
                    Err(_) => "status?".into(),
                }
            } else {
                format!("msg:{}:{}", hdr.plain.sess_id, hdr.proto.exch_id)
            }
        }
    }
}

// ------------------------------------------------------------------ P: Session::post_recv

fn run_p(f: &[&str]) -> String {
    steps::run_p(f)
}

// ------------------------------------------------------------------ group messages, slow network

pub const GROUP_ID: u16 = 7;
const GROUP_EPOCH_KEY: [u8; 16] = [0x5a; 16];

fn canon_key(bytes: &[u8; 16]) -> CanonAeadKey {
    let mut k = CanonAeadKey::new();
    k.load_from_array(bytes);
    k
}

/// operational group key as the device derives it (compressed fabric id of the empty test fabric = 0)
fn group_op_key<C: Crypto>(crypto: &C) -> [u8; 16] {
    let mut ks = KeySet::new();
    ks.update(crypto, canon_key(&GROUP_EPOCH_KEY).reference(), &0u64).unwrap();
    let mut out = [0u8; 16];
    out.copy_from_slice(ks.op_key().access());
    out
}

pub fn group_sid<C: Crypto>(crypto: &C) -> u16 {
    derive_group_session_id(crypto, canon_key(&group_op_key(crypto)).reference()).unwrap()
}

pub fn install_group(matter: &Matter<'_>) {
    matter.with_state(|state| {
        let fabric = state.fabrics.fabric_mut(NonZeroU8::new(1).unwrap()).unwrap();
        let mut epoch_keys = rs_matter::utils::storage::Vec::new();
        epoch_keys
            .push(GroupEpochKeyEntry { epoch_key: canon_key(&GROUP_EPOCH_KEY), epoch_start_time: 0 })
            .map_err(|_| ())
            .unwrap();
        fabric.groups_mut().key_set_add(GroupKeySet { group_key_set_id: 100, group_key_security_policy: 0, epoch_keys }).unwrap();
        fabric.groups_mut().key_map_add(GroupKeyMapping { group_id: GROUP_ID, group_key_set_id: 100 }).unwrap();
    });
}

/// a groupcast data message from the ghost (source node id in the clear, group flag, DSIZ = group)
#[allow(clippy::too_many_arguments)]
pub fn craft_group<C: Crypto>(crypto: C, ctr: u32, exid: u16, init: bool, rel: bool, proto_id: u16, opcode: u8, payload: &[u8]) -> Vec<u8> {
    let key = canon_key(&group_op_key(&crypto));
    let mut hdr = PacketHdr::new();
    hdr.plain.sess_id = group_sid(&crypto);
    hdr.plain.ctr = ctr;
    hdr.plain.set_group_session(true);
    hdr.plain.set_src_nodeid(Some(G_NODE));
    hdr.plain.set_dst_groupcast_nodeid(Some(GROUP_ID));
    hdr.proto.exch_id = exid;
    if init {
        hdr.proto.set_initiator();
    }
    if rel {
        hdr.proto.set_reliable();
    }
    hdr.proto.proto_id = proto_id;
    hdr.proto.proto_opcode = opcode;
    let mut buf = [0u8; 1280];
    let mut wb = WriteBuf::new_with(&mut buf, PacketHdr::HDR_RESERVE, PacketHdr::HDR_RESERVE);
    wb.append(payload).unwrap();
    hdr.encode(crypto, Some(key.reference()), G_NODE, &mut wb).unwrap();
    wb.as_slice().to_vec()
}

/// a network whose every send takes `ms` (a slow radio): the TX buffer stays locked that long
struct SlowSend<S> {
    inner: S,
    ms: u64,
}

impl<S: NetworkSend> NetworkSend for SlowSend<S> {
    async fn send_to(&mut self, data: &[u8], addr: Address) -> Result<(), Error> {
        if self.ms > 0 {
            Timer::after(Duration::from_millis(self.ms)).await;
        }
        self.inner.send_to(data, addr).await
    }
}

// ------------------------------------------------------------------ E: end to end

#[derive(Clone, Copy)]
struct HandlerCfg {
    kind: char,
    delay: u32,
}

#[derive(Clone, Debug)]
enum Op {
    /// ghost datagram on ghost session `sess`
    Ghost { sess: u8, exid: u16, init: bool, rel: bool, op: char, beh: u8, arg: u16 },
    /// groupcast data message of the ghost (real group key installed on the device)
    Group { exid: u16, rel: bool, beh: u8, arg: u16 },
    /// ghost acknowledges the last message the device sent on that exchange
    GhostAck { sess: u8, exid: u16, init: bool },
    Wait(u32),
    /// probe from the real controller node on a fresh exchange (`attempts` = 2: retried once like a real peer)
    ProbeA(u32, u8),
    /// probe from the ghost on a fresh exchange of ghost session `sess`
    ProbeG { sess: u8, timeout: u32, attempts: u8 },
}

struct ECase {
    handlers: Vec<HandlerCfg>,
    ghost_autoack: bool,
    slow_ms: u64,
    script: Vec<Op>,
}

fn parse_e(f: &[&str]) -> ECase {
    let mut c = ECase { handlers: vec![], ghost_autoack: true, slow_ms: 0, script: vec![] };
    for kv in &f[2..] {
        let Some((k, v)) = kv.split_once('=') else { continue };
        match k {
            "h" => {
                for h in v.split('.').filter(|x| !x.is_empty()) {
                    c.handlers.push(HandlerCfg { kind: h.as_bytes()[0] as char, delay: h[1..].parse().unwrap_or(0) });
                }
            }
            "ga" => c.ghost_autoack = v == "1",
            "slow" => c.slow_ms = v.parse().unwrap_or(0),
            "s" => {
                for o in v.split(';').filter(|x| !x.is_empty()) {
                    let p: Vec<&str> = o[1..].split(':').collect();
                    let op = match o.as_bytes()[0] {
                        b'g' => Op::Ghost {
                            sess: p[0].parse().unwrap(),
                            exid: p[1].parse().unwrap(),
                            init: p[2] == "i",
                            rel: p[3] == "1",
                            op: p[4].chars().next().unwrap(),
                            beh: p[5].parse().unwrap(),
                            arg: p[6].parse().unwrap(),
                        },
                        b'x' => Op::Group { exid: p[0].parse().unwrap(), rel: p[1] == "1", beh: p[2].parse().unwrap(), arg: p[3].parse().unwrap() },
                        b'a' => Op::GhostAck { sess: p[0].parse().unwrap(), exid: p[1].parse().unwrap(), init: p[2] == "i" },
                        b'w' => Op::Wait(p[0].parse().unwrap()),
                        b'p' => Op::ProbeA(p[0].parse().unwrap(), 1),
                        b'P' => Op::ProbeA(p[0].parse().unwrap(), 2),
                        b'q' => Op::ProbeG { sess: p[0].parse().unwrap(), timeout: p[1].parse().unwrap(), attempts: 1 },
                        b'Q' => Op::ProbeG { sess: p[0].parse().unwrap(), timeout: p[1].parse().unwrap(), attempts: 2 },
                        _ => continue,
                    };
                    c.script.push(op);
                }
            }
            _ => {}
        }
    }
    c
}

/// payload: [beh][tag u32][sess u8][exid u16][init u8][arg u16]
fn mk_payload(beh: u8, tag: u32, sess: u8, exid: u16, init: bool, arg: u16) -> Vec<u8> {
    let mut p = vec![beh];
    p.extend_from_slice(&tag.to_le_bytes());
    p.push(sess);
    p.extend_from_slice(&exid.to_le_bytes());
    p.push(init as u8);
    p.extend_from_slice(&arg.to_le_bytes());
    p
}

struct Parsed {
    beh: u8,
    tag: u32,
    sess: u8,
    exid: u16,
    init: bool,
    arg: u16,
}

fn parse_payload(p: &[u8]) -> Option<Parsed> {
    if p.len() < 11 {
        return None;
    }
    Some(Parsed {
        beh: p[0],
        tag: u32::from_le_bytes([p[1], p[2], p[3], p[4]]),
        sess: p[5],
        exid: u16::from_le_bytes([p[6], p[7]]),
        init: p[8] != 0,
        arg: u16::from_le_bytes([p[9], p[10]]),
    })
}

/// local session id of the device's session number `sess` (0 = the controller's, 1/2 = ghost sessions)
static GROUP_SID: std::sync::atomic::AtomicU16 = std::sync::atomic::AtomicU16::new(0);

fn local_sess_id(sess: u8) -> u16 {
    match sess {
        0 => 2,
        9 => GROUP_SID.load(std::sync::atomic::Ordering::Relaxed),
        n => 10 + n as u16,
    }
}

#[derive(Default)]
struct DevLog {
    /// tag, payload's (sess, exid, init), the receiving exchange's (local sess id, exid, role)
    deliveries: RefCell<Vec<(u32, u8, u16, bool, u16, u16, char)>>,
    accepted_dropped: Cell<u32>,
}

/// identity of an Exchange object as the session table sees it
fn ident(matter: &Matter<'_>, ex: &Exchange<'_>) -> (u16, u16, char) {
    let s = format!("{}", ex.id());
    let (sid, idx) = s.split_once("::").unwrap();
    let sid: u32 = sid.parse().unwrap();
    let idx: usize = idx.parse().unwrap();
    matter.with_state(|st| {
        for se in st.verif_sessions().iter() {
            if se.id() == sid {
                let snap = se.verif_snapshot();
                if let Some(e) = snap.exchanges.iter().find(|e| e.index == idx) {
                    return (snap.local_sess_id, e.exch_id, e.role);
                }
                return (snap.local_sess_id, 0, '?');
            }
        }
        (0, 0, '?')
    })
}

async fn behave(matter: &Matter<'_>, mut ex: Exchange<'_>, log: &DevLog) -> Result<(), Error> {
    let me = ident(matter, &ex);
    let (p, raw) = {
        let rx = ex.recv_fetch().await?;
        let raw = rx.payload().to_vec();
        (parse_payload(&raw), raw)
    };
    let Some(p) = p else {
        log.deliveries.borrow_mut().push((0xffff_ffff, 0, 0, false, me.0, me.1, me.2));
        return Ok(());
    };
    log.deliveries.borrow_mut().push((p.tag, p.sess, p.exid, p.init, me.0, me.1, me.2));
    if p.beh != 4 {
        ex.rx_done()?;
    }
    match p.beh {
        1 => ex.send(MessageMeta::new(PROTO, 2, true), &raw).await,
        2 => Ok(()),
        3 => {
            let r = {
                let mut send = pin!(ex.send(MessageMeta::new(PROTO, 2, true), &raw));
                let mut t = pin!(Timer::after(Duration::from_millis(p.arg as u64)));
                select(&mut send, &mut t).await
            };
            match r {
                Either::First(r) => r,
                Either::Second(_) => Ok(()),
            }
        }
        4 => {
            Timer::after(Duration::from_millis(p.arg as u64)).await;
            ex.rx_done()?;
            ex.send(MessageMeta::new(PROTO, 2, true), &raw).await
        }
        5 => {
            let second = {
                let mut rcv = pin!(ex.recv());
                let mut t = pin!(Timer::after(Duration::from_millis(p.arg as u64)));
                match select(&mut rcv, &mut t).await {
                    Either::First(Ok(rx)) => Some(parse_payload(rx.payload())),
                    Either::First(Err(e)) => return Err(e),
                    Either::Second(_) => None,
                }
            };
            if let Some(q) = second {
                let me2 = ident(matter, &ex);
                match q {
                    Some(q) => log.deliveries.borrow_mut().push((q.tag, q.sess, q.exid, q.init, me2.0, me2.1, me2.2)),
                    None => log.deliveries.borrow_mut().push((0xffff_fffe, 0, 0, false, me2.0, me2.1, me2.2)),
                }
                ex.acknowledge().await?;
            }
            Ok(())
        }
        6 => {
            ex.acknowledge().await?;
            Timer::after(Duration::from_millis(p.arg as u64)).await;
            Ok(())
        }
        7 => {
            // wait, then answer with an unreliable echo (nobody retransmits it)
            Timer::after(Duration::from_millis(p.arg as u64)).await;
            ex.send(MessageMeta::new(PROTO, 2, false), &raw).await
        }
        _ => Ok(()),
    }
}

/// kinds: n = behaves as the first payload says; x = drops every exchange right after accepting it
/// (with a delay: only what nobody else accepted in time); y = like x for the first exchange, then n
async fn handler_loop(matter: &Matter<'_>, cfg: HandlerCfg, log: &DevLog) -> Result<(), Error> {
    let mut first = true;
    loop {
        let ex = Exchange::accept_after(matter, cfg.delay).await?;
        if cfg.kind == 'x' || (cfg.kind == 'y' && first) {
            first = false;
            log.accepted_dropped.set(log.accepted_dropped.get() + 1);
            drop(ex);
            continue;
        }
        let _ = behave(matter, ex, log).await;
    }
}

fn run_e(case: &ECase) -> String {
    let net = Net::reliable();
    let crypto = test_only_crypto();
    // the device retransmits fast (its ladders end within ~1.5 s); the controller is patient (~5.6 s)
    let det = e2e::dev_det(Some(SAI_MS), Some(SAI_MS));
    let det_a = e2e::dev_det(Some(300), Some(300));
    let matter_a = e2e::new_matter(det_a, true);
    let matter_b = e2e::new_matter(det, true);
    e2e::preset_case_session(&matter_a, &crypto, A_NODE, B_NODE, 1, 2, e2e::node_addr(B), 1, Default::default()).unwrap();
    e2e::preset_case_session(&matter_b, &crypto, B_NODE, A_NODE, 2, 1, e2e::node_addr(A), 1, Default::default()).unwrap();
    for n in 1..=2u16 {
        e2e::preset_case_session(&matter_b, &crypto, B_NODE, G_NODE, 10 + n, 20 + n, e2e::node_addr(G), 1, Default::default()).unwrap();
    }
    install_group(&matter_b);
    GROUP_SID.store(group_sid(&crypto), std::sync::atomic::Ordering::Relaxed);
    let (a_tx, a_rx) = net.attach(A);
    let (b_tx, b_rx) = net.attach(B);
    let b_tx = SlowSend { inner: b_tx, ms: case.slow_ms };
    let (_g_tx, _g_rx) = net.attach(G);
    let log = DevLog::default();
    let probes: RefCell<Vec<String>> = RefCell::new(Vec::new());
    let final_tables: RefCell<String> = RefCell::new(String::new());
    let final_shape: RefCell<String> = RefCell::new(String::new());
    let ghost_ctr: [Cell<u32>; 3] = [Cell::new(0), Cell::new(1000), Cell::new(5000)];
    let group_ctr = Cell::new(9000u32);
    let handlers = case.handlers.clone();
    let autoack = case.ghost_autoack;

    let ghost_send = |sess: u8, exid: u16, init: bool, rel: bool, ack: Option<u32>, op: char, payload: &[u8]| {
        let c = &ghost_ctr[sess as usize];
        c.set(c.get() + 1);
        let (pid, opc) = op_wire(op);
        let body = match op {
            's' => status_payload(false),
            'c' => status_payload(true),
            _ => payload.to_vec(),
        };
        let pkt = craft(&crypto, local_sess_id(sess), c.get(), G_NODE, exid, init, rel, ack, pid, opc, &body, true);
        net.inject(G, B, &pkt);
    };
    // last counter the device used towards the ghost on (session, exchange)
    let last_dev_ctr = |sess: u8, exid: u16| -> Option<u32> {
        net.tap()
            .iter()
            .rev()
            .filter(|t| t.src == B && t.dst == G)
            .filter_map(|t| decode(&crypto, &t.bytes, B_NODE))
            .find(|(h, _)| h.plain.sess_id == 20 + sess as u16 && h.proto.exch_id == exid && !(h.proto.proto_id == PROTO_SC && h.proto.proto_opcode == 0x10))
            .map(|(h, _)| h.plain.ctr)
    };

    let outcome = e2e::block_on(async {
        let nodes = select(
            matter_b.run(&crypto, b_tx, b_rx, NoNetwork),
            matter_a.run(&crypto, a_tx, a_rx, NoNetwork),
        )
        .coalesce();
        let pool = async {
            if handlers.is_empty() {
                return core::future::pending::<Result<(), Error>>().await;
            }
            let mut futs = Vec::new();
            for h in handlers.iter() {
                futs.push(handler_loop(&matter_b, *h, &log));
            }
            let futs = pin!(futs);
            let futs = unsafe { futs.map_unchecked_mut(|f| f.as_mut_slice()) };
            select_slice(futs).await.0
        };
        // ghost acknowledges every reliable message of the device (standalone ack, opposite role)
        let acker = async {
            let debug = std::env::var("C10_DEBUG").is_ok();
            let mut seen = 0usize;
            let mut last = String::new();
            loop {
                Timer::after(Duration::from_millis(2)).await;
                if debug {
                    let t: Vec<String> = matter_b.with_state(|st| {
                        st.verif_sessions().iter().map(|s| { let snap = s.verif_snapshot(); format!("L{}[{}]", snap.local_sess_id, slots_str(&snap, table_len(&snap))) }).collect()
                    });
                    let cur = format!("{} taps={}", t.join(""), net.tap().len());
                    if cur != last {
                        eprintln!("[{} ms] {}", net.elapsed_ms(), cur);
                        last = cur;
                    }
                }
                if !autoack {
                    continue;
                }
                let tap = net.tap();
                for t in tap.iter().skip(seen) {
                    if t.src == B && t.dst == G {
                        if let Some((h, _)) = decode(&crypto, &t.bytes, B_NODE) {
                            let is_sack = h.proto.proto_id == PROTO_SC && h.proto.proto_opcode == 0x10;
                            if h.proto.is_reliable() && !is_sack && h.plain.sess_id >= 21 && h.plain.sess_id <= 22 {
                                let sess = (h.plain.sess_id - 20) as u8;
                                ghost_send(sess, h.proto.exch_id, !h.proto.is_initiator(), false, Some(h.plain.ctr), 'a', &[]);
                            }
                        }
                    }
                }
                seen = tap.len();
            }
        };
        let script = async {
            let mut fresh_exid = 0x7000u16;
            for (i, op) in case.script.iter().enumerate() {
                match op.clone() {
                    Op::Ghost { sess, exid, init, rel, op, beh, arg } => {
                        let p = mk_payload(beh, i as u32, sess, exid, init, arg);
                        ghost_send(sess, exid, init, rel, None, op, &p);
                    }
                    Op::Group { exid, rel, beh, arg } => {
                        group_ctr.set(group_ctr.get() + 1);
                        let p = mk_payload(beh, i as u32, 9, exid, true, arg);
                        let pkt = craft_group(&crypto, group_ctr.get(), exid, true, rel, PROTO, 1, &p);
                        net.inject(G, B, &pkt);
                    }
                    Op::GhostAck { sess, exid, init } => {
                        let ack = last_dev_ctr(sess, exid);
                        ghost_send(sess, exid, init, false, ack, 'a', &[]);
                    }
                    Op::Wait(ms) => Timer::after(Duration::from_millis(ms as u64)).await,
                    Op::ProbeA(timeout, attempts) => {
                        // like a real peer: a second attempt on a fresh exchange if the first one fails
                        let t0 = Instant::now();
                        let p = mk_payload(1, i as u32, 0, 0xffff, true, 0);
                        let mut res = String::new();
                        for _attempt in 0..attempts {
                            let r = e2e::with_timeout(timeout as u64, async {
                                let mut ex = Exchange::initiate(&matter_a, &crypto, NonZeroU8::new(1).unwrap(), B_NODE).await?;
                                ex.send(MessageMeta::new(PROTO, 1, true), &p).await?;
                                let rx = ex.recv().await?;
                                let ok = rx.payload() == &p[..];
                                drop(rx);
                                ex.acknowledge().await?;
                                Ok::<bool, Error>(ok)
                            })
                            .await;
                            let ms = t0.elapsed().as_millis();
                            res = match r {
                                Some(Ok(true)) => format!("ok:{}", ms),
                                Some(Ok(false)) => format!("wrong:{}", ms),
                                Some(Err(e)) => format!("{}:{}", err_class(&e), ms),
                                None => format!("unanswered:{}", ms),
                            };
                            if res.starts_with("ok") {
                                break;
                            }
                        }
                        probes.borrow_mut().push(res);
                    }
                    Op::ProbeG { sess, timeout, attempts } => {
                      let t00 = Instant::now();
                      let mut res = "unanswered".to_string();
                      let snf_before = net.tap().iter().filter(|t| t.src == B && t.dst == G && classify(&crypto, &t.bytes, B_NODE) == "snf").count();
                      for _attempt in 0..attempts {
                        fresh_exid += 1;
                        let exid = fresh_exid;
                        let t0 = Instant::now();
                        let p = mk_payload(1, i as u32, sess, exid, true, 0);
                        ghost_send(sess, exid, true, true, None, 'o', &p);
                        while t0.elapsed().as_millis() < timeout as u64 {
                            let got = net
                                .tap()
                                .iter()
                                .filter(|t| t.src == B && t.dst == G)
                                .filter_map(|t| decode(&crypto, &t.bytes, B_NODE))
                                .any(|(h, pl)| h.plain.sess_id == 20 + sess as u16 && h.proto.exch_id == exid && h.proto.proto_id == PROTO && pl == p);
                            if got {
                                res = "ok".to_string();
                                break;
                            }
                            Timer::after(Duration::from_millis(2)).await;
                        }
                        if res == "ok" && !autoack {
                            let ack = last_dev_ctr(sess, exid);
                            ghost_send(sess, exid, true, false, ack, 'a', &[]);
                        }
                        if res == "ok" {
                            break;
                        }
                      }
                      if res != "ok" {
                          // refused, not ignored: the device answered SessionNotFound (the session was marked
                          // expired by an earlier give-up of the device's own retransmissions)
                          let snf_after = net.tap().iter().filter(|t| t.src == B && t.dst == G && classify(&crypto, &t.bytes, B_NODE) == "snf").count();
                          if snf_after > snf_before {
                              res = "expired".to_string();
                          }
                      }
                      probes.borrow_mut().push(format!("{}:{}", res, t00.elapsed().as_millis()));
                    }
                }
            }
            // settle: accept deadline + closer wait + slack
            Timer::after(Duration::from_millis(1250)).await;
            // tables of the device while its tasks and handlers are still alive
            let mut t: Vec<String> = matter_b.with_state(|st| {
                st.verif_sessions()
                    .iter()
                    .map(|s| {
                        let snap = s.verif_snapshot();
                        format!("L{}[{}]", snap.local_sess_id, slots_str(&snap, table_len(&snap)))
                    })
                    .collect()
            });
            t.sort();
            *final_tables.borrow_mut() = t.join("");
            // coarse, run-independent view for the comparison with the model's prediction: the
            // controller's exchange ids (random) print as 65535, the group session as L9
            let gsid = GROUP_SID.load(std::sync::atomic::Ordering::Relaxed);
            let mut sh: Vec<String> = matter_b.with_state(|st| {
                st.verif_sessions()
                    .iter()
                    .map(|s| {
                        let snap = s.verif_snapshot();
                        let l = if snap.local_sess_id == gsid { 9 } else { snap.local_sess_id };
                        let n = table_len(&snap);
                        let slots: Vec<String> = (0..n)
                            .map(|i| match snap.exchanges.iter().find(|e| e.index == i) {
                                Some(e) => format!("{}/{}/{}", if l == 2 { 65535 } else { e.exch_id }, e.role, e.state),
                                None => "-".to_string(),
                            })
                            .collect();
                        format!("L{}[{}]", l, slots.join(","))
                    })
                    .collect()
            });
            sh.sort();
            *final_shape.borrow_mut() = sh.join("");
            Ok::<(), Error>(())
        };
        match select4(pin!(nodes), pin!(pool), pin!(select(pin!(script), pin!(acker))), pin!(Timer::after(Duration::from_secs(60)))).await {
            embassy_futures::select::Either4::First(r) => format!("transport-exit:{:?}", r.map_err(|e| e.code())),
            embassy_futures::select::Either4::Second(r) => format!("pool-exit:{:?}", r.map_err(|e| e.code())),
            embassy_futures::select::Either4::Third(_) => "done".to_string(),
            embassy_futures::select::Either4::Fourth(_) => "hang".to_string(),
        }
    });

    let tables = vec![final_tables.borrow().clone()];
    let deliv: Vec<String> = log
        .deliveries
        .borrow()
        .iter()
        .map(|d| format!("{}:{}:{}:{}>{}:{}:{}", d.0, local_sess_id(d.1), d.2, if d.3 { 'i' } else { 'r' }, d.4, d.5, d.6))
        .collect();
    let mut out: std::collections::BTreeMap<String, u32> = Default::default();
    for t in net.tap().iter().filter(|t| t.src == B) {
        let c = classify(&crypto, &t.bytes, B_NODE);
        let k = if c.starts_with("msg:") { "msg".to_string() } else { c };
        *out.entry(k).or_insert(0) += 1;
    }
    let outs: Vec<String> = out.iter().map(|(k, v)| format!("{}={}", k, v)).collect();
    // tags of the ghost's messages that the device echoed back
    let mut replies: Vec<u32> = net
        .tap()
        .iter()
        .filter(|t| t.src == B && t.dst == G)
        .filter_map(|t| decode(&crypto, &t.bytes, B_NODE))
        .filter(|(h, _)| h.proto.proto_id == PROTO && h.proto.proto_opcode == 2)
        .filter_map(|(_, pl)| parse_payload(&pl).map(|p| p.tag))
        .collect();
    replies.sort();
    replies.dedup();
    let replies: Vec<String> = replies.iter().map(|t| t.to_string()).collect();
    // every reliable opener of the ghost must have been answered on its exchange (acknowledgement,
    // reply) or its session told to close / not found
    let dev_out: Vec<(u16, u16, String)> = net
        .tap()
        .iter()
        .filter(|t| t.src == B && t.dst == G)
        .filter_map(|t| decode(&crypto, &t.bytes, B_NODE).map(|(h, _)| (h.plain.sess_id, h.proto.exch_id, classify(&crypto, &t.bytes, B_NODE))))
        .collect();
    let mut unacked = 0;
    for op in case.script.iter() {
        if let Op::Ghost { sess, exid, init: true, rel: true, op: 'o' | 'n', .. } = op {
            let peer_sess = 20 + *sess as u16;
            let answered = dev_out.iter().any(|(s, e, c)| (*s == peer_sess && *e == *exid) || (*s == peer_sess && c.starts_with("close")) || c == "snf");
            // an exchange still owned by a live handler may acknowledge later
            let ft = final_tables.borrow();
            let seg = ft.split('L').find(|x| x.starts_with(&format!("{}[", local_sess_id(*sess)))).unwrap_or("").to_string();
            let still_owned = seg.contains(&format!("[{}/R/o/", exid)) || seg.contains(&format!(",{}/R/o/", exid));
            if !answered && !still_owned {
                unacked += 1;
            }
        }
    }
    // what the model is asked to predict (checks/c10.py compares it for the scenarios marked det=1)
    let gsid = GROUP_SID.load(std::sync::atomic::Ordering::Relaxed);
    let mut cd: Vec<(u32, String)> = log
        .deliveries
        .borrow()
        .iter()
        .map(|d| {
            let hs = if d.4 == gsid { 9 } else { d.4 };
            (d.0, format!("{}>{}:{}:{}", d.0, hs, if hs == 2 { 65535 } else { d.5 }, d.6))
        })
        .collect();
    cd.sort();
    let pclass: Vec<String> = probes.borrow().iter().map(|p| p.split(':').next().unwrap_or("").to_string()).collect();
    let pred = format!(
        "{}/{}/{}/{}/{}/{}",
        pclass.join(","),
        cd.iter().map(|x| x.1.clone()).collect::<Vec<_>>().join(","),
        replies.join(","),
        log.accepted_dropped.get(),
        unacked,
        final_shape.borrow()
    );
    format!(
        "{} pred={} probes={} deliv={} replies={} xdrop={} unacked={} tables={} | out={}",
        outcome,
        pred,
        probes.borrow().join(","),
        deliv.join(","),
        replies.join(","),
        log.accepted_dropped.get(),
        unacked,
        tables.join(""),
        outs.join(",")
    )
}

// ------------------------------------------------------------------ driver

fn run_line(line: &str, out: &mut String) {
    let f: Vec<&str> = line.split(' ').collect();
    match f[0] {
        "P" => writeln!(out, "P {} {}", f[1], run_p(&f)).unwrap(),
        "S" => writeln!(out, "S {} {}", f[1], steps::run_s(f.get(2).copied().unwrap_or(""))).unwrap(),
        "E" => writeln!(out, "E {} {}", f[1], run_e(&parse_e(&f))).unwrap(),
        _ => {}
    }
}

fn main() {
    let args: Vec<String> = std::env::args().collect();
    match args.get(1).map(|s| s.as_str()) {
        Some("gen") => {
            let outdir = std::path::PathBuf::from(&args[4]);
            std::fs::create_dir_all(&outdir).unwrap();
            let mut rng = Rng::new(args[3].parse().unwrap());
            let cases = steps::generate(&args[2], &mut rng);
            let mut cf = std::io::BufWriter::new(std::fs::File::create(outdir.join("cases.txt")).unwrap());
            for c in &cases {
                writeln!(cf, "{}", c).unwrap();
            }
        }
        Some("run") => {
            rsm_harness::silence_panics();
            let text = std::fs::read_to_string(&args[2]).unwrap();
            // a transport that spins inside one poll never reaches the in-case timeout: watch from outside
            let current: std::sync::Arc<std::sync::Mutex<Option<(String, std::time::Instant)>>> = Default::default();
            let partial: std::sync::Arc<std::sync::Mutex<String>> = Default::default();
            {
                let current = current.clone();
                let partial = partial.clone();
                std::thread::spawn(move || loop {
                    std::thread::sleep(std::time::Duration::from_millis(500));
                    let stuck = current.lock().unwrap().as_ref().filter(|(_, t)| t.elapsed().as_secs() > 90).map(|(k, _)| k.clone());
                    if let Some(key) = stuck {
                        print!("{}{} spin\n", partial.lock().unwrap(), key);
                        std::io::stdout().flush().unwrap();
                        std::process::exit(0);
                    }
                });
            }
            let mut out = String::new();
            for line in text.lines() {
                let f: Vec<&str> = line.split(' ').collect();
                if f.len() > 1 {
                    *current.lock().unwrap() = Some((format!("{} {}", f[0], f[1]), std::time::Instant::now()));
                }
                run_line(line, &mut out);
                *partial.lock().unwrap() = out.clone();
            }
            *current.lock().unwrap() = None;
            print!("{}", out);
        }
        _ => {
            eprintln!("usage: c10 gen <tier> <seed> <outdir> | c10 run <cases>");
            std::process::exit(2);
        }
    }
}
