//! C17 correspondence harness: headers, base-38, manual pairing code, QR payload,
//! StatusReport (modelled in Coq, compared line by line with the extracted model) and, through
//! `c17_formats.rs`, the formats that are tested but not modelled (`T` lines).
//!
//! usage: c17 gen <quick|thorough> <seed> <outdir>     writes cases.txt + stats.json
//!        c17 run <cases-file>                          prints one canonical line per case
//!
//! Case lines (numbers decimal, byte strings lowercase hex, "-" = empty):
//!   HP id flags sess sec ctr src dst sfx     PlainHdr in that raw state: encode, decode enc++sfx
//!   HX id exch flags proto opcode ven ack sfx  same for ProtoHdr
//!   HD id hex                                  hostile bytes: PlainHdr::decode then ProtoHdr decode
//!   HS id sess ctr grp ctl src|- u|g|n dst     header built with the public setters
//!   B  id hex / BD id strhex                   base-38 encode+decode / decode of a hostile string
//!   M  id passcode disc / MD id strhex         manual pairing code compute+parse / hostile parse
//!   Q  id vid pid flow caps disc pass data / QD id strhex    QR text encode+parse / hostile parse
//!   S  id general protoid protocode data / SD id hex         StatusReport write+read / hostile read
//!   T  id fmt mode arg                         unmodelled formats (see c17_formats.rs)
use std::collections::BTreeMap;
use std::fmt::Write as _;

use rs_matter::crypto::test_only_crypto;
use rs_matter::error::{Error, ErrorCode};
use rs_matter::pairing::qr::{CommFlowType, QrPayload};
use rs_matter::pairing::DiscoveryCapabilities;
use rs_matter::sc::{GeneralCode, StatusReport};
use rs_matter::transport::plain_hdr::PlainHdr;
use rs_matter::transport::proto_hdr::ProtoHdr;
use rs_matter::utils::codec::base38;
use rs_matter::utils::storage::{ParseBuf, ReadBuf, WriteBuf};
use rs_matter::BasicCommData;
use rsm_harness::{catch, silence_panics, Rng};

#[path = "../c17_formats.rs"]
mod formats;
#[path = "../c17_deep.rs"]
mod deep;
#[path = "../c17_certx.rs"]
mod certx;

// ------------------------------------------------------------------ helpers

fn hex(b: &[u8]) -> String {
    if b.is_empty() {
        return "-".into();
    }
    let mut s = String::with_capacity(b.len() * 2);
    for x in b {
        write!(s, "{:02x}", x).unwrap();
    }
    s
}

fn unhex(s: &str) -> Vec<u8> {
    if s == "-" || s.is_empty() {
        return Vec::new();
    }
    (0..s.len() / 2)
        .map(|i| u8::from_str_radix(&s[2 * i..2 * i + 2], 16).unwrap())
        .collect()
}

/// one token, one line
fn clean(s: &str) -> String {
    let first = s.lines().next().unwrap_or("");
    first.chars().take(400).map(|c| if c.is_whitespace() { '_' } else { c }).collect()
}

/// The error classes the model distinguishes.
fn err_class(e: &Error) -> u32 {
    match e.code() {
        ErrorCode::TruncatedPacket => 1,
        ErrorCode::Invalid => 2,
        ErrorCode::NoSpace => 3,
        ErrorCode::InvalidData => 4,
        ErrorCode::InvalidOpcode => 5,
        ErrorCode::BufferTooSmall => 6,
        _ => 9,
    }
}

fn res_str<T>(r: Result<Result<T, Error>, String>, f: impl FnOnce(T) -> String) -> String {
    match r {
        Ok(Ok(v)) => format!("ok:{}", f(v)),
        Ok(Err(e)) => format!("err:{}", err_class(&e)),
        Err(_) => "panic".into(),
    }
}

type PlainRaw = (u8, u16, u8, u32, u64, u64);
type ProtoRaw = (u16, u8, u16, u8, u16, u32);

fn plain_raw_str(r: PlainRaw) -> String {
    format!("{},{},{},{},{},{}", r.0, r.1, r.2, r.3, r.4, r.5)
}
fn proto_raw_str(r: ProtoRaw) -> String {
    format!("{},{},{},{},{},{}", r.0, r.1, r.2, r.3, r.4, r.5)
}

fn plain_encode(h: &PlainHdr) -> Result<Vec<u8>, Error> {
    let mut buf = [0u8; 64];
    let mut wb = WriteBuf::new(&mut buf);
    h.encode(&mut wb)?;
    Ok(wb.as_slice().to_vec())
}

fn proto_encode(h: &ProtoHdr) -> Result<Vec<u8>, Error> {
    let mut buf = [0u8; 64];
    let mut wb = WriteBuf::new(&mut buf);
    h.encode(&mut wb)?;
    Ok(wb.as_slice().to_vec())
}

/// decode a PlainHdr from the front of `input`: raw fields and bytes consumed
fn plain_decode(input: &[u8]) -> Result<Result<(PlainRaw, usize), Error>, String> {
    let mut v = input.to_vec();
    catch(move || {
        let mut h = PlainHdr::default();
        let mut pb = ParseBuf::new(&mut v[..]);
        h.decode(&mut pb)?;
        Ok((h.verif_raw(), pb.read_off()))
    })
}

fn proto_decode(input: &[u8]) -> Result<Result<(ProtoRaw, usize), Error>, String> {
    let mut v = input.to_vec();
    catch(move || {
        let mut h = ProtoHdr::new();
        let mut pb = ParseBuf::new(&mut v[..]);
        h.decrypt_and_decode(test_only_crypto(), None, 0, &PlainHdr::default(), &mut pb)?;
        Ok((h.verif_raw(), pb.read_off()))
    })
}

fn plain_dec_str(r: Result<Result<(PlainRaw, usize), Error>, String>) -> String {
    res_str(r, |(raw, n)| format!("{}:{}", plain_raw_str(raw), n))
}
fn proto_dec_str(r: Result<Result<(ProtoRaw, usize), Error>, String>) -> String {
    res_str(r, |(raw, n)| format!("{}:{}", proto_raw_str(raw), n))
}

fn b38_decode(s: &str) -> Result<Result<Vec<u8>, Error>, String> {
    let s = s.to_string();
    catch(move || base38::decode(&s).collect::<Result<Vec<u8>, Error>>())
}

fn manual_parse_str(code: &str) -> String {
    let code = code.to_string();
    let r = catch(move || {
        QrPayload::parse_pairing_code(&code).map(|p| {
            let long = p.vid_pid().is_some();
            let (vid, pid) = p.vid_pid().unwrap_or((0, 0));
            (long, p.short_discriminator(), p.passcode(), vid, pid)
        })
    });
    res_str(r, |(l, sd, pc, vid, pid)| format!("{},{},{},{},{}", l as u8, sd, pc, vid, pid))
}

fn qr_parse_str(qr: &str) -> String {
    let qr = qr.to_string();
    let r = catch(move || {
        let mut buf = vec![0u8; 4096];
        QrPayload::parse(&qr, &mut buf).map(|p| {
            (
                p.version(),
                p.vid(),
                p.pid(),
                p.comm_flow() as u8,
                p.discovery_capabilities().bits(),
                p.discriminator(),
                p.passcode(),
                p.optional_data().to_vec(),
            )
        })
    });
    res_str(r, |(ver, vid, pid, flow, caps, disc, pass, tail)| {
        format!("{},{},{},{},{},{},{}:{}", ver, vid, pid, flow, caps, disc, pass, hex(&tail))
    })
}

fn sr_read_str(input: &[u8]) -> String {
    let v = input.to_vec();
    let r = catch(move || {
        let mut rb = ReadBuf::new(&v[..]);
        StatusReport::read(&mut rb)
            .map(|s| (s.general_code as u16, s.proto_id, s.proto_code, s.proto_data.to_vec()))
    });
    res_str(r, |(g, pid, pc, data)| format!("{},{},{}:{}", g, pid, pc, hex(&data)))
}

fn flow_of(n: u8) -> CommFlowType {
    match n {
        0 => CommFlowType::Standard,
        1 => CommFlowType::UserIntent,
        _ => CommFlowType::Custom,
    }
}

// ------------------------------------------------------------------ running cases

fn run_line(line: &str, out: &mut String) {
    let f: Vec<&str> = line.split(' ').collect();
    match f[0] {
        "HP" => {
            let id = f[1];
            let p = |i: usize| f[i].parse::<u64>().unwrap();
            let sfx = unhex(f[8]);
            let raw = (p(2) as u8, p(3) as u16, p(4) as u8, p(5) as u32, p(6), p(7));
            let enc = catch(move || {
                let h = PlainHdr::verif_from_raw(raw.0, raw.1, raw.2, raw.3, raw.4, raw.5)
                    .expect("generator only uses declared flag bits");
                plain_encode(&h)
            });
            match enc {
                Ok(Ok(enc)) => {
                    let mut input = enc.clone();
                    input.extend_from_slice(&sfx);
                    writeln!(out, "HP {} {} {}", id, hex(&enc), plain_dec_str(plain_decode(&input))).unwrap();
                }
                Ok(Err(e)) => writeln!(out, "HP {} err:{} -", id, err_class(&e)).unwrap(),
                Err(_) => writeln!(out, "HP {} panic -", id).unwrap(),
            }
        }
        "HX" => {
            let id = f[1];
            let p = |i: usize| f[i].parse::<u64>().unwrap();
            let sfx = unhex(f[8]);
            let raw = (p(2) as u16, p(3) as u8, p(4) as u16, p(5) as u8, p(6) as u16, p(7) as u32);
            let enc = catch(move || {
                let h = ProtoHdr::verif_from_raw(raw.0, raw.1, raw.2, raw.3, raw.4, raw.5)
                    .expect("generator only uses declared flag bits");
                proto_encode(&h)
            });
            match enc {
                Ok(Ok(enc)) => {
                    let mut input = enc.clone();
                    input.extend_from_slice(&sfx);
                    writeln!(out, "HX {} {} {}", id, hex(&enc), proto_dec_str(proto_decode(&input))).unwrap();
                }
                Ok(Err(e)) => writeln!(out, "HX {} err:{} -", id, err_class(&e)).unwrap(),
                Err(_) => writeln!(out, "HX {} panic -", id).unwrap(),
            }
        }
        "HD" => {
            let id = f[1];
            let input = unhex(f[2]);
            let r = plain_decode(&input);
            let second = match &r {
                Ok(Ok((_, n))) => proto_dec_str(proto_decode(&input[*n..])),
                _ => "-".to_string(),
            };
            writeln!(out, "HD {} {} {}", id, plain_dec_str(r), second).unwrap();
        }
        "HS" => {
            let id = f[1];
            let sess: u16 = f[2].parse().unwrap();
            let ctr: u32 = f[3].parse().unwrap();
            let (grp, ctl) = (f[4] == "1", f[5] == "1");
            let src: Option<u64> = if f[6] == "-" { None } else { Some(f[6].parse().unwrap()) };
            let dk = f[7].to_string();
            let dst: u64 = f[8].parse().unwrap();
            let r = catch(move || {
                let mut h = PlainHdr::default();
                h.sess_id = sess;
                h.ctr = ctr;
                h.set_group_session(grp);
                h.set_control_msg(ctl);
                h.set_src_nodeid(src);
                match dk.as_str() {
                    "u" => h.set_dst_unicast_nodeid(Some(dst)),
                    "g" => h.set_dst_groupcast_nodeid(Some(dst as u16)),
                    _ => h.set_dst_unicast_nodeid(None),
                }
                plain_encode(&h).map(|e| (h.verif_raw(), e))
            });
            match r {
                Ok(Ok((raw, enc))) => writeln!(out, "HS {} {} {}", id, plain_raw_str(raw), hex(&enc)).unwrap(),
                Ok(Err(e)) => writeln!(out, "HS {} err:{} -", id, err_class(&e)).unwrap(),
                Err(_) => writeln!(out, "HS {} panic -", id).unwrap(),
            }
        }
        "B" => {
            let id = f[1];
            let bytes = unhex(f[2]);
            let enc = catch(move || base38::encode(&bytes).collect::<String>());
            match enc {
                Ok(enc) => {
                    let dec = res_str(b38_decode(&enc), |v| hex(&v));
                    writeln!(out, "B {} {} {}", id, hex(enc.as_bytes()), dec).unwrap();
                }
                Err(_) => writeln!(out, "B {} panic -", id).unwrap(),
            }
        }
        "BD" => {
            let id = f[1];
            match String::from_utf8(unhex(f[2])) {
                Ok(s) => writeln!(out, "BD {} {}", id, res_str(b38_decode(&s), |v| hex(&v))).unwrap(),
                Err(_) => writeln!(out, "BD {} not-utf8", id).unwrap(),
            }
        }
        "M" => {
            let id = f[1];
            let pass: u32 = f[2].parse().unwrap();
            let disc: u16 = f[3].parse().unwrap();
            let code = catch(move || {
                let cd = BasicCommData { password: pass.to_le_bytes().into(), discriminator: disc };
                cd.compute_pairing_code().as_str().to_string()
            });
            match code {
                Ok(code) => writeln!(out, "M {} {} {}", id, code, manual_parse_str(&code)).unwrap(),
                Err(_) => writeln!(out, "M {} panic -", id).unwrap(),
            }
        }
        "MD" => {
            let id = f[1];
            match String::from_utf8(unhex(f[2])) {
                Ok(s) => writeln!(out, "MD {} {}", id, manual_parse_str(&s)).unwrap(),
                Err(_) => writeln!(out, "MD {} not-utf8", id).unwrap(),
            }
        }
        "Q" => {
            let id = f[1];
            let vid: u16 = f[2].parse().unwrap();
            let pid: u16 = f[3].parse().unwrap();
            let flow: u8 = f[4].parse().unwrap();
            let caps: u8 = f[5].parse().unwrap();
            let disc: u16 = f[6].parse().unwrap();
            let pass: u32 = f[7].parse().unwrap();
            let data = unhex(f[8]);
            let enc = catch(move || {
                let cd = BasicCommData { password: pass.to_le_bytes().into(), discriminator: disc };
                let data2 = data.clone();
                let opt = move || data2.clone().into_iter().map(Ok::<u8, Error>);
                let p = QrPayload::new(
                    DiscoveryCapabilities::from_bits_retain(caps),
                    flow_of(flow),
                    cd,
                    vid,
                    pid,
                    "",
                    opt,
                );
                let mut buf = vec![0u8; 4096];
                p.as_str(&mut buf).map(|(s, _)| s.to_string())
            });
            match enc {
                Ok(Ok(s)) => writeln!(out, "Q {} {} {}", id, hex(s.as_bytes()), qr_parse_str(&s)).unwrap(),
                Ok(Err(e)) => writeln!(out, "Q {} err:{} -", id, err_class(&e)).unwrap(),
                Err(_) => writeln!(out, "Q {} panic -", id).unwrap(),
            }
        }
        "QD" => {
            let id = f[1];
            match String::from_utf8(unhex(f[2])) {
                Ok(s) => writeln!(out, "QD {} {}", id, qr_parse_str(&s)).unwrap(),
                Err(_) => writeln!(out, "QD {} not-utf8", id).unwrap(),
            }
        }
        "S" => {
            let id = f[1];
            let g: u16 = f[2].parse().unwrap();
            let pid: u32 = f[3].parse().unwrap();
            let pc: u16 = f[4].parse().unwrap();
            let data = unhex(f[5]);
            let enc = catch(move || {
                let general_code: GeneralCode =
                    num_traits::FromPrimitive::from_u16(g).expect("generator uses declared codes");
                let sr = StatusReport { general_code, proto_id: pid, proto_code: pc, proto_data: &data };
                let mut buf = vec![0u8; 2048];
                let mut wb = WriteBuf::new(&mut buf);
                sr.write(&mut wb).map(|_| wb.as_slice().to_vec())
            });
            match enc {
                Ok(Ok(enc)) => writeln!(out, "S {} {} {}", id, hex(&enc), sr_read_str(&enc)).unwrap(),
                Ok(Err(e)) => writeln!(out, "S {} err:{} -", id, err_class(&e)).unwrap(),
                Err(_) => writeln!(out, "S {} panic -", id).unwrap(),
            }
        }
        "SD" => {
            writeln!(out, "SD {} {}", f[1], sr_read_str(&unhex(f[2]))).unwrap();
        }
        "T" => {
            // T <id> <fmt> <mode> <arg>
            let (id, fmt, mode, arg) = (f[1], f[2], f[3], f.get(4).copied().unwrap_or(""));
            let (fmt_s, mode_s, arg_s) = (fmt.to_string(), mode.to_string(), arg.to_string());
            let r = catch(move || {
                if fmt_s == "certx" {
                    certx::run_t(&mode_s, &arg_s)
                } else {
                    formats::run_t(&fmt_s, &mode_s, &arg_s)
                }
            });
            match r {
                Ok(Ok(d)) => writeln!(out, "T {} {} {} ok {}", id, fmt, mode, clean(&d)).unwrap(),
                Ok(Err(e)) if e.starts_with("SKIP:") => writeln!(out, "T {} {} {} ok {}", id, fmt, mode, clean(&e)).unwrap(),
                Ok(Err(e)) => writeln!(out, "T {} {} {} FAIL {}", id, fmt, mode, clean(&e)).unwrap(),
                Err(p) => writeln!(out, "T {} {} {} PANIC {}", id, fmt, mode, clean(&p)).unwrap(),
            }
        }
        "CE" if f.len() >= 6 => writeln!(out, "CE {} {}", f[1], certx::run_ce(&f)).unwrap(),
        k if deep::KINDS.contains(&k) => deep::run_line(&f, out),
        _ => {}
    }
}

// ------------------------------------------------------------------ generators

const VH_D: [[u8; 10]; 10] = [
    [0, 1, 2, 3, 4, 5, 6, 7, 8, 9],
    [1, 2, 3, 4, 0, 6, 7, 8, 9, 5],
    [2, 3, 4, 0, 1, 7, 8, 9, 5, 6],
    [3, 4, 0, 1, 2, 8, 9, 5, 6, 7],
    [4, 0, 1, 2, 3, 9, 5, 6, 7, 8],
    [5, 9, 8, 7, 6, 0, 4, 3, 2, 1],
    [6, 5, 9, 8, 7, 1, 0, 4, 3, 2],
    [7, 6, 5, 9, 8, 2, 1, 0, 4, 3],
    [8, 7, 6, 5, 9, 3, 2, 1, 0, 4],
    [9, 8, 7, 6, 5, 4, 3, 2, 1, 0],
];
const VH_P: [[u8; 10]; 8] = [
    [0, 1, 2, 3, 4, 5, 6, 7, 8, 9],
    [1, 5, 7, 6, 2, 8, 3, 0, 9, 4],
    [5, 8, 0, 3, 7, 9, 6, 1, 4, 2],
    [8, 9, 1, 6, 0, 4, 3, 5, 2, 7],
    [9, 4, 5, 3, 1, 2, 6, 8, 7, 0],
    [4, 2, 8, 6, 5, 7, 3, 9, 0, 1],
    [2, 7, 9, 3, 8, 0, 6, 4, 1, 5],
    [7, 0, 4, 6, 9, 1, 3, 2, 5, 8],
];
const VH_INV: [u8; 10] = [0, 4, 3, 2, 1, 5, 6, 7, 8, 9];

/// generator-side check digit (only used to build inputs; the code under test has its own)
fn gen_check_digit(digits: &[u8]) -> u8 {
    let mut c = 0usize;
    for (i, d) in digits.iter().rev().enumerate() {
        c = VH_D[c][VH_P[(i + 1) % 8][*d as usize] as usize] as usize;
    }
    VH_INV[c]
}

fn edge_u64(rng: &mut Rng, bits: u32) -> u64 {
    let max = if bits == 64 { u64::MAX } else { (1u64 << bits) - 1 };
    match rng.below(8) {
        0 => 0,
        1 => max,
        2 => 1,
        3 => max - 1,
        4 => 1u64 << rng.below(bits as u64),
        _ => rng.next() & max,
    }
}

fn rand_bytes(rng: &mut Rng, n: usize) -> Vec<u8> {
    (0..n).map(|_| rng.next() as u8).collect()
}

fn mutate(rng: &mut Rng, v: &mut Vec<u8>) {
    for _ in 0..rng.range(1, 3) {
        match rng.below(6) {
            0 | 1 if !v.is_empty() => {
                let i = rng.below(v.len() as u64) as usize;
                v[i] ^= 1 << rng.below(8);
            }
            2 if !v.is_empty() => {
                let l = rng.below(v.len() as u64) as usize;
                v.truncate(l);
            }
            3 => {
                let k = rng.range(1, 9) as usize;
                let e = rand_bytes(rng, k);
                v.extend(e);
            }
            4 if !v.is_empty() => {
                let i = rng.below(v.len() as u64) as usize;
                v[i] = *rng.pick(&[0u8, 0xff, 0x7f, 0x80]);
            }
            _ => {
                let i = rng.below(v.len() as u64 + 1) as usize;
                v.insert(i, rng.next() as u8);
            }
        }
    }
}

const B38: &[u8] = b"0123456789ABCDEFGHIJKLMNOPQRSTUVWXYZ-.";

/// a hostile ASCII-ish string (always valid UTF-8)
fn hostile_str(rng: &mut Rng, alphabet: &[u8], maxlen: u64) -> Vec<u8> {
    let n = rng.below(maxlen + 1) as usize;
    let mut s = String::new();
    for _ in 0..n {
        match rng.below(20) {
            0 => s.push(rng.range(0x20, 0x7e) as u8 as char),
            1 => s.push(*rng.pick(&['\u{e9}', '\u{0}', '\u{7f}', '\u{ff10}', '\u{1f600}', 'a', 'z', '/', ':', '@', '[', ' '])),
            _ => s.push(*rng.pick(alphabet) as char),
        }
    }
    s.into_bytes()
}

struct Gen {
    lines: String,
    id: u64,
    kinds: BTreeMap<String, u64>,
}

impl Gen {
    fn push(&mut self, kind: &str, rest: String) {
        writeln!(self.lines, "{} {} {}", kind, self.id, rest).unwrap();
        self.id += 1;
        *self.kinds.entry(kind.to_string()).or_insert(0) += 1;
    }
}

fn gen_plain_raw(rng: &mut Rng) -> (u8, u16, u8, u32, u64, u64) {
    let flags = rng.below(8) as u8;
    let mut sec = 0u8;
    for b in [0x01u8, 0x20, 0x40, 0x80] {
        if rng.chance(1, 3) {
            sec |= b;
        }
    }
    let wf = rng.chance(3, 4);
    let src = if flags & 4 != 0 || !wf { edge_u64(rng, 64) } else { 0 };
    let dst = match (flags & 3, wf) {
        (1, _) => edge_u64(rng, 64),
        (2, true) => edge_u64(rng, 16),
        (_, true) => 0,
        (_, false) => edge_u64(rng, 64),
    };
    (flags, edge_u64(rng, 16) as u16, sec, edge_u64(rng, 32) as u32, src, dst)
}

fn gen_proto_raw(rng: &mut Rng) -> (u16, u8, u16, u8, u16, u32) {
    let flags = rng.below(32) as u8;
    let wf = rng.chance(3, 4);
    let ven = if flags & 0x10 != 0 || !wf { edge_u64(rng, 16) as u16 } else { 0 };
    let ack = if flags & 0x02 != 0 || !wf { edge_u64(rng, 32) as u32 } else { 0 };
    (edge_u64(rng, 16) as u16, flags, edge_u64(rng, 16) as u16, edge_u64(rng, 8) as u8, ven, ack)
}

fn gen_all(rng: &mut Rng, scale: usize) -> Gen {
    let mut g = Gen { lines: String::new(), id: 0, kinds: BTreeMap::new() };

    // ---- headers: every flag combination with boundary fields, then random
    for flags in 0..8u8 {
        for sec in [0u8, 0x01, 0x20, 0x40, 0x80, 0xe1] {
            for edge in 0..2u64 {
                let m = |bits: u32| if edge == 0 { 0 } else if bits == 64 { u64::MAX } else { (1u64 << bits) - 1 };
                let src = if flags & 4 != 0 { m(64) } else { 0 };
                let dst = match flags & 3 { 1 => m(64), 2 => m(16), _ => 0 };
                g.push("HP", format!("{} {} {} {} {} {} {}", flags, m(16), sec, m(32), src, dst, "-"));
            }
        }
    }
    for _ in 0..2500 * scale {
        let r = gen_plain_raw(rng);
        let n = rng.below(6) as usize;
        let sfx = rand_bytes(rng, n);
        g.push("HP", format!("{} {} {} {} {} {} {}", r.0, r.1, r.2, r.3, r.4, r.5, hex(&sfx)));
    }
    for flags in 0..32u8 {
        for edge in 0..2u64 {
            let m = |bits: u32| if edge == 0 { 0 } else { (1u64 << bits) - 1 };
            let ven = if flags & 0x10 != 0 { m(16) } else { 0 };
            let ack = if flags & 0x02 != 0 { m(32) } else { 0 };
            g.push("HX", format!("{} {} {} {} {} {} {}", m(16), flags, m(16), m(8), ven, ack, "-"));
        }
    }
    for _ in 0..2000 * scale {
        let r = gen_proto_raw(rng);
        let n = rng.below(6) as usize;
        let sfx = rand_bytes(rng, n);
        g.push("HX", format!("{} {} {} {} {} {} {}", r.0, r.1, r.2, r.3, r.4, r.5, hex(&sfx)));
    }
    // hostile header bytes: all first-byte values x short bodies, truncations of valid packets, random
    for b0 in 0..=255u8 {
        let mut v = vec![b0];
        v.extend(rand_bytes(rng, 30));
        v[3] = *rng.pick(&[0u8, 0x01, 0x20, 0x40, 0x80, 0xe1, 0x02, 0x1e, 0xff]);
        g.push("HD", hex(&v));
    }
    for _ in 0..1500 * scale {
        // a valid plain + proto header pair, cut or mutated
        let r = gen_plain_raw(rng);
        let x = gen_proto_raw(rng);
        let mut v = Vec::new();
        if let Some(h) = PlainHdr::verif_from_raw(r.0, r.1, r.2, r.3, r.4, r.5) {
            v.extend(plain_encode(&h).unwrap_or_default());
        }
        if let Some(h) = ProtoHdr::verif_from_raw(x.0, x.1, x.2, x.3, x.4, x.5) {
            v.extend(proto_encode(&h).unwrap_or_default());
        }
        let n = rng.below(5) as usize;
        v.extend(rand_bytes(rng, n));
        match rng.below(4) {
            0 => {}
            1 => {
                let l = rng.below(v.len() as u64 + 1) as usize;
                v.truncate(l);
            }
            _ => mutate(rng, &mut v),
        }
        g.push("HD", hex(&v));
    }
    for _ in 0..1500 * scale {
        let n = rng.below(40) as usize;
        let mut v = rand_bytes(rng, n);
        if !v.is_empty() && rng.chance(2, 3) {
            v[0] &= 7;
        }
        if v.len() > 3 && rng.chance(2, 3) {
            v[3] &= 0xe1;
        }
        g.push("HD", hex(&v));
    }
    for _ in 0..1200 * scale {
        let src = if rng.chance(1, 2) { format!("{}", edge_u64(rng, 64)) } else { "-".into() };
        let dk = *rng.pick(&["u", "g", "n"]);
        let dst = if dk == "g" { edge_u64(rng, 16) } else if dk == "u" { edge_u64(rng, 64) } else { 0 };
        g.push(
            "HS",
            format!("{} {} {} {} {} {} {}", edge_u64(rng, 16), edge_u64(rng, 32), rng.below(2), rng.below(2), src, dk, dst),
        );
    }

    // ---- base-38
    for n in 0..=9usize {
        g.push("B", hex(&vec![0u8; n]));
        g.push("B", hex(&vec![0xffu8; n]));
    }
    for _ in 0..1800 * scale {
        let n = if rng.chance(1, 10) { rng.below(300) } else { rng.below(24) } as usize;
        let mut v = rand_bytes(rng, n);
        if rng.chance(1, 4) {
            for b in v.iter_mut() {
                if rng.chance(1, 2) {
                    *b = *rng.pick(&[0u8, 0xff]);
                }
            }
        }
        g.push("B", hex(&v));
    }
    // every single character alone and doubled, every length 0..12 of a fixed character
    for c in 0..=127u8 {
        g.push("BD", hex(&[c]));
        g.push("BD", hex(&[c, b'0']));
        g.push("BD", hex(&[b'0', b'0', c, b'0', b'0']));
    }
    for n in 0..=12usize {
        g.push("BD", hex(&vec![b'0'; n]));
        g.push("BD", hex(&vec![b'.'; n]));
        g.push("BD", hex(&vec![b'Z'; n]));
    }
    // chunks around the capacity of 3, 2 and 1 bytes
    for (val, n) in [(0xff_ffffu64, 5usize), (0x100_0000, 5), (0x100_0001, 5), (79_235_167, 5), (0xffff, 4), (0x1_0000, 4), (2_085_135, 4), (0xff, 2), (0x100, 2), (1443, 2)] {
        let mut v = val;
        let mut s = Vec::new();
        for _ in 0..n {
            s.push(B38[(v % 38) as usize]);
            v /= 38;
        }
        g.push("BD", hex(&s));
        let mut t = b"00000".to_vec();
        t.extend(&s);
        g.push("BD", hex(&t));
    }
    for _ in 0..2500 * scale {
        let s = match rng.below(3) {
            0 => hostile_str(rng, B38, 23),
            1 => {
                // a valid encoding with one or two characters damaged
                let n = rng.below(12) as usize;
                let mut s: Vec<u8> = base38::encode(&rand_bytes(rng, n)).collect::<String>().into_bytes();
                for _ in 0..rng.range(1, 2) {
                    match rng.below(4) {
                        0 if !s.is_empty() => {
                            let i = rng.below(s.len() as u64) as usize;
                            s[i] = *rng.pick(B38);
                        }
                        1 if !s.is_empty() => {
                            let i = rng.below(s.len() as u64) as usize;
                            s[i] = *rng.pick(b"!/:@[`az \x7f,+");
                        }
                        2 if !s.is_empty() => {
                            s.pop();
                        }
                        _ => s.push(*rng.pick(B38)),
                    }
                }
                s
            }
            _ => {
                let n = rng.below(14) as usize;
                (0..n).map(|_| *rng.pick(B38)).collect()
            }
        };
        g.push("BD", hex(&s));
    }

    // ---- manual pairing code
    for pass in [0u64, 1, 16383, 16384, 20202021, 99999998, 99999999, (1 << 27) - 1, 1 << 27, 163_839_999, 163_840_000, u32::MAX as u64] {
        for disc in [0u64, 255, 256, 1023, 1024, 3840, 4095, 4096, 10239, 10240, 65535] {
            g.push("M", format!("{} {}", pass, disc));
        }
    }
    for _ in 0..1800 * scale {
        let pass = if rng.chance(9, 10) { edge_u64(rng, 27) } else { edge_u64(rng, 32) };
        let disc = if rng.chance(9, 10) { edge_u64(rng, 12) } else { edge_u64(rng, 16) };
        g.push("M", format!("{} {}", pass, disc));
    }
    for _ in 0..3500 * scale {
        // digit strings with a correct check digit (both lengths), group values around their
        // limits, then possibly one substitution / adjacent transposition / separators / junk
        let long = rng.chance(1, 2);
        let d1 = if long { rng.range(4, 7) } else { rng.below(4) };
        let d1 = if rng.chance(1, 12) { rng.below(10) } else { d1 };
        let g2 = match rng.below(6) { 0 => 65535, 1 => 65536, 2 => 99999, 3 => 0, _ => rng.below(65536) };
        let g3 = match rng.below(6) { 0 => 8191, 1 => 8192, 2 => 9999, 3 => 0, _ => rng.below(8192) };
        let mut ds: Vec<u8> = format!("{}{:05}{:04}", d1, g2, g3).bytes().map(|b| b - b'0').collect();
        if long {
            let vid = match rng.below(5) { 0 => 65535, 1 => 65536, 2 => 99999, _ => rng.below(65536) };
            let pid = match rng.below(5) { 0 => 65535, 1 => 65536, 2 => 99999, _ => rng.below(65536) };
            ds.extend(format!("{:05}{:05}", vid, pid).bytes().map(|b| b - b'0'));
        }
        ds.push(gen_check_digit(&ds));
        let mut s: Vec<u8> = ds.iter().map(|d| d + b'0').collect();
        match rng.below(8) {
            0 => {
                let i = rng.below(s.len() as u64) as usize;
                s[i] = b'0' + ((s[i] - b'0' + rng.range(1, 9) as u8) % 10);
            }
            1 => {
                let i = rng.below(s.len() as u64 - 1) as usize;
                s.swap(i, i + 1);
            }
            2 => {
                let i = rng.below(s.len() as u64 + 1) as usize;
                s.insert(i, *rng.pick(b"- "));
                if s.len() > 9 {
                    s.insert(8, b'-');
                }
            }
            3 => {
                let i = rng.below(s.len() as u64 + 1) as usize;
                s.insert(i, *rng.pick(b"x+.,/:0123456789"));
            }
            4 => {
                s.pop();
            }
            _ => {}
        }
        g.push("MD", hex(&s));
    }
    for _ in 0..600 * scale {
        g.push("MD", hex(&hostile_str(rng, b"0123456789- ", 26)));
    }

    // ---- QR payload
    for caps in [0u8, 1, 2, 4, 7, 8, 255] {
        for flow in 0..3u8 {
            g.push("Q", format!("{} {} {} {} {} {} -", 0xfff1, 0x8001, flow, caps, 3840, 20202021));
        }
    }
    for _ in 0..1800 * scale {
        let data = if rng.chance(1, 2) { Vec::new() } else { let n = rng.range(1, 40) as usize; rand_bytes(rng, n) };
        let pass = if rng.chance(9, 10) { edge_u64(rng, 27) } else { edge_u64(rng, 32) };
        let disc = if rng.chance(9, 10) { edge_u64(rng, 12) } else { edge_u64(rng, 16) };
        let caps = if rng.chance(9, 10) { rng.below(8) } else { rng.below(256) };
        g.push(
            "Q",
            format!("{} {} {} {} {} {} {}", edge_u64(rng, 16), edge_u64(rng, 16), rng.below(3), caps, disc, pass, hex(&data)),
        );
    }
    for _ in 0..2500 * scale {
        let s = match rng.below(4) {
            0 => {
                let mut s = b"MT:".to_vec();
                s.extend(hostile_str(rng, B38, 40));
                s
            }
            1 => hostile_str(rng, b"MT:0123456789ABCDEFGHIJKLMNOPQRSTUVWXYZ-.", 30),
            _ => {
                // arbitrary 11..20 payload bytes (all 88 bits random: version, flow 3, padding), valid base-38
                let n = rng.range(9, 20) as usize;
                let mut s = b"MT:".to_vec();
                s.extend(base38::encode(&rand_bytes(rng, n)).collect::<String>().into_bytes());
                if rng.chance(1, 3) && s.len() > 4 {
                    let i = rng.range(3, s.len() as u64 - 1) as usize;
                    s[i] = *rng.pick(b"!az/ Z.-0");
                }
                if rng.chance(1, 10) {
                    s[0] = b'm';
                }
                s
            }
        };
        g.push("QD", hex(&s));
    }

    // ---- StatusReport
    for gc in 0..=16u64 {
        g.push("S", format!("{} {} {} -", gc, 0, gc));
        g.push("S", format!("{} {} {} {}", gc, u32::MAX, u16::MAX, hex(&[0xff; 7])));
    }
    for _ in 0..500 * scale {
        let n = rng.below(20) as usize;
        g.push("S", format!("{} {} {} {}", rng.below(17), edge_u64(rng, 32), edge_u64(rng, 16), hex(&rand_bytes(rng, n))));
    }
    for n in 0..=9usize {
        g.push("SD", hex(&vec![0u8; n]));
        g.push("SD", hex(&vec![0xffu8; n]));
    }
    for _ in 0..900 * scale {
        let n = rng.below(16) as usize;
        let mut v = rand_bytes(rng, n);
        if v.len() > 1 && rng.chance(3, 4) {
            v[0] = rng.below(20) as u8;
            v[1] = if rng.chance(9, 10) { 0 } else { 1 };
        }
        g.push("SD", hex(&v));
    }

    // ---- second batch of modelled formats (check-in, BDX, BLE advertisement, mDNS TXT)
    deep::gen(rng, scale, &mut |k, rest| g.push(k, rest));

    // ---- formats without a model
    for rest in certx::gen_ce(rng, scale) {
        g.push("CE", rest);
    }
    let mut tcases = formats::gen_t(rng, scale);
    tcases.extend(certx::gen_t(rng, scale));
    for (fmt, mode, arg) in tcases {
        let key = format!("T:{}:{}", fmt, mode);
        writeln!(g.lines, "T {} {} {} {}", g.id, fmt, mode, arg).unwrap();
        g.id += 1;
        *g.kinds.entry(key).or_insert(0) += 1;
    }
    g
}

fn main() {
    silence_panics();
    let args: Vec<String> = std::env::args().collect();
    match args.get(1).map(|s| s.as_str()) {
        Some("gen") => {
            let tier = &args[2];
            let seed: u64 = args[3].parse().unwrap();
            let outdir = &args[4];
            let mut rng = Rng::new(seed);
            let scale = if tier == "thorough" { 10 } else { 1 };
            let g = gen_all(&mut rng, scale);
            std::fs::write(format!("{}/cases.txt", outdir), &g.lines).unwrap();
            let stats: Vec<String> = g.kinds.iter().map(|(k, v)| format!("\"{}\": {}", k, v)).collect();
            std::fs::write(format!("{}/stats.json", outdir), format!("{{{}}}\n", stats.join(", "))).unwrap();
        }
        Some("run") => {
            let body = std::fs::read_to_string(&args[2]).unwrap();
            let mut out = String::new();
            for line in body.lines() {
                if !line.is_empty() {
                    run_line(line, &mut out);
                }
            }
            print!("{}", out);
        }
        _ => {
            eprintln!("usage: c17 gen <tier> <seed> <outdir> | c17 run <cases>");
            std::process::exit(2);
        }
    }
}
