//! C06 correspondence harness: mediation of Interaction Model operations.
//!
//! A device `Matter` with a synthetic node (leaked 'static metadata generated per case), an
//! instrumented data-model handler that logs every read / write / invoke it receives, the
//! real `InteractionModel` + `Responder`, and a controller `Matter` that sends raw
//! ReadRequest / WriteRequest / InvokeRequest (optionally preceded by a TimedRequest) over a
//! preset session and decodes ReportData / WriteResponse / InvokeResponse.
//!
//! usage: c06 gen <quick|thorough> <seed> <outdir>   writes cases.txt + stats.json
//!        c06 run <cases-file>                       prints one line per case
//!
//! case line (same grammar as ocaml/c06/driver.ml):
//!   Q <id> <max_paths> <fabrics> <accessor> <nodes> <requests> [<events>]
//!     fabrics   table('!'table)*: alternative ACL tables over the same fabrics (table 0 is in force at the start of a request)
//!               table = C05 grammar: - | idx:entries:groups('|'...)   entry = priv,auth,efab,subjects,targets
//!     accessor  SC,fab,peer,c1/c2/c3,0,0 | SP,fab,n,0/0/0,0,0 | SG,fab,n,0/0/0,gid,0 (group session: writes and
//!               invokes only, sent unreliably, never answered; the response token is GL[handler calls])
//!     nodes     node('#'node)*     node = - | ep('|'ep)*     ep = id~dts~clusters
//!               clusters = - | cluster('+'cluster)*          cluster = id=attrs=cmds[=events]
//!               attrs/cmds = - | leaf('/'leaf)*              leaf = id.access.on
//!     requests  request(';'request)*   request = op,flag,ff,win,elapsed,swaps,items
//!               op E (read with event paths) | S (subscribe with event paths; the priming report is the answer) |
//!               R|W|I|C (C = continuation chunk of the preceding W/C on the same exchange: that one is sent with
//!               MoreChunkedMessages; its elapsed = ms waited before it is sent; win/ff unused); win n|<ms>; swaps - | k>j[/a](':'k>j[/a])*  (after k handler calls: node j, ACL table a);
//!               items item('&'item)*
//!               item = ep.cl.leaf[^ref]   (x = wildcard)
//!     events    the event queue of the device, pushed before the first request: ep.cl.ev.fab('&'...), fab = n or the
//!               FabricIndex field (tag 254) of the payload
//! output:  Q <id> <resp>( <resp>)*
//!     resp = X<code> | I[entry,..]L[call,..] | E<text> | N (continuation chunk not sent: an earlier chunk was refused)
//!     entry = D<e>.<c>.<l>[^ref] | S<path>[^ref]:<code>
//!     call  = R<e>.<c>.<l>.<fab>.<ff> | W<e>.<c>.<l>.<fab> | V<e>.<c>.<l>.<fab>
use core::num::NonZeroU8;
use std::cell::{Cell, RefCell};
use std::collections::BTreeMap;
use std::fmt::Write as _;
use std::io::Write as _;

use embassy_futures::select::{select, select4, Either};
use embassy_time::{Duration, Timer};

use rs_matter::acl::{AclEntry, AuthMode, Target};
use rs_matter::crypto::test_only_crypto;
use rs_matter::dm::clusters::basic_info::BasicInfoConfig;
use rs_matter::dm::clusters::net_comm::DummyNetworks;
use rs_matter::dm::devices::test::{TEST_DEV_ATT, TEST_DEV_COMM, TEST_DEV_DET};
use rs_matter::dm::{
    Access, AsyncHandler, Attribute, Cluster, Command, DeviceType, Endpoint, InvokeContext, InvokeReply,
    MatchContext, Metadata, Node, Privilege, Quality, ReadContext, ReadReply, Reply, WriteContext,
};
use rs_matter::error::Error;
use rs_matter::im::{
    AttrPath, AttrResp, CmdPath, CmdResp, IMStatusCode, InteractionModel, InteractionModelState, InvokeResp,
    OpCode, ReportDataResp, StatusResp, TimedReq, WriteResp, IM_REVISION,
};
use rs_matter::persist::DummyKvBlobStore;
use rs_matter::respond::Responder;
use rs_matter::tlv::{FromTLV, TLVElement, TLVTag, TLVWrite, ToTLV};
use rs_matter::transport::exchange::{Exchange, MatterBuffers};
use rs_matter::transport::network::NoNetwork;
use rs_matter::transport::session::{ReservedSession, SessionMode};
use rs_matter::utils::select::Coalesce;
use rs_matter::Matter;

use rsm_harness::e2e::{self, Net};
use rsm_harness::Rng;

const DEV: u16 = 1;
const CTL: u16 = 2;
const DEV_NODE: u64 = 0x0000_0000_00D0_0001;
const DISABLED_CMD_MARK: u32 = 0xDEAD;

// ------------------------------------------------------------------ parsing helpers

fn opt_num<T: std::str::FromStr>(s: &str) -> Option<T>
where
    T::Err: std::fmt::Debug,
{
    if s == "x" || s == "n" {
        None
    } else {
        Some(s.parse::<T>().unwrap())
    }
}

fn nlist<T: std::str::FromStr>(s: &str) -> Vec<T>
where
    T::Err: std::fmt::Debug,
{
    if s == "e" || s == "n" || s.is_empty() {
        Vec::new()
    } else {
        s.split('/').map(|x| x.parse::<T>().unwrap()).collect()
    }
}

fn plist(s: &str, sep: char) -> Vec<&str> {
    if s == "-" || s.is_empty() {
        Vec::new()
    } else {
        s.split(sep).collect()
    }
}

// ------------------------------------------------------------------ fabrics (as harness/src/bin/c05.rs, native mode)

fn parse_auth(s: &str) -> AuthMode {
    match s {
        "P" => AuthMode::Pase,
        "C" => AuthMode::Case,
        "G" => AuthMode::Group,
        _ => panic!("bad auth {s}"),
    }
}

fn build_entry(s: &str) -> AclEntry {
    let f: Vec<&str> = s.split(',').collect();
    let (p, a, ef, subj, targ) = (f[0], f[1], f[2], f[3], f[4]);
    let efab: Option<u8> = opt_num(ef);
    let mut e = AclEntry::new(
        efab.map(|x| NonZeroU8::new(x).unwrap()),
        Privilege::from_bits_retain(p.parse::<u8>().unwrap()),
        parse_auth(a),
    );
    if subj != "n" {
        for s in nlist::<u64>(subj) {
            e.add_subject(s).unwrap();
        }
    }
    if targ != "n" {
        for t in targ.split('/') {
            let p: Vec<&str> = t.split('.').collect();
            e.add_target(Target::new(opt_num(p[0]), opt_num(p[1]), opt_num(p[2]))).unwrap();
        }
    }
    e
}

fn build_fabrics(matter: &Matter<'_>, fabs: &str) {
    let descs: Vec<Vec<&str>> = plist(fabs, '|').into_iter().map(|f| f.split(':').collect()).collect();
    matter.with_state(|state| {
        state.fabrics.reset();
        let want: Vec<u8> = descs.iter().map(|d| d[0].parse::<u8>().unwrap()).collect();
        let max = want.iter().copied().max().unwrap_or(0);
        for i in 1..=max {
            let f = state.fabrics.add_with_post_init(|_| Ok(())).unwrap();
            assert_eq!(f.fab_idx().get(), i);
            if i > 1 && !want.contains(&(i - 1)) {
                state.fabrics.remove(NonZeroU8::new(i - 1).unwrap()).unwrap();
            }
        }
        for d in &descs {
            let idx = NonZeroU8::new(d[0].parse::<u8>().unwrap()).unwrap();
            let fabric = state.fabrics.get_mut(idx).unwrap();
            for g in plist(d[2], '+') {
                let p: Vec<&str> = g.split(',').collect();
                let gid: u16 = p[0].parse().unwrap();
                let eps: Vec<u16> = nlist(p[2]);
                fabric.groups_mut().groupcast_join(gid, &eps, false, None).unwrap();
                let m = fabric.groups_mut().get_mut(gid).unwrap();
                m.has_aux_acl = match p[1] {
                    "n" => None,
                    "1" => Some(true),
                    _ => Some(false),
                };
            }
            for e in plist(d[1], '+') {
                // the model applies the same bound (Model/Acl.v acl_add): refused entries are dropped on both sides
                let _ = fabric.acl_add(build_entry(e));
            }
        }
    });
}

/// Replace the ACL entries of every fabric by those of `table` (same fabrics, other entries).
fn apply_acl(matter: &Matter<'_>, table: &str) {
    matter.with_state(|state| {
        for f in plist(table, '|') {
            let d: Vec<&str> = f.split(':').collect();
            let idx = NonZeroU8::new(d[0].parse::<u8>().unwrap()).unwrap();
            if let Some(fabric) = state.fabrics.get_mut(idx) {
                fabric.acl_remove_all();
                for e in plist(d[1], '+') {
                    let _ = fabric.acl_add(build_entry(e));
                }
            }
        }
    });
}

// ------------------------------------------------------------------ synthetic node metadata

fn attr_selected(a: &Attribute, _rev: u16, _fm: u32) -> bool {
    !a.quality.contains(Quality::OPTIONAL)
}

fn cmd_selected(c: &Command, _rev: u16, _fm: u32) -> bool {
    c.resp_id != Some(DISABLED_CMD_MARK)
}

/// events declared with the (otherwise unused) access bit 0x8000 are not selected
fn event_selected(e: &rs_matter::dm::Event, _rev: u16, _fm: u32) -> bool {
    e.access.bits() & 0x8000 == 0
}

fn leak<T>(v: Vec<T>) -> &'static [T] {
    Box::leak(v.into_boxed_slice())
}

fn build_node(s: &str) -> &'static Node<'static> {
    let mut eps: Vec<Endpoint<'static>> = Vec::new();
    for e in plist(s, '|') {
        let f: Vec<&str> = e.split('~').collect();
        let id: u16 = f[0].parse().unwrap();
        let dts: Vec<DeviceType> = nlist::<u16>(f[1]).into_iter().map(|d| DeviceType { dtype: d, drev: 1 }).collect();
        let mut cls: Vec<Cluster<'static>> = Vec::new();
        for c in plist(f[2], '+') {
            let g: Vec<&str> = c.split('=').collect();
            let cid: u32 = g[0].parse().unwrap();
            let mut attrs: Vec<Attribute> = Vec::new();
            for l in plist(g[1], '/') {
                let p: Vec<&str> = l.split('.').collect();
                attrs.push(Attribute::new(
                    p[0].parse().unwrap(),
                    Access::from_bits_retain(p[1].parse::<u16>().unwrap()),
                    if p[2] == "1" { Quality::NONE } else { Quality::OPTIONAL },
                ));
            }
            let mut cmds: Vec<Command> = Vec::new();
            for l in plist(g[2], '/') {
                let p: Vec<&str> = l.split('.').collect();
                cmds.push(Command::new(
                    p[0].parse().unwrap(),
                    if p[2] == "1" { None } else { Some(DISABLED_CMD_MARK) },
                    Access::from_bits_retain(p[1].parse::<u16>().unwrap()),
                ));
            }
            let mut evs: Vec<rs_matter::dm::Event> = Vec::new();
            if g.len() > 3 {
                for l in plist(g[3], '/') {
                    let p: Vec<&str> = l.split('.').collect();
                    let bits = p[1].parse::<u16>().unwrap() | if p[2] == "1" { 0 } else { 0x8000 };
                    evs.push(rs_matter::dm::Event::new(p[0].parse().unwrap(), Access::from_bits_retain(bits)));
                }
            }
            cls.push(Cluster::new(cid, 1, 0, leak(attrs), leak(cmds), leak(evs), attr_selected, cmd_selected, event_selected));
        }
        eps.push(Endpoint::new(id, leak(dts), leak(cls)));
    }
    Box::leak(Box::new(Node::new(leak(eps))))
}

// ------------------------------------------------------------------ instrumented handler

struct Hnd<'a> {
    dev: &'a Matter<'a>,
    nodes: Vec<&'static Node<'static>>,
    acls: Vec<String>,
    cur: Cell<usize>,
    cur_acl: Cell<usize>,
    swaps: RefCell<Vec<(usize, usize, usize)>>,
    calls: Cell<usize>,
    log: RefCell<Vec<String>>,
}

/// Model/Im.v `config_at`: (node index, ACL table index) in force after `ncalls` handler calls
fn config_at(sw: &[(usize, usize, usize)], ncalls: usize) -> (usize, usize) {
    let mut cur = (0, 0);
    for (k, j, a) in sw {
        if *k <= ncalls {
            cur = (*j, *a);
        } else {
            break;
        }
    }
    cur
}

impl Hnd<'_> {
    fn switch_to(&self, cfg: (usize, usize)) {
        self.cur.set(cfg.0.min(self.nodes.len() - 1));
        let a = cfg.1.min(self.acls.len() - 1);
        if a != self.cur_acl.get() {
            apply_acl(self.dev, &self.acls[a]);
            self.cur_acl.set(a);
        }
    }
    fn begin(&self, swaps: Vec<(usize, usize, usize)>) {
        self.calls.set(0);
        self.switch_to(config_at(&swaps, 0));
        *self.swaps.borrow_mut() = swaps;
        self.log.borrow_mut().clear();
    }
    fn tick(&self) {
        self.calls.set(self.calls.get() + 1);
        let cfg = config_at(&self.swaps.borrow(), self.calls.get());
        self.switch_to(cfg);
    }
}

impl Metadata for Hnd<'_> {
    fn access<F, R>(&self, f: F) -> R
    where
        F: FnOnce(&Node<'_>) -> R,
    {
        f(self.nodes[self.cur.get()])
    }
}

impl AsyncHandler for Hnd<'_> {
    fn read_awaits(&self, _ctx: impl ReadContext) -> bool {
        false
    }
    fn write_awaits(&self, _ctx: impl WriteContext) -> bool {
        false
    }
    fn invoke_awaits(&self, _ctx: impl InvokeContext) -> bool {
        false
    }

    async fn read(&self, ctx: impl ReadContext, reply: impl ReadReply) -> Result<(), Error> {
        let a = ctx.attr();
        let r = match reply.with_dataver(1) {
            Ok(Some(w)) => w.set(7u8),
            Ok(None) => Ok(()),
            Err(e) => Err(e),
        };
        if let Err(e) = &r {
            if e.code() == rs_matter::error::ErrorCode::NoSpace {
                // the chunk is full: the engine flushes it and delivers the same read again;
                // this attempt delivered nothing and is not a separate operation
                return r;
            }
        }
        self.log.borrow_mut().push(format!(
            "R{}.{}.{}.{}.{}",
            a.endpoint_id, a.cluster_id, a.attr_id, a.fab_idx, a.fab_filter as u8
        ));
        self.tick();
        r
    }

    async fn write(&self, ctx: impl WriteContext) -> Result<(), Error> {
        let a = ctx.attr();
        self.log
            .borrow_mut()
            .push(format!("W{}.{}.{}.{}", a.endpoint_id, a.cluster_id, a.attr_id, a.fab_idx));
        self.tick();
        Ok(())
    }

    async fn invoke(&self, ctx: impl InvokeContext, _reply: impl InvokeReply) -> Result<(), Error> {
        let c = ctx.cmd();
        self.log
            .borrow_mut()
            .push(format!("V{}.{}.{}.{}", c.endpoint_id, c.cluster_id, c.cmd_id, c.fab_idx));
        self.tick();
        Ok(())
    }

    fn bump_dataver(&self, _ctx: impl MatchContext) {}
}

// ------------------------------------------------------------------ requests

#[derive(Clone)]
struct Item {
    ep: Option<u16>,
    cl: Option<u32>,
    leaf: Option<u32>,
    tag: Option<u16>,
}

struct Req {
    op: char,
    flag: bool,
    ff: bool,
    win: Option<u16>,
    elapsed: u64,
    swaps: Vec<(usize, usize, usize)>,
    items: Vec<Item>,
    more: bool,
}

fn parse_item(s: &str) -> Item {
    let (p, tag) = match s.split_once('^') {
        Some((p, t)) => (p, Some(t.parse::<u16>().unwrap())),
        None => (s, None),
    };
    let f: Vec<&str> = p.split('.').collect();
    Item {
        ep: opt_num(f[0]),
        cl: opt_num(f[1]),
        leaf: opt_num(f[2]),
        tag,
    }
}

fn parse_req(s: &str) -> Req {
    let f: Vec<&str> = s.split(',').collect();
    Req {
        op: f[0].chars().next().unwrap(),
        flag: f[1] == "1",
        ff: f[2] == "1",
        win: opt_num(f[3]),
        elapsed: f[4].parse().unwrap(),
        swaps: plist(f[5], ':')
            .into_iter()
            .map(|x| {
                let (k, j) = x.split_once('>').unwrap();
                let (j, a) = match j.split_once('/') {
                    Some((j, a)) => (j, a.parse().unwrap()),
                    None => (j, 0),
                };
                (k.parse().unwrap(), j.parse().unwrap(), a)
            })
            .collect(),
        items: plist(f[6], '&').into_iter().map(parse_item).collect(),
        more: false,
    }
}

fn o<T: ToString>(x: &Option<T>) -> String {
    x.as_ref().map(|v| v.to_string()).unwrap_or_else(|| "x".to_string())
}

fn tagstr(t: &Option<u16>) -> String {
    t.map(|v| format!("^{v}")).unwrap_or_default()
}

fn write_request(req: &Req, wb: &mut rs_matter::utils::storage::WriteBuf<'_>) -> Result<OpCode, Error> {
    wb.start_struct(&TLVTag::Anonymous)?;
    let opcode = match req.op {
        'E' | 'S' => {
            if req.op == 'S' {
                wb.bool(&TLVTag::Context(0), false)?; // keep subscriptions
                wb.u16(&TLVTag::Context(1), 0)?; // min interval floor
                wb.u16(&TLVTag::Context(2), 3600)?; // max interval ceiling
            }
            wb.start_array(&TLVTag::Context(if req.op == 'S' { 4 } else { 1 }))?;
            for it in &req.items {
                let p = rs_matter::im::EventPath {
                    node: None,
                    endpoint: it.ep,
                    cluster: it.cl,
                    event: it.leaf,
                    is_urgent: None,
                };
                p.to_tlv(&TLVTag::Anonymous, &mut *wb)?;
            }
            wb.end_container()?;
            wb.bool(&TLVTag::Context(if req.op == 'S' { 7 } else { 3 }), req.ff)?;
            if req.op == 'S' {
                OpCode::SubscribeRequest
            } else {
                OpCode::ReadRequest
            }
        }
        'R' => {
            wb.start_array(&TLVTag::Context(0))?;
            for it in &req.items {
                let p = AttrPath {
                    endpoint: it.ep,
                    cluster: it.cl,
                    attr: it.leaf,
                    ..Default::default()
                };
                p.to_tlv(&TLVTag::Anonymous, &mut *wb)?;
            }
            wb.end_container()?;
            wb.bool(&TLVTag::Context(3), req.ff)?;
            OpCode::ReadRequest
        }
        'W' | 'C' => {
            wb.bool(&TLVTag::Context(0), false)?;
            wb.bool(&TLVTag::Context(1), req.flag)?;
            wb.start_array(&TLVTag::Context(2))?;
            for it in &req.items {
                wb.start_struct(&TLVTag::Anonymous)?;
                let p = AttrPath {
                    endpoint: it.ep,
                    cluster: it.cl,
                    attr: it.leaf,
                    ..Default::default()
                };
                p.to_tlv(&TLVTag::Context(1), &mut *wb)?;
                wb.u8(&TLVTag::Context(2), 5)?;
                wb.end_container()?;
            }
            wb.end_container()?;
            if req.more {
                wb.bool(&TLVTag::Context(3), true)?;
            }
            OpCode::WriteRequest
        }
        _ => {
            wb.bool(&TLVTag::Context(0), false)?;
            wb.bool(&TLVTag::Context(1), req.flag)?;
            wb.start_array(&TLVTag::Context(2))?;
            for it in &req.items {
                wb.start_struct(&TLVTag::Anonymous)?;
                CmdPath::new(it.ep, it.cl, it.leaf).to_tlv(&TLVTag::Context(0), &mut *wb)?;
                wb.start_struct(&TLVTag::Context(1))?;
                wb.end_container()?;
                if let Some(t) = it.tag {
                    wb.u16(&TLVTag::Context(2), t)?;
                }
                wb.end_container()?;
            }
            wb.end_container()?;
            OpCode::InvokeRequest
        }
    };
    wb.u8(&TLVTag::Context(0xFF), IM_REVISION)?;
    wb.end_container()?;
    Ok(opcode)
}

fn status_only(payload: &[u8]) -> Result<String, Error> {
    let s = StatusResp::from_tlv(&TLVElement::new(payload))?;
    Ok(format!("X{}", s.status as u16))
}

/// Open a fresh exchange for `req` (sending the TimedRequest and waiting, if it asks for one).
/// `Err(token)`: the TimedRequest itself was not accepted.
async fn open_exchange<'a>(ctl: &'a Matter<'a>, dev_node: u64, req: &Req) -> Result<Result<Exchange<'a>, String>, Error> {
    let crypto = test_only_crypto();
    let mut ex = Exchange::initiate(ctl, &crypto, NonZeroU8::new(1).unwrap(), dev_node).await?;
    if let Some(ms) = req.win {
        ex.send_with(|_, wb| {
            TimedReq::new(ms).to_tlv(&TLVTag::Anonymous, &mut *wb)?;
            Ok(Some(OpCode::TimedRequest.meta()))
        })
        .await?;
        let rx = ex.recv().await?;
        if rx.meta().proto_opcode != OpCode::StatusResponse as u8 {
            return Ok(Err(format!("Eopcode{}", rx.meta().proto_opcode)));
        }
        let st = StatusResp::from_tlv(&TLVElement::new(rx.payload()))?;
        drop(rx);
        if st.status != IMStatusCode::Success {
            ex.acknowledge().await?;
            return Ok(Err(format!("X{}", st.status as u16)));
        }
        if req.elapsed > 0 {
            // acknowledge first so that the device does not retransmit while we wait
            ex.acknowledge().await?;
            Timer::after(Duration::from_millis(req.elapsed)).await;
        }
    }
    Ok(Ok(ex))
}

/// Send one request message on the exchange and collect its answer (all chunks of a ReportData);
/// returns the canonical response without the handler log. The last message received is not acknowledged.
async fn exchange_one(ex: &mut Exchange<'_>, req: &Req) -> Result<String, Error> {
    ex.send_with(|_, wb| {
        let opcode = write_request(req, wb)?;
        Ok(Some(opcode.meta()))
    })
    .await?;

    let mut entries: Vec<String> = Vec::new();
    let result;
    loop {
        let rx = ex.recv().await?;
        let opcode = rx.meta().proto_opcode;
        let payload = rx.payload();
        if opcode == OpCode::StatusResponse as u8 {
            result = status_only(payload)?;
            drop(rx);
            break;
        } else if opcode == OpCode::ReportData as u8 {
            let r = ReportDataResp::from_tlv(&TLVElement::new(payload))?;
            if let Some(reps) = &r.attr_reports {
                for rep in reps.iter() {
                    match rep? {
                        AttrResp::Data(d) => entries.push(format!(
                            "D{}.{}.{}",
                            o(&d.path.endpoint),
                            o(&d.path.cluster),
                            o(&d.path.attr)
                        )),
                        AttrResp::Status(s) => entries.push(format!(
                            "S{}.{}.{}:{}",
                            o(&s.path.endpoint),
                            o(&s.path.cluster),
                            o(&s.path.attr),
                            s.status.status as u16
                        )),
                    }
                }
            }
            if let Some(reps) = &r.event_reports {
                for rep in reps.iter() {
                    match rep? {
                        rs_matter::im::EventResp::Data(d) => {
                            let fab = d
                                .data
                                .structure()
                                .ok()
                                .and_then(|st| st.find_ctx(254).ok())
                                .and_then(|e| e.u8().ok());
                            entries.push(format!(
                                "D{}.{}.{}{}",
                                o(&d.path.endpoint),
                                o(&d.path.cluster),
                                o(&d.path.event),
                                fab.map(|f| format!("^{f}")).unwrap_or_default()
                            ));
                        }
                        rs_matter::im::EventResp::Status(st) => entries.push(format!(
                            "S{}.{}.{}:{}",
                            o(&st.path.endpoint),
                            o(&st.path.cluster),
                            o(&st.path.event),
                            st.status.status as u16
                        )),
                    }
                }
            }
            let more = r.more_chunks.unwrap_or(false);
            drop(rx);
            if req.op == 'S' && !more {
                // the priming report is complete: confirm it and take the SubscribeResponse
                ex.send_with(|_, wb| {
                    StatusResp::write(wb, IMStatusCode::Success)?;
                    Ok(Some(OpCode::StatusResponse.meta()))
                })
                .await?;
                let rx = ex.recv().await?;
                let oc = rx.meta().proto_opcode;
                drop(rx);
                result = if oc == OpCode::SubscribeResponse as u8 {
                    format!("I[{}]", entries.join(","))
                } else {
                    format!("Eopcode{oc}")
                };
                break;
            }
            if more {
                ex.send_with(|_, wb| {
                    StatusResp::write(wb, IMStatusCode::Success)?;
                    Ok(Some(OpCode::StatusResponse.meta()))
                })
                .await?;
                continue;
            }
            result = format!("I[{}]", entries.join(","));
            break;
        } else if opcode == OpCode::WriteResponse as u8 {
            let r = WriteResp::from_tlv(&TLVElement::new(payload))?;
            for s in r.write_responses.iter() {
                let s = s?;
                let path = format!("{}.{}.{}", o(&s.path.endpoint), o(&s.path.cluster), o(&s.path.attr));
                if s.status.status == IMStatusCode::Success {
                    entries.push(format!("D{path}"));
                } else {
                    entries.push(format!("S{path}:{}", s.status.status as u16));
                }
            }
            drop(rx);
            result = format!("I[{}]", entries.join(","));
            break;
        } else if opcode == OpCode::InvokeResponse as u8 {
            let r = InvokeResp::from_tlv(&TLVElement::new(payload))?;
            if let Some(resps) = &r.invoke_responses {
                for c in resps.iter() {
                    match c? {
                        CmdResp::Cmd(d) => entries.push(format!(
                            "D{}.{}.{}{}",
                            o(&d.path.endpoint),
                            o(&d.path.cluster),
                            o(&d.path.cmd),
                            tagstr(&d.command_ref)
                        )),
                        CmdResp::Status(s) => {
                            let path = format!(
                                "{}.{}.{}{}",
                                o(&s.path.endpoint),
                                o(&s.path.cluster),
                                o(&s.path.cmd),
                                tagstr(&s.command_ref)
                            );
                            if s.status.status == IMStatusCode::Success {
                                entries.push(format!("D{path}"));
                            } else {
                                entries.push(format!("S{path}:{}", s.status.status as u16));
                            }
                        }
                    }
                }
            }
            drop(rx);
            result = format!("I[{}]", entries.join(","));
            break;
        } else {
            drop(rx);
            result = format!("Eopcode{opcode}");
            break;
        }
    }
    Ok(result)
}

/// A write / invoke over the group session: sent unreliably, never answered; the handler log is the result.
async fn do_group_request(ctl: &Matter<'_>, dev_node: u64, hnd: &Hnd<'_>, req: &Req) -> Result<String, Error> {
    let crypto = test_only_crypto();
    hnd.begin(req.swaps.clone());
    let mut ex = Exchange::initiate(ctl, &crypto, NonZeroU8::new(1).unwrap(), dev_node).await?;
    ex.send_with(|_, wb| {
        let opcode = write_request(req, wb)?;
        Ok(Some(opcode.meta().reliable(false)))
    })
    .await?;
    drop(ex);
    // the device processes the message on its own; nothing comes back
    for _ in 0..6 {
        Timer::after(Duration::from_millis(2)).await;
    }
    Ok(format!("GL[{}]", hnd.log.borrow().join(",")))
}

/// One request (for a write: all its chunks) on a fresh exchange. Pushes one token per element of
/// `group` onto `tokens`: the canonical response with the handler log of that message, or `N`.
async fn do_group(ctl: &Matter<'_>, dev_node: u64, hnd: &Hnd<'_>, group: &[Req], tokens: &RefCell<Vec<String>>) -> Result<(), Error> {
    let mut ex = match open_exchange(ctl, dev_node, &group[0]).await? {
        Ok(ex) => ex,
        Err(tok) => {
            tokens.borrow_mut().push(tok);
            return Ok(());
        }
    };
    for (i, req) in group.iter().enumerate() {
        if i > 0 {
            ex.acknowledge().await?;
            if req.elapsed > 0 {
                Timer::after(Duration::from_millis(req.elapsed)).await;
            }
        }
        hnd.begin(req.swaps.clone());
        let body = exchange_one(&mut ex, req).await?;
        // let the device finish with the message before the log is read
        Timer::after(Duration::from_millis(1)).await;
        let log = hnd.log.borrow().join(",");
        let served = body.starts_with('I');
        if served || !log.is_empty() {
            tokens.borrow_mut().push(format!("{body}L[{log}]"));
        } else {
            tokens.borrow_mut().push(body);
        }
        if !served {
            break;
        }
    }
    ex.acknowledge().await?;
    Ok(())
}

fn leaked_dev_det(max_paths: u16) -> &'static BasicInfoConfig<'static> {
    thread_local! {
        static CACHE: RefCell<BTreeMap<u16, &'static BasicInfoConfig<'static>>> = RefCell::new(BTreeMap::new());
    }
    CACHE.with(|c| {
        *c.borrow_mut().entry(max_paths).or_insert_with(|| {
            Box::leak(Box::new(BasicInfoConfig {
                max_paths_per_invoke: max_paths,
                ..TEST_DEV_DET
            }))
        })
    })
}

fn run_line(line: &str, out: &mut String) {
    let f: Vec<&str> = line.split(' ').collect();
    if (f.len() != 7 && f.len() != 8) || f[0] != "Q" {
        return;
    }
    let max_paths: u16 = f[2].parse().unwrap();
    let acc: Vec<&str> = f[4].split(',').collect();
    let fab: u8 = acc[1].parse().unwrap();
    let peer: u64 = opt_num(acc[2]).unwrap_or(0xC0FFEE);
    let mode = match acc[0] {
        "SC" => {
            let c: Vec<u32> = nlist(acc[3]);
            SessionMode::Case {
                fab_idx: NonZeroU8::new(fab).unwrap(),
                cat_ids: [c[0], c[1], c[2]],
            }
        }
        "SP" => SessionMode::Pase { fab_idx: fab },
        "SG" => SessionMode::Group {
            fab_idx: NonZeroU8::new(fab).unwrap(),
            group_id: acc[4].parse().unwrap(),
        },
        k => panic!("bad accessor kind {k}"),
    };
    let group_line = acc[0] == "SG";
    let nodes: Vec<&'static Node<'static>> = f[5].split('#').map(build_node).collect();
    let mut reqs: Vec<Req> = f[6].split(';').map(parse_req).collect();
    for i in 0..reqs.len() {
        if i + 1 < reqs.len() && reqs[i + 1].op == 'C' && (reqs[i].op == 'W' || reqs[i].op == 'C') {
            reqs[i].more = true;
        }
    }

    let crypto = test_only_crypto();
    let dev = Matter::new(leaked_dev_det(max_paths), TEST_DEV_COMM, &TEST_DEV_ATT, 5540);
    let acls: Vec<String> = f[3].split('!').map(|x| x.to_string()).collect();
    build_fabrics(&dev, &acls[0]);
    let ctl = e2e::new_matter(&TEST_DEV_DET, true);

    // device side: the session under test; controller side: a CASE session with the same ids
    let preset_dev_session = || {
        let mut s = ReservedSession::reserve_now(&dev, &crypto).unwrap();
        s.update(DEV_NODE, peer, 2, 1, e2e::node_addr(CTL), mode.clone(), None, None, None, None).unwrap();
        s.complete();
    };
    preset_dev_session();
    e2e::preset_case_session(&ctl, &crypto, peer, DEV_NODE, 2, 1, e2e::node_addr(DEV), 1, Default::default()).unwrap();

    let net = Net::reliable();
    let (d_tx, d_rx) = net.attach(DEV);
    let (c_tx, c_rx) = net.attach(CTL);

    let hnd = Hnd {
        dev: &dev,
        nodes,
        acls,
        cur: Cell::new(0),
        cur_acl: Cell::new(0),
        swaps: RefCell::new(Vec::new()),
        calls: Cell::new(0),
        log: RefCell::new(Vec::new()),
    };
    let buffers: MatterBuffers = MatterBuffers::new();
    let state: InteractionModelState<DummyNetworks, 3, 4096> = InteractionModelState::new(DummyNetworks);
    state.suppress_start_up_event();
    let kv = dev.kv(DummyKvBlobStore);
    // the event queue
    if f.len() == 8 {
        for ev in plist(f[7], '&') {
            let p: Vec<&str> = ev.split('.').collect();
            let fabtag: Option<u8> = opt_num(p[3]);
            state
                .events()
                .push(
                    p[0].parse().unwrap(),
                    p[1].parse().unwrap(),
                    p[2].parse().unwrap(),
                    rs_matter::im::EventPriority::Info,
                    &kv,
                    |mut tw| -> Result<(), Error> {
                        let mut buf = [0u8; 64];
                        let mut wb = rs_matter::utils::storage::WriteBuf::new(&mut buf);
                        wb.start_struct(&TLVTag::Context(rs_matter::im::EventDataTag::Data as u8))?;
                        if let Some(fi) = fabtag {
                            wb.u8(&TLVTag::Context(254), fi)?;
                        }
                        wb.end_container()?;
                        let end = wb.get_tail();
                        tw.write_raw_data(buf[..end].iter().copied())?;
                        Ok(())
                    },
                )
                .unwrap();
        }
    }
    let dm = InteractionModel::new(&dev, &crypto, &buffers, &hnd, &kv, &state);
    let responder = Responder::new_default(&dm);

    let results: RefCell<Vec<String>> = RefCell::new(Vec::new());
    e2e::block_on(async {
        let device = select4(
            dev.run(&crypto, d_tx, d_rx, NoNetwork),
            responder.run::<4>(),
            ctl.run(&crypto, c_tx, c_rx, NoNetwork),
            dm.run(),
        )
        .coalesce();
        let flow = async {
            let mut i = 0;
            while i < reqs.len() {
                let mut j = i + 1;
                while j < reqs.len() && reqs[j].op == 'C' && (reqs[i].op == 'W' || reqs[i].op == 'C') {
                    j += 1;
                }
                let group = &reqs[i..j];
                let before = results.borrow().len();
                if group_line {
                    // the receive path drops a group session with its last exchange: install it again if it is gone
                    let present = dev.with_state(|st| st.verif_sessions().iter().any(|s| s.get_local_sess_id() == 1));
                    if !present {
                        preset_dev_session();
                    }
                    let r = e2e::with_timeout(4000, do_group_request(&ctl, DEV_NODE, &hnd, &group[0])).await;
                    results.borrow_mut().push(match r {
                        Some(Ok(s)) => s,
                        Some(Err(e)) => format!("Eerr:{:?}", e.code()),
                        None => "Ehang".to_string(),
                    });
                    i += 1;
                    continue;
                }
                let wait: u64 = group.iter().map(|r| r.elapsed).sum();
                let r = e2e::with_timeout(8000 + wait, do_group(&ctl, DEV_NODE, &hnd, group, &results)).await;
                let hang = match r {
                    Some(Ok(())) => false,
                    Some(Err(e)) => {
                        results.borrow_mut().push(format!("Eerr:{:?}", e.code()));
                        false
                    }
                    None => {
                        results.borrow_mut().push("Ehang".to_string());
                        true
                    }
                };
                while results.borrow().len() < before + group.len() {
                    results.borrow_mut().push("N".to_string());
                }
                results.borrow_mut().truncate(before + group.len());
                // let the device finish the exchange before the next request resets the handler
                Timer::after(Duration::from_millis(1)).await;
                if hang {
                    break;
                }
                i = j;
            }
        };
        match select(core::pin::pin!(device), core::pin::pin!(flow)).await {
            Either::First(r) => results.borrow_mut().push(format!("Etransport:{:?}", r.map_err(|e| e.code()))),
            Either::Second(()) => {}
        }
    });
    writeln!(out, "Q {} {}", f[1], results.borrow().join(" ")).unwrap();
}

// ------------------------------------------------------------------ generation

const N1: u64 = 112233;
const N2: u64 = 112232;
const PREFIX: u64 = 0xFFFF_FFFD_0000_0000;
const CAT_A: u32 = 0xABCD;

fn cat(id: u32, ver: u32) -> u32 {
    (id << 16) | ver
}

/// access declarations (Access bits): R=16 W=32 FS=64 FSENS=128 TIMED=256; V=1 O=2 M=4 A=8
const ATTR_DECLS: [u16; 16] = [
    17,        // RV
    24,        // RA
    57,        // RWVA
    61,        // RWVM
    46,        // WO
    40,        // WA
    44,        // WM
    57 + 256,  // RWVA timed
    46 + 256,  // WO timed
    17 + 128,  // RV fabric sensitive
    57 + 64,   // RWVA fabric scoped
    48,        // RW, no level named
    0,         // nothing
    30,        // R, operate
    63,        // RWVO
    44 + 256,  // WM timed
];
const CMD_DECLS: [u16; 10] = [
    46,        // WO
    40,        // WA
    44,        // WM
    46 + 256,  // WO timed
    40 + 256,  // WA timed
    40 + 64,   // WA fabric scoped
    46 + 64,   // WO fabric scoped
    40 + 64 + 256,
    14,        // levels but no WRITE bit
    0,
];
const EP_POOL: [u16; 6] = [0, 1, 2, 5, 9, 300];
const CL_POOL: [u32; 5] = [6, 8, 0x1F, 0x1234, 0xFFF1_0001];
const ATTR_POOL: [u32; 7] = [0, 1, 2, 3, 0x4001, 0xFFFC, 0xFFFD];
const CMD_POOL: [u32; 5] = [0, 1, 2, 0x40, 0x41];
const DT_POOL: [u16; 3] = [0x0100, 22, 0x0016];
const EV_POOL: [u32; 4] = [0, 1, 2, 3];
/// event declarations: RV, RA, R operate, RV fabric-sensitive, RM fabric-sensitive, nothing, levels without READ
const EV_DECLS: [u16; 8] = [17, 17, 24, 30, 17 + 128, 20 + 128, 0, 1];

fn sample<T: Copy>(rng: &mut Rng, pool: &[T], n: usize) -> Vec<T> {
    let mut idx: Vec<usize> = (0..pool.len()).collect();
    let mut out = Vec::new();
    for _ in 0..n.min(pool.len()) {
        let k = rng.below(idx.len() as u64) as usize;
        out.push(idx.remove(k));
    }
    out.sort();
    out.into_iter().map(|i| pool[i]).collect()
}

#[derive(Clone)]
struct GLeaf(u32, u16, bool);
#[derive(Clone)]
struct GCluster(u32, Vec<GLeaf>, Vec<GLeaf>, Vec<GLeaf>);
#[derive(Clone)]
struct GEp(u16, Vec<u16>, Vec<GCluster>);

fn show_leaves(v: &[GLeaf]) -> String {
    if v.is_empty() {
        "-".into()
    } else {
        v.iter().map(|l| format!("{}.{}.{}", l.0, l.1, l.2 as u8)).collect::<Vec<_>>().join("/")
    }
}

fn show_node(n: &[GEp]) -> String {
    if n.is_empty() {
        return "-".into();
    }
    n.iter()
        .map(|e| {
            let dts = if e.1.is_empty() { "e".to_string() } else { e.1.iter().map(|d| d.to_string()).collect::<Vec<_>>().join("/") };
            let cls = if e.2.is_empty() {
                "-".to_string()
            } else {
                e.2.iter().map(|c| format!("{}={}={}={}", c.0, show_leaves(&c.1), show_leaves(&c.2), show_leaves(&c.3))).collect::<Vec<_>>().join("+")
            };
            format!("{}~{}~{}", e.0, dts, cls)
        })
        .collect::<Vec<_>>()
        .join("|")
}

fn rand_cluster(rng: &mut Rng, id: u32, max_leaves: usize) -> GCluster {
    let na = rng.below(max_leaves as u64 + 1) as usize;
    let attrs = sample(rng, &ATTR_POOL, na)
        .into_iter()
        .map(|a| GLeaf(a, *rng.pick(&ATTR_DECLS), !rng.chance(1, 10)))
        .collect();
    let nc = rng.below(4) as usize;
    let cmds = sample(rng, &CMD_POOL, nc)
        .into_iter()
        .map(|c| GLeaf(c, *rng.pick(&CMD_DECLS), !rng.chance(1, 10)))
        .collect();
    let ne = rng.below(4) as usize;
    let evs = sample(rng, &EV_POOL, ne)
        .into_iter()
        .map(|e| GLeaf(e, *rng.pick(&EV_DECLS), !rng.chance(1, 10)))
        .collect();
    GCluster(id, attrs, cmds, evs)
}

fn rand_ep(rng: &mut Rng, id: u16, max_leaves: usize) -> GEp {
    let ncl = rng.range(0, 3) as usize;
    let cls = sample(rng, &CL_POOL, ncl).into_iter().map(|c| rand_cluster(rng, c, max_leaves)).collect();
    let ndt = rng.below(3) as usize;
    GEp(id, sample(rng, &DT_POOL, ndt), cls)
}

fn rand_node(rng: &mut Rng, max_eps: usize, max_leaves: usize) -> Vec<GEp> {
    let n = rng.range(0, max_eps as u64) as usize;
    sample(rng, &EP_POOL, n).into_iter().map(|e| rand_ep(rng, e, max_leaves)).collect()
}

/// A successor of `n`: endpoints removed / added (shape of the survivors kept); with `break_shape`
/// a surviving endpoint is re-generated (violates the Node invariant; correspondence only).
fn mutate_node(rng: &mut Rng, n: &[GEp], break_shape: bool) -> Vec<GEp> {
    let mut m: Vec<GEp> = n.to_vec();
    let k = rng.range(1, 2);
    for _ in 0..k {
        match rng.below(3) {
            0 if !m.is_empty() => {
                let i = rng.below(m.len() as u64) as usize;
                m.remove(i);
            }
            _ => {
                let id = *rng.pick(&EP_POOL);
                if !m.iter().any(|e| e.0 == id) && !n.iter().any(|e| e.0 == id) {
                    m.push(rand_ep(rng, id, 4));
                    m.sort_by_key(|e| e.0);
                }
            }
        }
    }
    if break_shape && !m.is_empty() {
        let i = rng.below(m.len() as u64) as usize;
        let id = m[i].0;
        m[i] = rand_ep(rng, id, 4);
    }
    m
}

fn rand_entry(rng: &mut Rng, peer: u64) -> String {
    let pr = *rng.pick(&[1u8, 3, 7, 15, 15, 3]);
    let auth = if rng.chance(1, 12) { "G" } else { "C" };
    let subj = match rng.below(6) {
        0 => "n".to_string(),
        1 => format!("{}", if peer == N1 { N2 } else { N1 }),
        2 => format!("{}", PREFIX | cat(CAT_A, 2) as u64),
        3 => format!("{}/{}", N2, peer),
        _ => format!("{peer}"),
    };
    let targ = match rng.below(7) {
        0 | 1 => "n".to_string(),
        2 => format!("{}.x.x", rng.pick(&EP_POOL)),
        3 => format!("x.{}.x", rng.pick(&CL_POOL)),
        4 => format!("x.x.{}", rng.pick(&DT_POOL)),
        5 => format!("{}.{}.x", rng.pick(&EP_POOL), rng.pick(&CL_POOL)),
        _ => format!("{}.x.x/x.{}.x", rng.pick(&EP_POOL), rng.pick(&CL_POOL)),
    };
    format!("{pr},{auth},n,{subj},{targ}")
}

fn rand_fabrics(rng: &mut Rng, peer: u64) -> String {
    let mut fs = Vec::new();
    for idx in 1..=2u8 {
        let ne = rng.range(0, 3);
        let es: Vec<String> = (0..ne).map(|_| rand_entry(rng, peer)).collect();
        fs.push(format!("{idx}:{}:-", if es.is_empty() { "-".to_string() } else { es.join("+") }));
    }
    fs.join("|")
}

fn rand_accessor(rng: &mut Rng) -> (String, u64) {
    let peer = if rng.chance(1, 4) { N2 } else { N1 };
    let k = rng.below(10);
    if k < 1 {
        ("SP,0,n,0/0/0,0,0".to_string(), peer)
    } else if k < 2 {
        ("SP,1,n,0/0/0,0,0".to_string(), peer)
    } else {
        let fab = match rng.below(8) {
            0 => 2,
            1 => 3, // no such fabric
            _ => 1,
        };
        let c0 = if rng.chance(1, 3) { cat(CAT_A, rng.range(1, 3) as u32) } else { 0 };
        (format!("SC,{fab},{peer},{c0}/0/0,0,0"), peer)
    }
}

fn pick_path(rng: &mut Rng, node: &[GEp], cmd: bool, wild_p: u64) -> (String, String, String) {
    // mostly an existing element, sometimes ids that are absent
    let (mut e, mut c, mut l) = (rng.pick(&EP_POOL).to_string(), rng.pick(&CL_POOL).to_string(), rng.pick(if cmd { &CMD_POOL[..] } else { &ATTR_POOL[..] }).to_string());
    if !node.is_empty() && rng.chance(4, 5) {
        let ep = &node[rng.below(node.len() as u64) as usize];
        e = ep.0.to_string();
        if !ep.2.is_empty() && rng.chance(5, 6) {
            let cl = &ep.2[rng.below(ep.2.len() as u64) as usize];
            c = cl.0.to_string();
            let ls = if cmd { &cl.2 } else { &cl.1 };
            if !ls.is_empty() && rng.chance(5, 6) {
                l = ls[rng.below(ls.len() as u64) as usize].0.to_string();
            }
        }
    }
    if rng.chance(wild_p, 100) {
        e = "x".into();
    }
    if rng.chance(wild_p, 100) {
        c = "x".into();
    }
    if rng.chance(wild_p, 100) {
        l = "x".into();
    }
    (e, c, l)
}

fn rand_request(rng: &mut Rng, nodes: &[Vec<GEp>], hist: &mut BTreeMap<String, u64>, big: bool, two_acls: bool) -> String {
    let op = *rng.pick(&['R', 'R', 'W', 'I']);
    let node = &nodes[0];
    let nitems = if big { 1 } else { rng.range(1, 4) as usize };
    let mut items: Vec<String> = Vec::new();
    for i in 0..nitems {
        if i > 0 && rng.chance(if op == 'I' { 1 } else { 6 }, 20) {
            // a repeat of an earlier item
            let prev = items[rng.below(items.len() as u64) as usize].clone();
            items.push(prev);
            *hist.entry("items_repeated".into()).or_insert(0) += 1;
            continue;
        }
        let wild_p = match op {
            'R' => 30,
            _ => 12,
        };
        let (mut e, mut c, mut l) = pick_path(rng, node, op == 'I', wild_p);
        if op == 'R' && c == "x" && l != "x" && !rng.chance(1, 12) {
            // cluster wildcard + concrete attribute is only legal for global attributes
            l = if rng.chance(1, 2) { "65533".into() } else { "x".into() };
        }
        if op != 'R' && rng.chance(2, 3) {
            // writes and invokes: wildcards only in the endpoint position, mostly
            if c == "x" {
                c = rng.pick(&CL_POOL).to_string();
            }
            if l == "x" {
                l = "0".into();
            }
        }
        if big {
            e = "x".into();
            c = "x".into();
            l = "x".into();
        }
        let wild = e == "x" || c == "x" || l == "x";
        *hist.entry(format!("items_{}_{}", op, if wild { "wildcard" } else { "concrete" })).or_insert(0) += 1;
        items.push(format!("{e}.{c}.{l}"));
    }
    if op == 'I' {
        // command refs: distinct when several paths, sometimes missing / duplicated
        let n = items.len();
        for (i, it) in items.iter_mut().enumerate() {
            let r = if n == 1 {
                if rng.chance(1, 2) { None } else { Some(7) }
            } else if rng.chance(1, 25) {
                None
            } else if rng.chance(1, 25) {
                Some(1)
            } else {
                Some(i as u16 + 1)
            };
            if let Some(r) = r {
                it.push_str(&format!("^{r}"));
            }
        }
    }
    let (flag, win, elapsed, tname) = if op == 'R' {
        if rng.chance(1, 12) { (0, "10000".to_string(), 0, "read_after_timed") } else { (0, "n".to_string(), 0, "untimed") }
    } else {
        match rng.below(10) {
            0..=3 => (0, "n".to_string(), 0, "untimed"),
            4..=6 => (1, "10000".to_string(), 0, "timed_open"),
            7 => (1, "n".to_string(), 0, "flag_without_window"),
            8 => (0, "10000".to_string(), 0, "window_without_flag"),
            _ => (1, rng.range(1, 3).to_string(), 45, "timed_expired"),
        }
    };
    *hist.entry(format!("timing_{tname}")).or_insert(0) += 1;
    let ff = rng.below(2);
    let swaps = if nodes.len() > 1 {
        let mut ks: Vec<u64> = (1..nodes.len()).map(|_| rng.range(0, if big { 40 } else { 5 })).collect();
        ks.sort();
        ks.iter()
            .enumerate()
            .map(|(i, k)| {
                if two_acls {
                    format!("{k}>{}/{}", i + 1, rng.below(2))
                } else {
                    format!("{k}>{}", i + 1)
                }
            })
            .collect::<Vec<_>>()
            .join(":")
    } else if two_acls {
        let k1 = rng.range(0, 4);
        if rng.chance(1, 3) {
            format!("{k1}>0/1:{}>0/0", k1 + rng.range(1, 3))
        } else {
            format!("{k1}>0/1")
        }
    } else {
        "-".to_string()
    };
    let mut out = format!("{op},{flag},{ff},{win},{elapsed},{swaps},{}", items.join("&"));
    if op == 'W' && !big && rng.chance(1, 5) {
        // continued in one or two more chunks (each with its own TimedRequest flag)
        for _ in 0..rng.range(1, 2) {
            let cflag = if rng.chance(3, 4) { flag } else { 1 - flag };
            let n = rng.range(1, 3);
            let its: Vec<String> = (0..n)
                .map(|_| {
                    let (e, mut c, mut l) = pick_path(rng, node, false, 10);
                    if c == "x" {
                        c = rng.pick(&CL_POOL).to_string();
                    }
                    if l == "x" {
                        l = "1".into();
                    }
                    format!("{e}.{c}.{l}")
                })
                .collect();
            out.push_str(&format!(";C,{cflag},0,n,0,-,{}", its.join("&")));
            *hist.entry("write_continuation_chunks".into()).or_insert(0) += 1;
        }
    }
    out
}

fn rand_event_path(rng: &mut Rng, node: &[GEp]) -> String {
    let (mut e, mut c, mut l) = (rng.pick(&EP_POOL).to_string(), rng.pick(&CL_POOL).to_string(), rng.pick(&EV_POOL).to_string());
    if !node.is_empty() && rng.chance(4, 5) {
        let ep = &node[rng.below(node.len() as u64) as usize];
        e = ep.0.to_string();
        if !ep.2.is_empty() && rng.chance(5, 6) {
            let cl = &ep.2[rng.below(ep.2.len() as u64) as usize];
            c = cl.0.to_string();
            if !cl.3.is_empty() && rng.chance(5, 6) {
                l = cl.3[rng.below(cl.3.len() as u64) as usize].0.to_string();
            }
        }
    }
    for x in [&mut e, &mut c, &mut l] {
        if rng.chance(35, 100) {
            *x = "x".into();
        }
    }
    format!("{e}.{c}.{l}")
}

fn rand_queue(rng: &mut Rng, node: &[GEp]) -> String {
    let n = rng.range(0, 10);
    let evs: Vec<String> = (0..n)
        .map(|_| {
            let p = loop {
                let p = rand_event_path(rng, node);
                if !p.contains('x') {
                    break p;
                }
            };
            let fab = *rng.pick(&["n", "n", "1", "2", "2", "3", "0"]);
            format!("{p}.{fab}")
        })
        .collect();
    if evs.is_empty() {
        "-".to_string()
    } else {
        evs.join("&")
    }
}

fn rand_event_request(rng: &mut Rng, node: &[GEp], hist: &mut BTreeMap<String, u64>, can_subscribe: bool) -> String {
    let op = if can_subscribe && rng.chance(1, 3) { 'S' } else { 'E' };
    let n = rng.range(1, 4);
    let mut items: Vec<String> = Vec::new();
    for i in 0..n {
        if i > 0 && rng.chance(1, 5) {
            let prev = items[rng.below(items.len() as u64) as usize].clone();
            items.push(prev);
        } else {
            items.push(rand_event_path(rng, node));
        }
    }
    *hist.entry(format!("event_requests_{op}")).or_insert(0) += 1;
    format!("{op},0,{},n,0,-,{}", rng.below(2), items.join("&"))
}

fn generate(tier: &str, seed: u64) -> (Vec<String>, BTreeMap<String, u64>) {
    let thorough = tier == "thorough";
    let mut rng = Rng::new(seed);
    let mut hist: BTreeMap<String, u64> = BTreeMap::new();
    let mut cases = Vec::new();
    let mut id = 0u64;
    let mut nid = || {
        id += 1;
        id
    };

    // ---- branch stream: a fixed node exercising every arm of the model, under fixed ACLs
    let node = "0~22~31=0.57.1/1.24.1=-+6=0.17.1/1.57.1/2.313.1/3.17.0/4.145.1/5.48.1=0.46.1/1.302.1/2.104.1/3.46.0/4.14.1|1~256~6=0.17.1/1.61.1=0.46.1+8=0.30.1=-|5~e~-";
    let admin = format!("1:15,C,n,{N1},n:-|2:15,C,n,{N1},n:-");
    let viewer = format!("1:1,C,n,{N1},n:-");
    let operator_ep1 = format!("1:3,C,n,{N1},1.x.x:-");
    let manager_cl6 = format!("1:7,C,n,n,x.6.x:-");
    let by_devtype = format!("1:15,C,n,{N1},x.x.256:-");
    let accs = [
        format!("SC,1,{N1},0/0/0,0,0"),
        format!("SC,1,{N2},0/0/0,0,0"),
        format!("SC,2,{N1},0/0/0,0,0"),
        format!("SC,3,{N1},0/0/0,0,0"),
        "SP,0,n,0/0/0,0,0".to_string(),
        "SP,1,n,0/0/0,0,0".to_string(),
    ];
    let branch_reqs = [
        // reads: full wildcard, each partial wildcard, concrete hits and every concrete miss
        "R,0,0,n,0,-,x.x.x",
        "R,0,1,n,0,-,0.x.x&x.6.x&x.x.65533&1.6.x&x.6.0&0.6.0",
        "R,0,0,n,0,-,0.6.0&0.6.0&0.6.1&0.6.2&0.6.3&0.6.4&0.6.5&0.6.9&0.7.0&7.6.0&0.31.1&5.6.0",
        "R,0,0,n,0,-,x.x.0",
        "R,0,0,10000,0,-,0.6.0",
        "R,0,0,n,0,-,0.31.1&0.31.0&0.31.1&0.31.1",
        // writes
        "W,0,0,n,0,-,0.6.1&0.6.0&0.6.2&0.6.5&0.6.9&0.9.1&9.6.1&1.6.1&1.6.1",
        "W,1,0,10000,0,-,0.6.2&0.6.1",
        "W,1,0,n,0,-,0.6.2",
        "W,0,0,10000,0,-,0.6.1",
        "W,1,0,2,45,-,0.6.2",
        "W,0,0,n,0,-,x.6.1&x.x.1&0.6.x&x.6.0",
        "W,0,0,n,0,-,0.31.0&0.31.0&0.31.1&0.31.0",
        // invokes
        "I,0,0,n,0,-,0.6.0",
        "I,0,0,n,0,-,0.6.0^1&0.6.1^2&0.6.2^3&0.6.3^4",
        "I,0,0,n,0,-,0.6.4^1&0.6.9^2&0.9.0^3&9.6.0^4",
        "I,1,0,10000,0,-,0.6.1^1&0.6.0^2&0.6.2^3",
        "I,1,0,n,0,-,0.6.1",
        "I,0,0,10000,0,-,0.6.0",
        "I,1,0,1,45,-,0.6.1",
        "I,0,0,n,0,-,x.6.0^1&x.x.0^2&0.6.x^3",
        "I,0,0,n,0,-,x.6.0",
        "I,0,0,n,0,-,x.6.1",
        "I,0,0,n,0,-,0.6.0^1&0.6.0^2",
        "I,0,0,n,0,-,0.6.0^1&1.6.0^1",
        "I,0,0,n,0,-,0.6.0&1.6.0^1",
        "I,0,0,n,0,-,0.6.0^1&1.6.0^2&0.6.1^3&0.6.2^4&0.6.4^5",
        "I,0,0,n,0,-,1.6.0^5&0.6.2^6",
    ];
    for fabs in [&admin, &viewer, &operator_ep1, &manager_cl6, &by_devtype] {
        for acc in &accs {
            for chunk in branch_reqs.chunks(7) {
                cases.push(format!("Q {} 4 {} {} {} {}", nid(), fabs, acc, node, chunk.join(";")));
                *hist.entry("branch_lines".into()).or_insert(0) += 1;
            }
        }
    }
    // node replaced between steps: endpoint removed / inserted before, at and after the cursor
    let n_a = "0~e~6=0.17.1/1.17.1=-|1~e~6=0.17.1=-|5~e~6=0.17.1/1.17.1=-";
    let n_b = "0~e~6=0.17.1/1.17.1=-|5~e~6=0.17.1/1.17.1=-";
    let n_c = "0~e~6=0.17.1/1.17.1=-|1~e~6=0.17.1=-|2~e~6=0.17.1=-|5~e~6=0.17.1/1.17.1=-|9~e~8=3.17.1=-";
    let n_d = "5~e~6=0.17.1/1.17.1=-";
    let n_e = "-";
    for (k, nodes) in [
        format!("{n_a}#{n_b}"),
        format!("{n_a}#{n_c}"),
        format!("{n_a}#{n_d}"),
        format!("{n_a}#{n_e}"),
        format!("{n_b}#{n_a}"),
        format!("{n_d}#{n_c}"),
        format!("{n_a}#{n_b}#{n_c}"),
        format!("{n_c}#{n_d}#{n_a}"),
    ]
    .iter()
    .enumerate()
    {
        let mut reqs = Vec::new();
        for s in 0..=5 {
            reqs.push(format!("R,0,0,n,0,{s}>1{},x.x.x", if nodes.matches('#').count() > 1 { format!(":{}>2", s + 2) } else { String::new() }));
        }
        reqs.push("R,0,0,n,0,1>1,x.6.0&x.x.x&0.6.0".to_string());
        reqs.push("W,0,0,n,0,1>1,x.6.0".to_string());
        let _ = k;
        cases.push(format!("Q {} 4 {} SC,1,{N1},0/0/0,0,0 {} {}", nid(), admin, nodes, reqs.join(";")));
        *hist.entry("swap_scripted_lines".into()).or_insert(0) += 1;
    }

    // ---- access control lists replaced between steps (what the last_authorized cache is for):
    //      table 0 grants, table 1 grants nothing; the switch happens after the k-th handler call
    let none = "1:-:-|2:-:-";
    let acl_node = "0~22~31=0.57.1/1.57.1=0.46.1+6=0.17.1/1.57.1=0.46.1/1.46.1|1~e~6=0.17.1/1.57.1=-";
    for (t0, t1) in [(admin.as_str(), none), (none, admin.as_str()), (admin.as_str(), viewer.as_str()), (viewer.as_str(), admin.as_str())] {
        let mut reqs = Vec::new();
        for k in 0..=3 {
            reqs.push(format!("W,0,0,n,0,{k}>0/1,0.31.0&0.31.0&0.31.1&0.31.0&0.31.0"));
            reqs.push(format!("R,0,0,n,0,{k}>0/1,0.6.0&0.6.0&0.6.1&0.6.0&x.6.0&1.6.0"));
        }
        reqs.push("R,0,0,n,0,2>0/1,x.x.x".to_string());
        reqs.push("R,0,0,n,0,1>0/1:3>0/0,x.x.x".to_string());
        reqs.push("I,0,0,n,0,1>0/1,0.6.0^1&0.6.1^2".to_string());
        cases.push(format!("Q {} 4 {}!{} SC,1,{N1},0/0/0,0,0 {} {}", nid(), t0, t1, acl_node, reqs.join(";")));
        *hist.entry("acl_switch_scripted_lines".into()).or_insert(0) += 1;
    }

    // ---- writes continued in a second / third chunk: every combination of the chunks' own TimedRequest flags,
    //      with / without a preceding TimedRequest, and with the window expiring between chunks
    //      (attributes 2 and 3 are timed-only)
    let cw_node = "0~22~6=0.17.1/1.57.1/2.313.1/3.313.1=-";
    let cw_items = ["0.6.2&0.6.1", "0.6.3&0.6.1", "0.6.2"];
    let mut cw_groups: Vec<String> = Vec::new();
    for win in ["n", "10000", "150"] {
        for nchunks in [2usize, 3] {
            for flags in 0..(1u32 << nchunks) {
                let lates: Vec<usize> = if win == "150" { (0..nchunks).collect() } else { vec![0] };
                for late in lates {
                    let mut g = Vec::new();
                    for k in 0..nchunks {
                        let f = (flags >> k) & 1;
                        if k == 0 {
                            g.push(format!("W,{f},0,{win},0,-,{}", cw_items[k]));
                        } else {
                            let wait = if late == k { 400 } else { 0 };
                            g.push(format!("C,{f},0,n,{wait},-,{}", cw_items[k]));
                        }
                    }
                    cw_groups.push(g.join(";"));
                    *hist.entry(format!("chunked_write_groups_win_{win}")).or_insert(0) += 1;
                }
            }
        }
    }
    for chunk in cw_groups.chunks(4) {
        cases.push(format!("Q {} 4 {} SC,1,{N1},0/0/0,0,0 {} {}", nid(), admin, cw_node, chunk.join(";")));
        *hist.entry("chunked_write_scripted_lines".into()).or_insert(0) += 1;
    }

    // ---- events: declarations of different access and fabric sensitivity, a queue pushed by two fabrics
    //      (FabricIndex field 1 / 2 / none), sources that no longer exist, every kind of path
    let ev_node = "0~22~6=0.17.1=0.46.1=0.17.1/1.24.1/2.145.1/3.17.0/4.30.1/5.0.1+8=-=-=0.17.1/2.148.1|1~256~6=0.17.1=0.46.1=0.17.1/2.145.1|5~e~9=-=-=-";
    let ev_queue = "0.6.0.n&0.6.1.n&0.6.2.1&0.6.2.2&0.6.3.n&0.6.4.n&0.6.5.n&0.8.0.n&0.8.2.2&0.8.2.1&1.6.0.n&1.6.2.2&1.6.2.0&7.6.0.n&0.7.0.n&0.6.9.n&5.9.0.n&0.6.2.n&0.6.0.1";
    let ev_reqs = [
        "E,0,0,n,0,-,x.x.x",
        "E,0,1,n,0,-,x.x.x",
        "E,0,0,n,0,-,0.x.x&x.6.x&x.x.2&1.6.x&x.8.2&0.6.x",
        "E,0,1,n,0,-,0.6.0&0.6.1&0.6.2&0.6.3&0.6.4&0.6.5&0.6.9&0.7.0&7.6.0&5.9.0&1.6.2",
        "E,0,0,n,0,-,0.6.1&0.6.1&x.6.1",
        "E,0,0,n,0,-,7.x.x&0.7.x&x.7.x&x.x.9",
        "S,0,1,n,0,-,x.x.x",
        "S,0,0,n,0,-,0.6.0&1.x.x",
        "S,0,1,n,0,-,x.x.x&0.6.9",
        "S,0,1,n,0,-,0.6.1",
        "S,0,0,n,0,-,0.7.0",
        "S,0,0,n,0,-,0.6.2&0.8.2",
        "E,0,1,n,0,-,0.8.2&0.6.2",
    ];
    for fabs in [&admin, &viewer, &operator_ep1, &manager_cl6, &by_devtype] {
        for acc in &accs {
            // a session without fabric (PASE before AddNOC) cannot subscribe: the engine gives up on the exchange
            // without an answer (im.rs subscribe: fabric index 0 => Err(Invalid)); not sent
            let rs: Vec<&str> = ev_reqs.iter().copied().filter(|r| !(acc.starts_with("SP,0") && r.starts_with('S'))).collect();
            cases.push(format!("Q {} 4 {} {} {} {} {}", nid(), fabs, acc, ev_node, rs.join(";"), ev_queue));
            *hist.entry("event_scripted_lines".into()).or_insert(0) += 1;
        }
    }

    // ---- group requesters (no answer comes back; the handler log is the observation): group 7 has
    //      member endpoints 1 and 2, group 9 none, group 11 is not in the table
    let g_node = "0~22~6=0.17.1/1.46.1/2.302.1=0.46.1/1.302.1/2.110.1=-|1~256~6=0.17.1/1.46.1=0.46.1/1.40.1=-+8=1.46.1=0.46.1=-|2~e~6=1.46.1=0.46.1=-|5~e~6=1.46.1=0.46.1=-";
    let g_tables = [
        "1:3,G,n,7,n:7,n,1/2+9,n,e".to_string(),
        "1:3,G,n,7,1.x.x:7,n,1/2".to_string(),
        "1:3,G,n,7,x.8.x/x.x.256:7,n,1/2/5".to_string(),
        "1:3,G,n,9,n+15,C,n,n,n:7,n,1/2".to_string(),
        "1:-:7,n,1/2".to_string(),
        "1:1,G,n,7,n:7,n,0/1".to_string(),
        "1:3,G,n,n,n:7,1,1/2".to_string(),
    ];
    let g_reqs = [
        "I,0,0,n,0,-,x.6.0", "I,0,0,n,0,-,1.6.0", "I,0,0,n,0,-,0.6.0", "I,0,0,n,0,-,2.6.0^1&x.8.0^2", "I,0,0,n,0,-,x.6.1",
        "I,0,0,n,0,-,x.x.0", "I,0,0,n,0,-,5.6.0", "W,0,0,n,0,-,x.6.1", "W,0,0,n,0,-,2.6.1&0.6.1&x.8.1", "W,0,0,n,0,-,x.6.0",
        "W,0,0,n,0,-,x.6.2", "I,0,0,n,0,-,x.6.2",
    ];
    for t in &g_tables {
        for (f, gid) in [(1, 7), (1, 9), (1, 11), (2, 7)] {
            cases.push(format!("Q {} 4 {}|2:-:- SG,{f},n,0/0/0,{gid},0 {} {}", nid(), t, g_node, g_reqs.join(";")));
            *hist.entry("group_scripted_lines".into()).or_insert(0) += 1;
        }
    }
    // random group lines
    for _ in 0..(if thorough { 1500 } else { 150 }) {
        let node = rand_node(&mut rng, 4, 4);
        let gid = *rng.pick(&[7u16, 7, 9]);
        let mut members: Vec<u16> = sample(&mut rng, &EP_POOL, 3);
        members.truncate(rng.range(0, 3) as usize);
        let mem = if members.is_empty() { "e".to_string() } else { members.iter().map(|m| m.to_string()).collect::<Vec<_>>().join("/") };
        let ne = rng.range(0, 2);
        let es: Vec<String> = (0..ne)
            .map(|_| {
                let pr = *rng.pick(&[1u8, 3, 7, 15]);
                let subj = *rng.pick(&["n", "7", "9", "7/9"]);
                let targ = match rng.below(4) {
                    0 => "n".to_string(),
                    1 => format!("{}.x.x", rng.pick(&EP_POOL)),
                    2 => format!("x.{}.x", rng.pick(&CL_POOL)),
                    _ => format!("x.x.{}", rng.pick(&DT_POOL)),
                };
                format!("{pr},{},n,{subj},{targ}", if rng.chance(5, 6) { "G" } else { "C" })
            })
            .collect();
        let table = format!("1:{}:7,n,{mem}|2:-:-", if es.is_empty() { "-".to_string() } else { es.join("+") });
        let nodes = vec![node];
        let reqs: Vec<String> = (0..rng.range(3, 6))
            .map(|_| {
                let op = *rng.pick(&['W', 'I']);
                let n = rng.range(1, 3) as usize;
                let mut items: Vec<String> = Vec::new();
                for i in 0..n {
                    let (e, mut c, mut l) = pick_path(&mut rng, &nodes[0], op == 'I', 45);
                    if c == "x" && !rng.chance(1, 8) {
                        c = rng.pick(&CL_POOL).to_string();
                    }
                    if l == "x" && !rng.chance(1, 8) {
                        l = "0".into();
                    }
                    let r = if op == 'I' && n > 1 { format!("^{}", i + 1) } else { String::new() };
                    items.push(format!("{e}.{c}.{l}{r}"));
                }
                format!("{op},0,0,n,0,-,{}", items.join("&"))
            })
            .collect();
        cases.push(format!("Q {} 4 {} SG,1,n,0/0/0,{gid},0 {} {}", nid(), table, show_node(&nodes[0]), reqs.join(";")));
        *hist.entry("group_random_lines".into()).or_insert(0) += 1;
    }

    // ---- random stream
    let n_rand = if thorough { 30000 } else { 2500 };
    for i in 0..n_rand {
        let (acc, peer) = rand_accessor(&mut rng);
        let mut fabs = rand_fabrics(&mut rng, peer);
        let big = i % 25 == 24;
        let two_acls = rng.chance(1, 8);
        if two_acls {
            fabs = format!("{}!{}", fabs, rand_fabrics(&mut rng, peer));
            *hist.entry("lines_two_acl_tables".into()).or_insert(0) += 1;
        }
        let n0 = if big {
            // a long answer: several ReportData chunks
            let mut n = Vec::new();
            for e in sample(&mut rng, &EP_POOL, 5) {
                let cls = sample(&mut rng, &CL_POOL, 4).into_iter().map(|c| {
                    let attrs = ATTR_POOL.iter().map(|a| GLeaf(*a, *rng.pick(&[17u16, 17, 57, 24, 61]), true)).collect();
                    GCluster(c, attrs, vec![], vec![])
                }).collect();
                n.push(GEp(e, vec![], cls));
            }
            n
        } else {
            rand_node(&mut rng, 4, 5)
        };
        let mut nodes = vec![n0];
        let swap_kind = rng.below(if big { 2 } else { 4 });
        if swap_kind == 0 || (big && swap_kind == 1) {
            let extra = rng.range(1, 2);
            let break_shape = !big && rng.chance(1, 4);
            for _ in 0..extra {
                let m = mutate_node(&mut rng, nodes.last().unwrap(), break_shape);
                nodes.push(m);
            }
            *hist.entry(if break_shape { "lines_swap_shape_broken" } else { "lines_swap_shape_kept" }.into()).or_insert(0) += 1;
        } else {
            *hist.entry("lines_stable_node".into()).or_insert(0) += 1;
        }
        if big {
            *hist.entry("lines_long_answer".into()).or_insert(0) += 1;
        }
        let nreq = if big { 2 } else { rng.range(3, 6) };
        let reqs: Vec<String> = (0..nreq).map(|_| rand_request(&mut rng, &nodes, &mut hist, big, two_acls)).collect();
        let mp = *rng.pick(&[2u16, 4, 4, 6]);
        let mut reqs = reqs;
        let mut tail = String::new();
        if !big && nodes.len() == 1 && rng.chance(1, 5) {
            for _ in 0..rng.range(1, 3) {
                let r = rand_event_request(&mut rng, &nodes[0], &mut hist, !acc.starts_with("SP,0"));
                let at = rng.below(reqs.len() as u64 + 1) as usize;
                reqs.insert(at, r);
            }
            tail = format!(" {}", rand_queue(&mut rng, &nodes[0]));
            *hist.entry("lines_with_event_queue".into()).or_insert(0) += 1;
        }
        cases.push(format!(
            "Q {} {} {} {} {} {}{}",
            nid(),
            mp,
            fabs,
            acc,
            nodes.iter().map(|n| show_node(n)).collect::<Vec<_>>().join("#"),
            reqs.join(";"),
            tail
        ));
    }
    (cases, hist)
}

fn real_main() {
    let args: Vec<String> = std::env::args().collect();
    match args.get(1).map(|s| s.as_str()) {
        Some("gen") => {
            let tier = &args[2];
            let seed: u64 = args[3].parse().unwrap();
            let outdir = std::path::PathBuf::from(&args[4]);
            std::fs::create_dir_all(&outdir).unwrap();
            let (cases, hist) = generate(tier, seed);
            let mut cf = std::io::BufWriter::new(std::fs::File::create(outdir.join("cases.txt")).unwrap());
            for c in &cases {
                writeln!(cf, "{}", c).unwrap();
            }
            let mut sj = String::from("{");
            for (i, (k, v)) in hist.iter().enumerate() {
                if i > 0 {
                    sj.push(',');
                }
                write!(sj, "\"{}\":{}", k, v).unwrap();
            }
            sj.push('}');
            std::fs::write(outdir.join("stats.json"), sj).unwrap();
        }
        Some("run") => {
            let text = std::fs::read_to_string(&args[2]).unwrap();
            let mut out = String::new();
            rsm_harness::silence_panics();
            for line in text.lines() {
                // an unexpected token in a line must not take the whole shard down
                let r = rsm_harness::catch(std::panic::AssertUnwindSafe(|| {
                    let mut o = String::new();
                    run_line(line, &mut o);
                    o
                }));
                match r {
                    Ok(o) => out.push_str(&o),
                    Err(_) => {
                        let id = line.split(' ').nth(1).unwrap_or("?");
                        out.push_str(&format!("Q {id} Eharness\n"));
                    }
                }
                print!("{}", out);
                out.clear();
            }
            std::io::stdout().flush().unwrap();
        }
        _ => {
            eprintln!("usage: c06 gen <tier> <seed> <outdir> | c06 run <cases>");
            std::process::exit(2);
        }
    }
}

fn main() {
    let t = std::thread::Builder::new().stack_size(256 << 20).spawn(real_main).unwrap();
    if t.join().is_err() {
        std::process::exit(101);
    }
}
