//! C12 correspondence harness: durable epoch counters of the real crate
//! (global group data message counter, event numbers, check-in counter)
//! driven through schedules of uses, store successes / failures and
//! restarts, with a scripted KV store owned by the harness.
//!
//! usage: c12 gen <quick|thorough> <seed> <outdir>   (writes cases.txt, stats.json)
//!        c12 run <cases-file>                       (prints one canonical line per case)
//!
//! Case lines (ops: tokens separated by ',', repetition `N*(a.b.c)`):
//!   G id kv0 ops            group counter through the hooks; ops r<rand> | o | f | c | s<rand> (MsgCounterSyncRsp read) | t (transport reset)
//!   X id kv0 ops            group counter through the real Exchange::initiate_group; ops I<rand>o | I<rand>f | c | s<rand> | t
//!   E id kv0 ops            Events::push with a scripted KV; ops po | pf | c
//!   K id epoch kv0 r0 ops   Icd check-in counter API; ops so | sf | po | pf | i<delta> | c<r>
//!   GW/EW/KW ...            digest sweeps: for every k in a range, k uses, restart, `post` uses
//! Lower-case kinds (g, x, e, k) are outside the hypotheses of the theorems
//! (foreign KV contents): compared with the model, not monitored.
use core::num::NonZeroU8;
use std::cell::RefCell;
use std::collections::BTreeMap;
use std::fmt::Write as _;
use std::io::Write as _;
use std::sync::atomic::{AtomicU32, Ordering};

use rs_matter::cert::gen::VALID_FOREVER;
use rs_matter::cert::MAX_CERT_TLV_AND_ASN1_LEN;
use rs_matter::crypto::{
    default_crypto, test_only_crypto, CanonAeadKey, CanonPkcSecretKey, Crypto, CryptoRng, RngCore,
    SecretKey, SigningSecretKey, AEAD_CANON_KEY_LEN,
};
use rs_matter::dm::clusters::icd_mgmt::{Icd, IcdModeConfig};
use rs_matter::dm::devices::test::{DAC_PRIVKEY, TEST_DEV_ATT, TEST_DEV_COMM, TEST_DEV_DET};
use rs_matter::error::{Error, ErrorCode};
use rs_matter::fabric::GroupKeyMapping;
use rs_matter::group_keys::{GroupEpochKeyEntry, GroupKeySet};
use rs_matter::im::events::Events;
use rs_matter::im::EventPriority;
use rs_matter::onboard::cac::RcacGenerator;
use rs_matter::onboard::noc::NocGenerator;
use rs_matter::persist::{
    KvBlobStore, KvBlobStoreAccess, EVENT_EPOCH_KEY, GROUP_DATA_COUNTER_KEY,
    ICD_CHECK_IN_COUNTER_KEY,
};
use rs_matter::sc::checkin::CheckInCounter;
use rs_matter::tlv::{TLVElement, TLVTag, ToTLV};
use rs_matter::transport::exchange::Exchange;
use rs_matter::transport::session::Sessions;
use rs_matter::utils::storage::{Vec as MVec, WriteBuf};
use rs_matter::Matter;
use rsm_harness::{Digest, Rng};

// ------------------------------------------------------------------ scripted KV

#[derive(Default)]
struct ScriptKv {
    map: BTreeMap<u16, Vec<u8>>,
    /// the next stores fail
    fail: bool,
    stores: u64,
    failed: u64,
}

impl KvBlobStore for ScriptKv {
    fn load<'a>(&mut self, key: u16, buf: &'a mut [u8]) -> Result<Option<&'a [u8]>, Error> {
        match self.map.get(&key) {
            Some(d) => {
                buf[..d.len()].copy_from_slice(d);
                Ok(Some(&buf[..d.len()]))
            }
            None => Ok(None),
        }
    }

    fn store(&mut self, key: u16, data: &[u8], _buf: &mut [u8]) -> Result<(), Error> {
        self.stores += 1;
        if self.fail {
            self.failed += 1;
            return Err(ErrorCode::StdIoError.into());
        }
        self.map.insert(key, data.to_vec());
        Ok(())
    }

    fn remove(&mut self, key: u16, _buf: &mut [u8]) -> Result<(), Error> {
        self.map.remove(&key);
        Ok(())
    }
}

impl ScriptKv {
    fn u32_at(&self, key: u16) -> Option<u32> {
        self.map
            .get(&key)
            .map(|d| u32::from_le_bytes(d.as_slice().try_into().expect("4-byte KV value")))
    }
    fn set_u32(&mut self, key: u16, v: Option<u32>) {
        match v {
            Some(v) => {
                self.map.insert(key, v.to_le_bytes().to_vec());
            }
            None => {
                self.map.remove(&key);
            }
        }
    }
    fn tlv_u64_at(&self, key: u16) -> Option<u64> {
        self.map
            .get(&key)
            .map(|d| TLVElement::new(d).u64().expect("u64 TLV in KV"))
    }
    fn set_tlv_u64(&mut self, key: u16, v: Option<u64>) {
        match v {
            Some(v) => {
                let mut b = [0u8; 32];
                let mut wb = WriteBuf::new(&mut b);
                v.to_tlv(&TLVTag::Anonymous, &mut wb).unwrap();
                let n = wb.get_tail();
                self.map.insert(key, b[..n].to_vec());
            }
            None => {
                self.map.remove(&key);
            }
        }
    }
}

struct Access<'a> {
    kv: &'a RefCell<ScriptKv>,
    buf: RefCell<[u8; 512]>,
}

impl<'a> Access<'a> {
    fn new(kv: &'a RefCell<ScriptKv>) -> Self {
        Self {
            kv,
            buf: RefCell::new([0; 512]),
        }
    }
}

impl KvBlobStoreAccess for Access<'_> {
    fn access<F, R>(&self, f: F) -> R
    where
        F: FnOnce(&mut dyn KvBlobStore, &mut [u8]) -> R,
    {
        let mut kv = self.kv.borrow_mut();
        let mut buf = self.buf.borrow_mut();
        f(&mut *kv, &mut buf[..])
    }
}

// ------------------------------------------------------------------ scripted RNG

static RAND: AtomicU32 = AtomicU32::new(0);

/// Every draw returns the value scripted by the current op.
struct ScriptRng;

impl RngCore for ScriptRng {
    fn next_u32(&mut self) -> u32 {
        RAND.load(Ordering::Relaxed)
    }
    fn next_u64(&mut self) -> u64 {
        let v = RAND.load(Ordering::Relaxed) as u64;
        (v << 32) | v
    }
    fn fill_bytes(&mut self, dest: &mut [u8]) {
        let v = RAND.load(Ordering::Relaxed).to_le_bytes();
        for (i, b) in dest.iter_mut().enumerate() {
            *b = v[i % 4];
        }
    }
    fn try_fill_bytes(&mut self, dest: &mut [u8]) -> Result<(), rand_core::Error> {
        self.fill_bytes(dest);
        Ok(())
    }
}

impl CryptoRng for ScriptRng {}

// ------------------------------------------------------------------ schedules

fn expand(s: &str) -> Vec<String> {
    let mut out = Vec::new();
    if s.is_empty() || s == "-" {
        return out;
    }
    for tok in s.split(',') {
        if let (Some(i), true) = (tok.find('*'), tok.ends_with(')')) {
            let n: usize = tok[..i].parse().unwrap();
            let body = &tok[i + 2..tok.len() - 1];
            let sub: Vec<&str> = body.split('.').collect();
            for _ in 0..n {
                for t in &sub {
                    out.push(t.to_string());
                }
            }
        } else {
            out.push(tok.to_string());
        }
    }
    out
}

fn kv_str<T: std::fmt::Display>(v: Option<T>) -> String {
    match v {
        Some(v) => v.to_string(),
        None => "-".to_string(),
    }
}

fn kv_parse<T: std::str::FromStr>(s: &str) -> Option<T>
where
    T::Err: std::fmt::Debug,
{
    if s == "-" {
        None
    } else {
        Some(s.parse::<T>().unwrap())
    }
}

/// Observed events, printed exactly as the model driver prints them.
#[derive(Clone, Copy)]
enum Ev {
    Nop,
    Yield(u64, Option<u64>),
    Pend(u64),
    Fail,
    Done,
    Boot,
}

fn ev_write(out: &mut String, e: Ev) {
    match e {
        Ev::Nop => out.push('n'),
        Ev::Yield(v, kv) => write!(out, "y{}@{}", v, kv_str(kv)).unwrap(),
        Ev::Pend(b) => write!(out, "p{}", b).unwrap(),
        Ev::Fail => out.push('f'),
        Ev::Done => out.push('d'),
        Ev::Boot => out.push('b'),
    }
}

fn ev_digest(d: &mut Digest, e: Ev) {
    let kvd = |d: &mut Digest, kv: Option<u64>| match kv {
        None => d.push(0),
        Some(b) => {
            d.push(1);
            d.push(b)
        }
    };
    match e {
        Ev::Nop => d.push(10),
        Ev::Yield(v, kv) => {
            d.push(11);
            d.push(v);
            kvd(d, kv)
        }
        Ev::Pend(b) => {
            d.push(12);
            d.push(b)
        }
        Ev::Fail => d.push(13),
        Ev::Done => d.push(14),
        Ev::Boot => d.push(15),
    }
}

struct Trace {
    text: String,
    first: bool,
}

impl Trace {
    fn new() -> Self {
        Trace {
            text: String::new(),
            first: true,
        }
    }
    fn push(&mut self, e: Ev) {
        if !self.first {
            self.text.push(',');
        }
        self.first = false;
        ev_write(&mut self.text, e);
    }
}

// ------------------------------------------------------------------ (a1) group counter through the hooks

/// `Sessions` as a restart leaves it: `Sessions::new()` then `load_persist`.
/// The caller logic of `Exchange::initiate_group` (reserve, store, on a failed
/// store take the reservation back, else use) is replayed by the harness
/// op by op, so that a restart can fall between its steps.
struct GroupHook {
    sessions: Box<Sessions>,
    kv: ScriptKv,
    pend: Option<(u32, u32)>,
}

impl GroupHook {
    fn boot(kv: ScriptKv) -> Self {
        let mut s = GroupHook {
            sessions: Box::new(Sessions::new()),
            kv,
            pend: None,
        };
        let mut buf = [0u8; 64];
        s.sessions.load_persist(&mut s.kv, &mut buf).unwrap();
        s
    }

    fn kv(&self) -> Option<u64> {
        self.kv.u32_at(GROUP_DATA_COUNTER_KEY).map(|v| v as u64)
    }

    fn restart(&mut self) {
        // RAM is lost: a new table, re-hydrated from the KV
        *self.sessions = Sessions::new();
        self.pend = None;
        let mut buf = [0u8; 64];
        self.sessions.load_persist(&mut self.kv, &mut buf).unwrap();
    }

    fn step<C: Crypto>(&mut self, crypto: &C, tok: &str) -> Ev {
        match tok.as_bytes()[0] {
            b'r' => {
                if self.pend.is_some() {
                    return Ev::Nop;
                }
                RAND.store(tok[1..].parse::<u32>().unwrap(), Ordering::Relaxed);
                let (v, b) = self
                    .sessions
                    .verif_reserve_global_group_data_ctr(crypto)
                    .unwrap();
                match b {
                    Some(b) => {
                        self.pend = Some((v, b));
                        Ev::Pend(b as u64)
                    }
                    None => Ev::Yield(v as u64, self.kv()),
                }
            }
            b's' => {
                // MsgCounterSyncRsp reads (and, the first time, seeds) the counter
                RAND.store(tok[1..].parse::<u32>().unwrap(), Ordering::Relaxed);
                self.sessions
                    .verif_get_or_init_global_group_data_ctr(crypto)
                    .unwrap();
                Ev::Done
            }
            b'o' | b'f' => match self.pend.take() {
                None => Ev::Nop,
                Some((v, b)) => {
                    self.kv.fail = tok == "f";
                    let mut buf = [0u8; 64];
                    let r = self
                        .kv
                        .store(GROUP_DATA_COUNTER_KEY, &b.to_le_bytes(), &mut buf);
                    self.kv.fail = false;
                    match r {
                        Ok(()) => Ev::Yield(v as u64, self.kv()),
                        Err(_) => {
                            self.sessions.verif_unreserve_global_group_data_ctr(v);
                            Ev::Fail
                        }
                    }
                }
            },
            b'c' => {
                self.restart();
                Ev::Boot
            }
            b't' => {
                // Matter::reset_transport -> Sessions::reset: the sessions go, the counter stays
                self.sessions.reset();
                Ev::Done
            }
            _ => panic!("bad group op {}", tok),
        }
    }

    fn final_str(&self) -> String {
        let (c, b) = self.sessions.verif_group_data_ctr_raw();
        format!(
            "{} {} {} {}",
            c,
            b,
            kv_str(self.kv()),
            match self.pend {
                None => "-".to_string(),
                Some((v, b)) => format!("{}:{}", v, b),
            }
        )
    }
}

fn group_kv(kv0: &str) -> ScriptKv {
    let mut kv = ScriptKv::default();
    kv.set_u32(GROUP_DATA_COUNTER_KEY, kv_parse::<u32>(kv0));
    kv
}

// ------------------------------------------------------------------ (a2) group counter through Exchange::initiate_group

const TEST_FABRIC_ID: u64 = 1;
const CONTROLLER_NODE_ID: u64 = 100;
const DEVICE_NODE_ID: u64 = 200;
const TEST_GROUP_ID: u16 = 0x0101;
const TEST_GROUP_KEY_SET_ID: u16 = 42;
const TEST_EPOCH_KEY: [u8; AEAD_CANON_KEY_LEN] = [
    0xa0, 0xa1, 0xa2, 0xa3, 0xa4, 0xa5, 0xa6, 0xa7, 0xa8, 0xa9, 0xaa, 0xab, 0xac, 0xad, 0xae, 0xaf,
];

/// Same provisioning as rs-matter/tests/mcsp.rs: one fabric, one group key set mapped to one group.
fn provision_fabric_and_group<C: Crypto>(matter: &Matter<'_>, crypto: &C) -> NonZeroU8 {
    let mut rcac_buf = [0u8; MAX_CERT_TLV_AND_ASN1_LEN];
    let mut rcac_gen = RcacGenerator::new(&mut rcac_buf);
    let (rcac_privkey, rcac) = rcac_gen
        .generate(crypto, TEST_FABRIC_ID, VALID_FOREVER)
        .unwrap();

    let mut noc_buf = [0u8; MAX_CERT_TLV_AND_ASN1_LEN];
    let mut noc_generator =
        NocGenerator::create(rcac_privkey.reference(), rcac, &[], &mut noc_buf).unwrap();

    let mut ipk = CanonAeadKey::new();
    let mut ipk_bytes = [0u8; AEAD_CANON_KEY_LEN];
    crypto.rand().unwrap().fill_bytes(&mut ipk_bytes);
    ipk.load_from_array(&ipk_bytes);

    let device_sk = crypto.generate_secret_key().unwrap();
    let mut device_csr_buf = [0u8; 256];
    let device_csr = device_sk.csr(&mut device_csr_buf).unwrap();
    let mut device_sk_canon = CanonPkcSecretKey::new();
    device_sk.write_canon(&mut device_sk_canon).unwrap();

    let device_noc = noc_generator
        .generate(crypto, device_csr, DEVICE_NODE_ID, &[], VALID_FOREVER)
        .unwrap();

    matter.with_state(|state| {
        let fab_idx = state
            .fabrics
            .add(
                crypto,
                device_sk_canon.reference(),
                rcac,
                device_noc,
                &[],
                Some(ipk.reference()),
                0xFFF1,
                CONTROLLER_NODE_ID,
            )
            .unwrap()
            .fab_idx();

        let fabric = state.fabrics.fabric_mut(fab_idx).unwrap();

        let mut epoch_key = CanonAeadKey::new();
        epoch_key.load_from_array(&TEST_EPOCH_KEY);
        let mut epoch_keys = MVec::new();
        epoch_keys
            .push(GroupEpochKeyEntry {
                epoch_key,
                epoch_start_time: 0,
            })
            .unwrap();

        fabric
            .groups_mut()
            .key_set_add(GroupKeySet {
                group_key_set_id: TEST_GROUP_KEY_SET_ID,
                group_key_security_policy: 0,
                epoch_keys,
            })
            .unwrap();

        fabric
            .groups_mut()
            .key_map_add(GroupKeyMapping {
                group_id: TEST_GROUP_ID,
                group_key_set_id: TEST_GROUP_KEY_SET_ID,
            })
            .unwrap();

        fab_idx
    })
}

struct GroupReal {
    matter: &'static Matter<'static>,
    fab_idx: NonZeroU8,
}

impl GroupReal {
    fn new() -> Self {
        let matter: &'static Matter<'static> = Box::leak(Box::new(Matter::new(
            &TEST_DEV_DET,
            TEST_DEV_COMM,
            &TEST_DEV_ATT,
            0,
        )));
        let crypto = test_only_crypto();
        let fab_idx = provision_fabric_and_group(matter, &crypto);
        GroupReal { matter, fab_idx }
    }

    /// The two RAM fields as a fresh `Sessions::new()` has them, then the real `load_persist`.
    fn restart(&self, kv: &RefCell<ScriptKv>) {
        self.matter.with_state(|state| {
            let sessions = state.verif_sessions();
            sessions.verif_group_data_ctr_power_cycle();
            let mut buf = [0u8; 64];
            sessions
                .load_persist(&mut *kv.borrow_mut(), &mut buf)
                .unwrap();
        });
    }

    fn run<C: Crypto>(&self, crypto: &C, kv0: &str, ops: &str, trace: &mut Trace) -> String {
        let kv = RefCell::new(group_kv(kv0));
        self.restart(&kv);
        let cur = |kv: &RefCell<ScriptKv>| kv.borrow().u32_at(GROUP_DATA_COUNTER_KEY).map(|v| v as u64);
        for tok in expand(ops) {
            if tok == "c" {
                self.restart(&kv);
                trace.push(Ev::Boot);
                continue;
            }
            if tok == "t" {
                self.matter.reset_transport().unwrap();
                trace.push(Ev::Done);
                continue;
            }
            if tok.as_bytes()[0] == b's' {
                RAND.store(tok[1..].parse::<u32>().unwrap(), Ordering::Relaxed);
                self.matter
                    .with_state(|state| {
                        state
                            .verif_sessions()
                            .verif_get_or_init_global_group_data_ctr(crypto)
                    })
                    .unwrap();
                trace.push(Ev::Done);
                continue;
            }
            let n = tok.len();
            RAND.store(tok[1..n - 1].parse::<u32>().unwrap(), Ordering::Relaxed);
            kv.borrow_mut().fail = tok.as_bytes()[n - 1] == b'f';
            let r = Exchange::initiate_group(
                self.matter,
                crypto,
                Access::new(&kv),
                self.fab_idx,
                TEST_GROUP_ID,
            );
            kv.borrow_mut().fail = false;
            match r {
                Ok(exch) => {
                    let v = exch
                        .verif_group_data_ctr()
                        .expect("initiate_group stashes the reserved value");
                    trace.push(Ev::Yield(v as u64, cur(&kv)));
                    drop(exch);
                }
                Err(_) => trace.push(Ev::Fail),
            }
        }
        let (c, b) = self
            .matter
            .with_state(|state| state.verif_sessions().verif_group_data_ctr_raw());
        format!("{} {} {} -", c, b, kv_str(cur(&kv)))
    }
}

// ------------------------------------------------------------------ (b) event numbers

struct EventsRun {
    events: Box<Events<256>>,
    kv: RefCell<ScriptKv>,
}

impl EventsRun {
    fn boot(kv0: Option<u64>) -> Self {
        let mut kv = ScriptKv::default();
        kv.set_tlv_u64(EVENT_EPOCH_KEY, kv0);
        let s = EventsRun {
            events: Box::new(Events::new()),
            kv: RefCell::new(kv),
        };
        s.load();
        s
    }
    fn load(&self) {
        let mut buf = [0u8; 64];
        self.events
            .verif_load_persist(&mut *self.kv.borrow_mut(), &mut buf)
            .unwrap();
    }
    fn kv(&self) -> Option<u64> {
        self.kv.borrow().tlv_u64_at(EVENT_EPOCH_KEY)
    }
    fn restart(&mut self) {
        self.events = Box::new(Events::new());
        self.load();
    }
    fn step(&mut self, tok: &str) -> Ev {
        match tok {
            "po" | "pf" => {
                self.kv.borrow_mut().fail = tok == "pf";
                let r = self.events.push(
                    1,
                    0x28,
                    0,
                    EventPriority::Info,
                    Access::new(&self.kv),
                    |_tw| Ok(()),
                );
                self.kv.borrow_mut().fail = false;
                match r {
                    Ok(n) => Ev::Yield(n, self.kv()),
                    Err(_) => Ev::Fail,
                }
            }
            "c" => {
                self.restart();
                Ev::Boot
            }
            _ => panic!("bad event op {}", tok),
        }
    }
    fn final_str(&self) -> String {
        format!(
            "{} {}",
            self.events.verif_next_event_number(),
            kv_str(self.kv())
        )
    }
}

// ------------------------------------------------------------------ (c) check-in counter

fn icd_mode() -> IcdModeConfig {
    IcdModeConfig {
        idle_mode_duration_s: 60,
        active_mode_duration_ms: 1000,
        active_mode_threshold_ms: 300,
        user_active_mode_trigger_hint: 0,
        user_active_mode_trigger_instruction: "",
    }
}

/// The `Icd` glue (what an application calls) and, next to it, a bare
/// `CheckInCounter` driven by the same calls; both must tell the same story.
struct CheckinRun {
    icd: Icd,
    bare: CheckInCounter,
    kv: ScriptKv,
    epoch: u32,
    /// what the interface has told the application: a store is owed
    owed: bool,
    obedient: bool,
    /// the bare `CheckInCounter` driven alongside answered differently from the `Icd`
    bare_diff: bool,
}

impl CheckinRun {
    fn boot(kv: ScriptKv, r: u32, epoch: u32) -> Self {
        let mut kv = kv;
        let icd = Icd::new(CheckInCounter::new(r, epoch), icd_mode());
        let mut buf = [0u8; 64];
        icd.load_counter(&mut kv, epoch, &mut buf).unwrap();
        let start = kv.u32_at(ICD_CHECK_IN_COUNTER_KEY).unwrap_or(r);
        CheckinRun {
            icd,
            bare: CheckInCounter::new(start, epoch),
            kv,
            epoch,
            owed: true,
            obedient: true,
            bare_diff: false,
        }
    }
    fn kv(&self) -> Option<u64> {
        self.kv.u32_at(ICD_CHECK_IN_COUNTER_KEY).map(|v| v as u64)
    }
    /// `persist_value()` of the counter inside the `Icd`, read by letting
    /// `persist_counter` write into a scratch store (the counter is not changed).
    fn icd_persist_value(&self) -> u32 {
        let mut scratch = ScriptKv::default();
        let mut buf = [0u8; 64];
        self.icd.persist_counter(&mut scratch, &mut buf).unwrap();
        scratch.u32_at(ICD_CHECK_IN_COUNTER_KEY).unwrap()
    }
    /// Everything printed comes from the `Icd`; the bare counter is only
    /// compared with it (a difference is printed in the final state, never
    /// asserted, so that the trace of the `Icd` reaches the monitor).
    fn step(&mut self, tok: &str) -> Ev {
        let mut buf = [0u8; 64];
        match tok.as_bytes()[0] {
            b's' => {
                if self.owed {
                    self.obedient = false;
                }
                // send_check_in: peek, (send), advance_counter
                let v = self.icd.next_counter();
                if v != self.bare.next() {
                    self.bare_diff = true;
                }
                let before = self.kv();
                let stores0 = self.kv.stores;
                self.kv.fail = tok == "sf";
                let r = self.icd.advance_counter(&mut self.kv, &mut buf);
                self.kv.fail = false;
                let told = self.bare.advance();
                // what the interface told the application: a store was attempted
                // (advance returned a boundary) and it succeeded / failed
                let attempted = self.kv.stores > stores0;
                if told.is_some() != attempted {
                    self.bare_diff = true;
                }
                if attempted {
                    self.owed = r.is_err();
                }
                Ev::Yield(v as u64, before)
            }
            b'p' => {
                self.kv.fail = tok == "pf";
                let r = self.icd.persist_counter(&mut self.kv, &mut buf);
                self.kv.fail = false;
                match r {
                    Ok(()) => {
                        self.owed = false;
                        Ev::Done
                    }
                    Err(_) => Ev::Fail,
                }
            }
            b'i' => {
                let d = tok[1..].parse::<u64>().unwrap() as u32;
                let moved = self.icd.invalidate_counter(d);
                let told = self.bare.advance_by(d);
                if moved != told.is_some() {
                    self.bare_diff = true;
                }
                if moved {
                    self.owed = true;
                    Ev::Pend(self.icd_persist_value() as u64)
                } else {
                    Ev::Done
                }
            }
            b'c' => {
                let r = tok[1..].parse::<u64>().unwrap() as u32;
                let kv = std::mem::take(&mut self.kv);
                let (ob, bd) = (self.obedient, self.bare_diff);
                *self = CheckinRun::boot(kv, r, self.epoch);
                self.obedient = ob;
                self.bare_diff = bd;
                Ev::Boot
            }
            _ => panic!("bad check-in op {}", tok),
        }
    }
    fn final_str(&self) -> String {
        let same = !self.bare_diff
            && self.icd.next_counter() == self.bare.next()
            && self.icd_persist_value() == self.bare.persist_value();
        format!(
            "{} {} {} {}",
            self.icd.next_counter(),
            kv_str(self.kv()),
            self.icd_persist_value(),
            if same {
                "bare=ok".to_string()
            } else {
                format!("bare={}/{}", self.bare.next(), self.bare.persist_value())
            }
        )
    }
}

fn checkin_kv(kv0: &str) -> ScriptKv {
    let mut kv = ScriptKv::default();
    kv.set_u32(ICD_CHECK_IN_COUNTER_KEY, kv_parse::<u32>(kv0));
    kv
}

// ------------------------------------------------------------------ running cases

struct Runner<C: Crypto> {
    crypto: C,
    real: Option<GroupReal>,
}

impl<C: Crypto> Runner<C> {
    fn run_line(&mut self, line: &str, out: &mut String) {
        let f: Vec<&str> = line.split(' ').collect();
        match f[0] {
            "G" | "g" => {
                let mut m = GroupHook::boot(group_kv(f[2]));
                let mut t = Trace::new();
                for tok in expand(f[3]) {
                    let e = m.step(&self.crypto, &tok);
                    t.push(e);
                }
                writeln!(out, "{} {} {} | {}", f[0], f[1], t.text, m.final_str()).unwrap();
            }
            "X" | "x" => {
                if self.real.is_none() {
                    self.real = Some(GroupReal::new());
                }
                let mut t = Trace::new();
                let fin = self
                    .real
                    .as_ref()
                    .unwrap()
                    .run(&self.crypto, f[2], f[3], &mut t);
                writeln!(out, "{} {} {} | {}", f[0], f[1], t.text, fin).unwrap();
            }
            "E" | "e" => {
                let mut m = EventsRun::boot(kv_parse::<u64>(f[2]));
                let mut t = Trace::new();
                for tok in expand(f[3]) {
                    let e = m.step(&tok);
                    t.push(e);
                }
                writeln!(out, "{} {} {} | {}", f[0], f[1], t.text, m.final_str()).unwrap();
            }
            "K" | "k" => {
                let epoch: u32 = f[2].parse().unwrap();
                let r0 = f[4].parse::<u64>().unwrap() as u32;
                let mut m = CheckinRun::boot(checkin_kv(f[3]), r0, epoch);
                let mut t = Trace::new();
                for tok in expand(f[5]) {
                    let e = m.step(&tok);
                    t.push(e);
                }
                writeln!(
                    out,
                    "{} {} {} {} {} | {}",
                    f[0],
                    f[1],
                    epoch,
                    m.obedient as u8,
                    t.text,
                    m.final_str()
                )
                .unwrap();
            }
            "GW" => {
                let (klo, khi, post): (u64, u64, u64) =
                    (f[3].parse().unwrap(), f[4].parse().unwrap(), f[5].parse().unwrap());
                let mut d = Digest::new();
                for k in klo..=khi {
                    let mut m = GroupHook::boot(group_kv(f[2]));
                    for _ in 0..k {
                        ev_digest(&mut d, m.step(&self.crypto, "r0"));
                        ev_digest(&mut d, m.step(&self.crypto, "o"));
                    }
                    ev_digest(&mut d, m.step(&self.crypto, "c"));
                    for _ in 0..post {
                        ev_digest(&mut d, m.step(&self.crypto, "r0"));
                        ev_digest(&mut d, m.step(&self.crypto, "o"));
                    }
                    let (c, b) = m.sessions.verif_group_data_ctr_raw();
                    d.push(c as u64);
                    d.push(b as u64);
                    match m.kv() {
                        None => d.push(0),
                        Some(x) => {
                            d.push(1);
                            d.push(x)
                        }
                    }
                }
                writeln!(out, "GW {} {:016x}", f[1], d.0).unwrap();
            }
            "EW" => {
                let (klo, khi, post): (u64, u64, u64) =
                    (f[3].parse().unwrap(), f[4].parse().unwrap(), f[5].parse().unwrap());
                let mut d = Digest::new();
                for k in klo..=khi {
                    let mut m = EventsRun::boot(kv_parse::<u64>(f[2]));
                    for _ in 0..k {
                        ev_digest(&mut d, m.step("po"));
                    }
                    ev_digest(&mut d, m.step("c"));
                    for _ in 0..post {
                        ev_digest(&mut d, m.step("po"));
                    }
                    d.push(m.events.verif_next_event_number());
                    match m.kv() {
                        None => d.push(0),
                        Some(x) => {
                            d.push(1);
                            d.push(x)
                        }
                    }
                }
                writeln!(out, "EW {} {:016x}", f[1], d.0).unwrap();
            }
            "KW" => {
                let epoch: u32 = f[2].parse().unwrap();
                let (klo, khi, post): (u64, u64, u64) =
                    (f[4].parse().unwrap(), f[5].parse().unwrap(), f[6].parse().unwrap());
                let mut d = Digest::new();
                for k in klo..=khi {
                    let mut m = CheckinRun::boot(checkin_kv(f[3]), 0, epoch);
                    ev_digest(&mut d, m.step("po"));
                    for _ in 0..k {
                        ev_digest(&mut d, m.step("so"));
                    }
                    ev_digest(&mut d, m.step("c0"));
                    ev_digest(&mut d, m.step("po"));
                    for _ in 0..post {
                        ev_digest(&mut d, m.step("so"));
                    }
                    d.push(m.icd.next_counter() as u64);
                    d.push(m.icd_persist_value() as u64);
                    match m.kv() {
                        None => d.push(0),
                        Some(x) => {
                            d.push(1);
                            d.push(x)
                        }
                    }
                }
                writeln!(out, "KW {} {:016x}", f[1], d.0).unwrap();
            }
            _ => {}
        }
    }
}

// ------------------------------------------------------------------ generation

const G_MASK: u64 = 0x0fff_ffff;
const E_LAST: u64 = 18_446_744_073_709_550_000; // last multiple of 10000 below 2^64

struct Gen {
    rng: Rng,
    cases: Vec<String>,
    id: u64,
    hist: BTreeMap<&'static str, u64>,
}

impl Gen {
    fn add(&mut self, stream: &'static str, kind: &str, body: String) {
        self.id += 1;
        *self.hist.entry(stream).or_insert(0) += 1;
        self.cases.push(format!("{} {} {}", kind, self.id, body));
    }
}

/// all sequences over `alpha` of length 1..=maxlen
fn all_seqs(alpha: &[&str], maxlen: usize) -> Vec<String> {
    let mut out = Vec::new();
    let mut cur: Vec<Vec<&str>> = vec![vec![]];
    for _ in 0..maxlen {
        let mut next = Vec::new();
        for p in &cur {
            for a in alpha {
                let mut q = p.clone();
                q.push(*a);
                out.push(q.join(","));
                next.push(q);
            }
        }
        cur = next;
    }
    out
}

fn generate(tier: &str, seed: u64) -> Gen {
    let thorough = tier == "thorough";
    let mut g = Gen {
        rng: Rng::new(seed),
        cases: Vec::new(),
        id: 0,
        hist: BTreeMap::new(),
    };

    // ================= (a1) group counter, hooks
    // -- every op sequence up to length 5 (6 in thorough) from boundaries at and around the wrap points
    let g_alpha = ["r0", "o", "f", "c"];
    let g_seqs = all_seqs(&g_alpha, if thorough { 6 } else { 5 });
    let g_starts: Vec<u64> = vec![
        1,
        2,
        999,
        1000,
        G_MASK - 1001,
        G_MASK - 1000,
        G_MASK - 999,
        G_MASK - 998,
        G_MASK - 1,
        G_MASK,
    ];
    for &s in &g_starts {
        for q in &g_seqs {
            g.add("g_short_exhaustive", "G", format!("{} {}", s, q));
        }
    }
    // -- first use ever (empty KV): seeds around the mask edges
    let g_seeds: [u64; 9] = [0, 1, 2, G_MASK - 1, G_MASK, G_MASK + 1, G_MASK + 2, 0xffff_ffff, 0xf000_0000];
    let seed_seqs = all_seqs(&["R", "o", "f", "c"], 4);
    for &r in &g_seeds {
        for q in &seed_seqs {
            let q = q.replace('R', &format!("r{}", r));
            g.add("g_seed_exhaustive", "G", format!("- {}", q));
        }
    }
    // -- the counter is also read (and seeded) by MsgCounterSyncRsp: sync ops in between
    let sync_seqs = all_seqs(&["S", "r7", "o", "f", "c"], 4);
    for &r in &[0u64, 5, G_MASK, G_MASK + 1] {
        for s in ["-", "1000", "268435455"] {
            for q in &sync_seqs {
                let q = q.replace('S', &format!("s{}", r));
                g.add("g_sync_exhaustive", "G", format!("{} {}", s, q));
            }
        }
    }
    // -- every start value within 1100 of the wrap point and of 1, a fixed family of short schedules
    let fam = [
        "r0,o,c,r0,o,r0",
        "r0,f,r0,o,r0,c,r0,o",
        "r0,c,r0,o,c,c,r0,f,r0,o",
        "r0,o,r0,r0,c,r0,f,c,r0,o,r0",
    ];
    let mut near: Vec<u64> = Vec::new();
    for d in 0..=1100u64 {
        near.push(G_MASK - d);
        near.push(1 + d);
    }
    for &s in &near {
        for (i, q) in fam.iter().enumerate() {
            if thorough || (s as usize + i) % 2 == 0 {
                g.add("g_near_wrap_family", "G", format!("{} {}", s, q));
            }
        }
    }
    // -- long runs: k uses, restart, m uses, restart, uses (full traces, monitored)
    let g_long_starts: [u64; 7] = [G_MASK - 1500, G_MASK - 1000, G_MASK - 999, G_MASK - 500, G_MASK, 1, 123_456];
    let ks: [u64; 12] = [0, 1, 2, 500, 998, 999, 1000, 1001, 1002, 1999, 2000, 2001];
    for &s in &g_long_starts {
        for &k in &ks {
            if !thorough && (s + k) % 3 != 0 {
                continue;
            }
            let m = g.rng.range(0, 1200);
            g.add(
                "g_long_crash_points",
                "G",
                format!("{} {}*(r0.o),c,{}*(r0.o),c,300*(r0.o)", s, k, m),
            );
        }
    }
    // -- random long schedules with failures and restarts anywhere
    let n_rand = if thorough { 1500 } else { 150 };
    for _ in 0..n_rand {
        let s = match g.rng.below(4) {
            0 => g.rng.range(1, G_MASK),
            1 => G_MASK - g.rng.below(2200),
            2 => 1 + g.rng.below(1100),
            _ => G_MASK - 1000 + g.rng.below(3),
        };
        let len = g.rng.range(10, 2500);
        let mut ops: Vec<String> = Vec::new();
        let mut i = 0;
        while i < len {
            let k = g.rng.below(100);
            if k < 55 {
                let n = g.rng.range(1, 400);
                ops.push(format!("{}*(r0.o)", n));
                i += n;
            } else if k < 70 {
                ops.push("r0".into());
                ops.push(if g.rng.chance(2, 3) { "f".into() } else { "c".into() });
            } else if k < 85 {
                ops.push("c".into());
            } else {
                ops.push((*g.rng.pick(&["r0", "o", "f", "c", "t", "t"])).to_string());
            }
            i += 1;
        }
        g.add("g_random_long", "G", format!("{} {}", s, ops.join(",")));
    }
    // -- a transport reset (Matter::reset_transport) anywhere: short sequences ...
    let gt_seqs = all_seqs(&["r0", "o", "f", "c", "t"], if thorough { 6 } else { 5 });
    for &s in &[1u64, 1000, G_MASK - 1000, G_MASK - 999, G_MASK] {
        for q in &gt_seqs {
            if q.contains('t') {
                g.add("g_reset_short_exhaustive", "G", format!("{} {}", s, q));
            }
        }
    }
    // ... and runs that, after a reset at any point of an epoch, go on to (and past) the boundary
    // that was durable at the reset, then restart
    let reset_starts: [u64; 6] = [1, 1000, G_MASK - 1500, G_MASK - 999, G_MASK - 500, 123_456];
    let reset_ks: [u64; 6] = [0, 1, 499, 997, 998, 999];
    for &s in &reset_starts {
        for &k in &reset_ks {
            let q = format!("{}*(r0.o),t,{}*(r0.o),c,5*(r0.o)", k + 1, 1002 - k);
            g.add("g_reset_to_boundary", "G", format!("{} {}", s, q));
            let q = format!("{}*(I0o),t,{}*(I0o),c,5*(I0o)", k + 1, 1002 - k);
            g.add("x_reset_to_boundary", "X", format!("{} {}", s, q));
        }
    }
    // -- foreign KV contents (outside the ring): correspondence only
    for &s in &[0u64, G_MASK + 1, G_MASK + 2, 0xffff_fc17, 0xffff_fc18, 0xffff_fffe, 0xffff_ffff, 0x1000_03e8] {
        for q in all_seqs(&g_alpha, 4) {
            g.add("g_foreign_kv", "g", format!("{} {}", s, q));
        }
    }
    // -- digest sweeps: every restart position k, then `post` uses
    let sweep_starts: Vec<u64> = if thorough {
        vec![G_MASK - 1500, G_MASK - 1000, G_MASK - 999, G_MASK - 500, G_MASK - 1, 1, 77_777]
    } else {
        vec![G_MASK - 1500, G_MASK - 999, 1]
    };
    for &s in &sweep_starts {
        let mut k = 0;
        while k <= 2200 {
            g.add("g_sweep", "GW", format!("{} {} {} {}", s, k, k + 49, 1100));
            k += 50;
        }
    }

    // ================= (a2) group counter, real Exchange::initiate_group
    let x_seqs = all_seqs(&["I0o", "I0f", "c"], if thorough { 7 } else { 6 });
    for &s in &[1u64, 1000, G_MASK - 1000, G_MASK - 999, G_MASK - 1, G_MASK] {
        for q in &x_seqs {
            g.add("x_short_exhaustive", "X", format!("{} {}", s, q));
        }
    }
    let xt_seqs = all_seqs(&["I0o", "I0f", "c", "t"], if thorough { 6 } else { 5 });
    for &s in &[1000u64, G_MASK - 999, G_MASK] {
        for q in &xt_seqs {
            if q.contains('t') {
                g.add("x_reset_short_exhaustive", "X", format!("{} {}", s, q));
            }
        }
    }
    for &r in &[0u64, 1, G_MASK, G_MASK + 1, 0xffff_ffff, 0x0abc_def0] {
        for q in all_seqs(&["Io", "If", "c"], 4) {
            let q = q.replace("Io", &format!("I{}o", r)).replace("If", &format!("I{}f", r));
            g.add("x_seed_exhaustive", "X", format!("- {}", q));
        }
        for q in all_seqs(&["s9", "I0o", "I0f", "c"], 4) {
            let q = q.replace("s9", &format!("s{}", r));
            g.add("x_sync_exhaustive", "X", format!("- {}", q));
        }
    }
    let n_x = if thorough { 600 } else { 80 };
    for _ in 0..n_x {
        let s = if g.rng.chance(1, 2) {
            G_MASK - g.rng.below(2200)
        } else {
            g.rng.range(1, G_MASK)
        };
        let len = g.rng.range(5, 2000);
        let mut ops: Vec<String> = Vec::new();
        let mut i = 0;
        while i < len {
            let k = g.rng.below(100);
            if k < 60 {
                let n = g.rng.range(1, 300);
                ops.push(format!("{}*(I0o)", n));
                i += n;
            } else if k < 80 {
                ops.push("I0f".into());
            } else if k < 90 {
                ops.push("t".into());
            } else {
                ops.push("c".into());
            }
            i += 1;
        }
        g.add("x_random_long", "X", format!("{} {}", s, ops.join(",")));
    }

    // ================= (b) event numbers
    let e_seqs = all_seqs(&["po", "pf", "c"], if thorough { 8 } else { 7 });
    let e_starts: Vec<String> = vec![
        "-".into(),
        "1".into(),
        "10000".into(),
        "20000".into(),
        (E_LAST - 20000).to_string(),
        (E_LAST - 10000).to_string(),
        E_LAST.to_string(),
    ];
    for s in &e_starts {
        for q in &e_seqs {
            g.add("e_short_exhaustive", "E", format!("{} {}", s, q));
        }
    }
    // foreign epochs (not an epoch start): correspondence only
    for s in ["0", "2", "9999", "10001", "8384", "18446744073709551614", "18446744073709551615", "18446744073709550001"] {
        for q in all_seqs(&["po", "pf", "c"], 5) {
            g.add("e_foreign_kv", "e", format!("{} {}", s, q));
        }
    }
    // long runs across epoch ends and across the wrap-around
    let e_long: Vec<(String, u64)> = vec![
        ("-".into(), 10_000),
        ("1".into(), 10_000),
        ("10000".into(), 10_000),
        ((E_LAST - 10000).to_string(), 10_000),
        (E_LAST.to_string(), 1_616),
    ];
    for (s, span) in &e_long {
        let picks: Vec<u64> = vec![0, 1, 2, span - 2, span - 1, *span, span + 1, span + 2, span / 2];
        for &k in &picks {
            if !thorough && k % 2 == 1 && k > 2 {
                continue;
            }
            let m = g.rng.range(0, 3000);
            g.add(
                "e_long_crash_points",
                "E",
                format!("{} {}*(po),c,{}*(po),pf,c,{}*(po)", s, k, m, span + 50),
            );
        }
    }
    let n_e = if thorough { 1200 } else { 120 };
    for _ in 0..n_e {
        let s = match g.rng.below(5) {
            0 => "-".to_string(),
            1 => "1".to_string(),
            2 => (10000 * g.rng.range(1, 1_000_000)).to_string(),
            3 => E_LAST.to_string(),
            _ => (E_LAST - 10000).to_string(),
        };
        let len = g.rng.range(10, 4000);
        let mut ops: Vec<String> = Vec::new();
        let mut i = 0;
        while i < len {
            let k = g.rng.below(100);
            if k < 60 {
                let n = g.rng.range(1, 1500);
                ops.push(format!("{}*(po)", n));
                i += n;
            } else if k < 75 {
                ops.push("pf".into());
            } else if k < 90 {
                ops.push("c".into());
            } else {
                ops.push("po".into());
            }
            i += 1;
        }
        g.add("e_random_long", "E", format!("{} {}", s, ops.join(",")));
    }
    // digest sweeps: every restart position across the wrap-around and across the first epoch end
    {
        let mut k = 0;
        while k <= 1700 {
            g.add("e_sweep", "EW", format!("{} {} {} {}", E_LAST, k, k + 49, 1700));
            k += 50;
        }
        let lo = if thorough { 0 } else { 9_900 };
        let mut k = lo;
        while k <= 10_100 {
            g.add("e_sweep", "EW", format!("- {} {} {}", k, k + 9, 150));
            k += 10;
        }
    }

    // ================= (c) check-in counter
    let k_alpha = ["so", "sf", "po", "pf", "i1", "iE", "i1073741823", "c7"];
    let k_seqs = all_seqs(&k_alpha, if thorough { 5 } else { 4 });
    for epoch in [1u64, 2, 3, 1000] {
        for s in ["-", "0", "4294967293", "4294967295"] {
            for q in &k_seqs {
                let q = q.replace("iE", &format!("i{}", epoch));
                // as issued, and after the store the interface asks for right after a start
                g.add("k_short_exhaustive", "K", format!("{} {} 4294967290 {}", epoch, s, q));
                g.add("k_short_exhaustive_persisted", "K", format!("{} {} 4294967290 po,{}", epoch, s, q));
            }
        }
    }
    // jumps of (almost) a whole lap: beyond the one-lap hypothesis, compared with the model only
    for epoch in [1u64, 3] {
        for s in ["-", "4294967295"] {
            for q in all_seqs(&["so", "po", "i4294967295", "i4294967294", "c7"], 4) {
                g.add("k_lap_jumps", "K", format!("{} {} 4294967290 po,{}", epoch, s, q));
            }
        }
    }
    // obedient random schedules: never send while a store may be owed
    let n_k = if thorough { 3000 } else { 300 };
    for _ in 0..n_k {
        let epoch = *g.rng.pick(&[1u64, 2, 7, 10, 1000, 65_536]);
        let s = match g.rng.below(4) {
            0 => "-".to_string(),
            1 => (0xffff_ffffu64 - g.rng.below(3000)).to_string(),
            2 => g.rng.below(3000).to_string(),
            _ => g.rng.below(1 << 32).to_string(),
        };
        let r0 = if g.rng.chance(1, 2) { 0xffff_ffffu64 - g.rng.below(50) } else { g.rng.below(1 << 32) };
        let len = g.rng.range(5, 2500);
        let mut ops: Vec<String> = Vec::new();
        let mut owed = true;
        let mut i = 0;
        while i < len {
            if owed {
                if g.rng.chance(3, 4) {
                    ops.push("po".into());
                    owed = false;
                } else if g.rng.chance(1, 2) {
                    ops.push("pf".into());
                } else if g.rng.chance(1, 2) {
                    ops.push(format!("c{}", g.rng.below(1 << 32)));
                } else {
                    ops.push(format!("i{}", g.rng.below(3 * epoch + 2)));
                }
                i += 1;
                continue;
            }
            let k = g.rng.below(100);
            if k < 70 {
                let n = g.rng.range(1, 2 * epoch.min(400) + 3);
                ops.push(format!("{}*(so)", n));
                i += n;
            } else if k < 80 {
                ops.push("sf".into());
                owed = true;
            } else if k < 88 {
                ops.push(format!("i{}", g.rng.below(3 * epoch + 2)));
                owed = true;
            } else if k < 96 {
                ops.push(format!("c{}", g.rng.below(1 << 32)));
                owed = true;
            } else {
                ops.push("po".into());
            }
            i += 1;
        }
        g.add("k_random_obedient", "K", format!("{} {} {} {}", epoch, s, r0, ops.join(",")));
    }
    // arbitrary random schedules (mostly not obedient: compared, monitored only if obedient)
    for _ in 0..n_k / 3 {
        let epoch = *g.rng.pick(&[1u64, 2, 3, 10, 1000]);
        let s = if g.rng.chance(1, 2) { (0xffff_ffffu64 - g.rng.below(20)).to_string() } else { "-".to_string() };
        let len = g.rng.range(1, 200);
        let mut ops: Vec<String> = Vec::new();
        for _ in 0..len {
            let t = *g.rng.pick(&["so", "so", "so", "sf", "po", "pf", "i", "c"]);
            match t {
                "i" => ops.push(format!("i{}", g.rng.below(2 * epoch + 3))),
                "c" => ops.push(format!("c{}", g.rng.below(1 << 32))),
                t => ops.push(t.to_string()),
            }
        }
        g.add("k_random_any", "K", format!("{} {} 5 {}", epoch, s, ops.join(",")));
    }
    // digest sweeps across the u32 wrap-around
    for (epoch, span) in [(10u64, 60u64), (1000, 2200)] {
        let start = 0xffff_ffffu64 - span / 2;
        let mut k = 0;
        while k <= span {
            g.add("k_sweep", "KW", format!("{} {} {} {} {}", epoch, start, k, k + 19, span));
            k += 20;
        }
    }
    g
}

fn main() {
    let args: Vec<String> = std::env::args().collect();
    match args.get(1).map(|s| s.as_str()) {
        Some("gen") => {
            let tier = &args[2];
            let seed: u64 = args[3].parse().unwrap();
            let outdir = std::path::PathBuf::from(&args[4]);
            std::fs::create_dir_all(&outdir).unwrap();
            let g = generate(tier, seed);
            let mut cf = std::io::BufWriter::new(std::fs::File::create(outdir.join("cases.txt")).unwrap());
            for c in &g.cases {
                writeln!(cf, "{}", c).unwrap();
            }
            let mut sj = String::from("{");
            for (i, (k, v)) in g.hist.iter().enumerate() {
                if i > 0 {
                    sj.push(',');
                }
                write!(sj, "\"{}\":{}", k, v).unwrap();
            }
            sj.push('}');
            std::fs::write(outdir.join("stats.json"), sj).unwrap();
        }
        Some("run") => {
            let text = std::fs::read_to_string(&args[2]).unwrap();
            let mut runner = Runner {
                crypto: default_crypto(ScriptRng, DAC_PRIVKEY),
                real: None,
            };
            let mut out = String::new();
            let stdout = std::io::stdout();
            let mut lock = stdout.lock();
            rsm_harness::silence_panics();
            for line in text.lines() {
                // one case = one line, whatever happens inside: a panic / failed unwrap in the
                // code under test or in the harness becomes a token the checker reports with the case
                let mut cur = String::new();
                let r = std::panic::catch_unwind(std::panic::AssertUnwindSafe(|| {
                    runner.run_line(line, &mut cur)
                }));
                match r {
                    Ok(()) => out.push_str(&cur),
                    Err(e) => {
                        let msg = if let Some(m) = e.downcast_ref::<&str>() {
                            m.to_string()
                        } else if let Some(m) = e.downcast_ref::<String>() {
                            m.clone()
                        } else {
                            "panic".to_string()
                        };
                        let msg: String = msg
                            .chars()
                            .map(|c| if c.is_ascii_alphanumeric() { c } else { '_' })
                            .take(120)
                            .collect();
                        let mut it = line.split(' ');
                        let (k, id) = (it.next().unwrap_or("?"), it.next().unwrap_or("?"));
                        writeln!(out, "{} {} !panic {}", k, id, msg).unwrap();
                        // the long-lived Matter of the X stream may be in any state now
                        runner.real = None;
                    }
                }
                if out.len() > 1 << 20 {
                    lock.write_all(out.as_bytes()).unwrap();
                    out.clear();
                }
            }
            lock.write_all(out.as_bytes()).unwrap();
        }
        _ => {
            eprintln!("usage: c12 gen <tier> <seed> <outdir> | c12 run <cases>");
            std::process::exit(2);
        }
    }
}
