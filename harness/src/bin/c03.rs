fn main() {}
